#!/usr/bin/env python3
"""replace the block between the seedtable markers of DESIGN.md by the output of tools/seedtable.py"""
import os, re, subprocess
ROOT = os.path.dirname(os.path.dirname(os.path.abspath(__file__)))
t = subprocess.run(["python3", os.path.join(ROOT, "tools", "seedtable.py")], capture_output=True, text=True).stdout.strip()
p = os.path.join(ROOT, "DESIGN.md")
s = open(p).read()
b, e = "<!-- seedtable:begin -->", "<!-- seedtable:end -->"
s = re.sub(re.escape(b) + ".*?" + re.escape(e), lambda m: b + "\n" + t + "\n" + e, s, flags=re.S)
open(p, "w").write(s)
