#!/usr/bin/env python3
"""Apply one seeded defect to /repo, run the given checks (default: the property it targets), undo it.
usage: tools/seedrun.py seeded/<id> [Cxx ...] [--tier quick|thorough] [--seed N] [--worktree]
--worktree: instead of patching /repo itself, make a scratch git worktree of /repo's HEAD under /tmp/seedwt/, apply the patch there,
point the checks at it (POLAR_REPO) and remove it afterwards - /repo stays clean, so unchanged-tree sweeps can run meanwhile.
Prints one line per check: SEED <id> CHECK <Cxx> rc=<rc> violations=<n> wall=<s>"""
import json, os, subprocess, sys, time
ROOT = os.path.dirname(os.path.dirname(os.path.abspath(__file__)))
def main():
    args = sys.argv[1:]
    tier, seed = "quick", "0"
    if "--tier" in args:
        i = args.index("--tier"); tier = args[i + 1]; del args[i:i + 2]
    if "--seed" in args:
        i = args.index("--seed"); seed = args[i + 1]; del args[i:i + 2]
    wt_mode = "--worktree" in args
    if wt_mode:
        args.remove("--worktree")
    sdir = os.path.abspath(args[0])
    meta = json.load(open(os.path.join(sdir, "meta.json")))
    checks = args[1:] or [meta["property"]]
    target = "/repo"
    if wt_mode:
        target = os.path.join("/tmp/seedwt", os.path.basename(sdir) + f"_{os.getpid()}")
        os.makedirs("/tmp/seedwt", exist_ok=True)
        r = subprocess.run(["git", "-C", "/repo", "worktree", "add", "-q", "--detach", target, "HEAD"], capture_output=True, text=True)
        if r.returncode != 0:
            print("cannot create worktree:", r.stderr[:300]); return 2
    st = subprocess.run(["git", "-C", target, "status", "--porcelain", "--untracked-files=no"], capture_output=True, text=True).stdout.strip()
    if st:
        print(f"refusing: {target} has uncommitted changes:\n" + st); return 2
    r = subprocess.run(["git", "-C", target, "apply", os.path.join(sdir, "patch.diff")], capture_output=True, text=True)
    if r.returncode != 0:
        print("patch does not apply:", r.stderr[:300])
        if wt_mode:
            subprocess.run(["git", "-C", "/repo", "worktree", "remove", "--force", target], capture_output=True)
        return 2
    out = []
    try:
        for c in checks:
            t0 = time.time()
            env = dict(os.environ, VERIF_SEED=seed)
            if wt_mode:
                env["POLAR_REPO"] = target
                env["VERIF_EVIDENCE_DIR"] = os.path.join(target, ".verif_evidence")
            p = subprocess.run([os.path.join(ROOT, "check"), c, tier], capture_output=True, text=True, env=env, cwd=ROOT)
            nv = p.stdout.count("VIOLATION property=")
            kinds = sorted({l.strip().split(" ::")[0] for l in p.stdout.splitlines() if l.startswith("  kind=")})
            line = f"SEED {os.path.basename(sdir)} CHECK {c} {tier} rc={p.returncode} violations={nv} wall={time.time()-t0:.0f}s {kinds[:4]}"
            print(line, flush=True)
            out.append({"check": c, "tier": tier, "seed": seed, "rc": p.returncode, "violations": nv, "kinds": kinds[:8],
                        "summary": [l for l in p.stdout.splitlines() if l.startswith(c + " ")][-1:]})
    finally:
        if wt_mode:
            subprocess.run(["git", "-C", "/repo", "worktree", "remove", "--force", target], capture_output=True)
        else:
            subprocess.run(["git", "-C", "/repo", "checkout", "--", "."], check=True)
            # evidence files written while a seeded defect was applied are not evidence about the unchanged tree
            subprocess.run(["git", "-C", ROOT, "checkout", "--", "evidence"], capture_output=True)
    json.dump(out, open(os.path.join(sdir, "last_run.json"), "w"), indent=1)
    rp = os.path.join(sdir, "runs.json")
    runs = json.load(open(rp)) if os.path.exists(rp) else []
    verif_commit = subprocess.run(["git", "-C", ROOT, "rev-parse", "--short", "HEAD"], capture_output=True, text=True).stdout.strip()
    for o in out:
        o["verif_commit"] = verif_commit
        runs = [r for r in runs if not (r["check"] == o["check"] and r["tier"] == o["tier"])] + [o]
    json.dump(runs, open(rp, "w"), indent=1)
    return 0
if __name__ == "__main__":
    sys.exit(main())
