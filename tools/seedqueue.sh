#!/bin/bash
# sequential worker: processes the lines appended to scratch/seedqueue.txt ("<cand_dir> <name> <check> [<check>...]" -> seedbatch,
# "run <seed> <check>..." -> seedrun --worktree); stops at a line STOP.  Output: scratch/seedqueue.out
cd "$(dirname "$0")/.."
mkdir -p scratch; touch scratch/seedqueue.txt
i=0
while true; do
  n=$(wc -l < scratch/seedqueue.txt)
  if [ $i -lt $n ]; then
    i=$((i+1)); line=$(sed -n "${i}p" scratch/seedqueue.txt)
    [ "$line" = "STOP" ] && exit 0
    [ -z "$line" ] && continue
    set -- $line
    if [ "$1" = "run" ]; then shift; s=$1; shift; timeout 6000 python3 tools/seedrun.py seeded/$s "$@" --worktree 2>&1 | cut -c1-300 >> scratch/seedqueue.out
    else tools/seedbatch.sh "$line" >> scratch/seedqueue.out 2>&1; fi
  else sleep 5; fi
done
