#!/bin/bash
# re-run, in scratch worktrees (/repo untouched), the given "seed:check[,check]" pairs; one line each
cd "$(dirname "$0")/.."
for spec in "$@"; do
  s=${spec%%:*}; cs=${spec#*:}; [ "$cs" = "$spec" ] && cs=""
  timeout 6000 python3 tools/seedrun.py seeded/$s ${cs//,/ } --worktree 2>&1 | cut -c1-300
done
