#!/bin/bash
# usage: tools/allchecks.sh <tier> <seed> [ids...]   -> one summary line per check in scratch/all_<tier>_<seed>.txt
cd "$(dirname "$0")/.."
tier=$1; seed=$2; shift 2
ids=${@:-C01 C02 C03 C04 C05 C06 C07 C08 C09 C10 C11 C12 C13 C14 C15 C16 C17 C18 C19 C20}
mkdir -p scratch; out=scratch/all_${tier}_${seed}.txt; : > $out
for c in $ids; do
  VERIF_SEED=$seed timeout 7200 ./check $c $tier > scratch/run_${tier}_${seed}_$c.out 2>&1; rc=$?
  echo "$c rc=$rc $(grep "^$c " scratch/run_${tier}_${seed}_$c.out | cut -c1-260)" >> $out
  grep "^  kind" scratch/run_${tier}_${seed}_$c.out | cut -c1-200 | sort | uniq -c | sort -rn | head -4 >> $out
done
git checkout -- evidence 2>/dev/null
