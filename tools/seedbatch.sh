#!/bin/bash
# usage: tools/seedbatch.sh "<cand_dir> <name> <check> [<check>...]" ...   (verifies each candidate, then runs the checks against it)
cd "$(dirname "$0")/.."
for spec in "$@"; do
  set -- $spec
  cand=$1; name=$2; shift 2
  if [ ! -f seeded/$name/meta.json ]; then
    timeout 3600 python3 tools/seedverify.py $cand $name 2>&1 | cut -c1-300
  fi
  if [ -f seeded/$name/meta.json ]; then
    timeout 6000 python3 tools/seedrun.py seeded/$name "$@" --worktree 2>&1 | cut -c1-300
  fi
done
