#!/bin/bash
# usage: tools/seedprep.sh <Cxx> <K> <START>  -> creates /tmp/seedwork/<Cxx> (worktree of /repo HEAD), the property file, prints the agent prompt
cd "$(dirname "$0")/.."
id=$1; k=$2; start=$3
mkdir -p /tmp/seedwork
[ -d /tmp/seedwork/$id ] || git -C /repo worktree add -q --detach /tmp/seedwork/$id HEAD
python3 -c "
import json,sys
for l in open('properties.jsonl'):
    p=json.loads(l)
    if p['id']=='$id': json.dump(p,open('/tmp/seedwork/$id.property.json','w'),indent=1)
"
mkdir -p /tmp/seedwork/$id.out
sed -e "s/@ID@/$id/g" -e "s/@K@/$k/g" -e "s/@START@/$start/g" tools/seed_agent_prompt.txt
