#!/usr/bin/env python3
"""emit the markdown table 'which checks catch which seeded defects' from seeded/*/meta.json and last_run.json"""
import glob, json, os
ROOT = os.path.dirname(os.path.dirname(os.path.abspath(__file__)))
rows = []
for d in sorted(glob.glob(os.path.join(ROOT, "seeded", "*"))):
    try:
        meta = json.load(open(os.path.join(d, "meta.json")))
    except Exception:
        continue
    runs = []
    lr = os.path.join(d, "runs.json")
    if os.path.exists(lr):
        runs = json.load(open(lr))
    caught = [f"{r['check']}({r['tier'][0]})" for r in runs if r["rc"] == 1 and r["violations"] > 0]
    missed = [f"{r['check']}({r['tier'][0]})" for r in runs if not (r["rc"] == 1 and r["violations"] > 0)]
    files = ", ".join(os.path.basename(f) for f in meta.get("files", []))[:60]
    what = (meta.get("title") or meta.get("what_it_breaks", ""))[:110].replace("|", "/").replace("\n", " ")
    rows.append(f"| {os.path.basename(d)} | {files} | {what} | {' '.join(caught) or '-'} | {' '.join(missed) or '-'} |")
print("| seed | file(s) | what it breaks | caught by | run but silent |")
print("|---|---|---|---|---|")
print("\n".join(rows))
