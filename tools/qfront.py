#!/usr/bin/env python3
"""insert queue lines right after the line the seed queue worker is processing (found through the running seedrun/seedverify process)
usage: tools/qfront.py "<line>" ["<line>" ...]"""
import os, subprocess, sys
ROOT = os.path.dirname(os.path.dirname(os.path.abspath(__file__)))
p = os.path.join(ROOT, "scratch", "seedqueue.txt")
L = open(p).read().rstrip("\n").split("\n")
out = subprocess.run(["pgrep", "-fa", "tools/seedrun.py|tools/seedverify.py"], capture_output=True, text=True).stdout
cur = None
for l in out.splitlines():
    for tok in l.split():
        if tok.startswith("seeded/"):
            cur = tok.split("/")[1]
        elif "seedverify.py" in l and l.split()[-1].startswith("C"):
            cur = l.split()[-1]
idx = len(L)
if cur:
    for i, l in enumerate(L):
        if cur in l.split():
            idx = i + 1
L[idx:idx] = sys.argv[1:]
open(p + ".tmp", "w").write("\n".join(L) + "\n")
os.replace(p + ".tmp", p)
print("inserted at line", idx + 1, "after", cur)
