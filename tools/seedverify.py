#!/usr/bin/env python3
"""Confirm a candidate seeded defect in a scratch worktree of /repo and store it under /verif/seeded/<name>/.
usage: tools/seedverify.py <candidate dir with patch.diff demo.py meta.json> <name>
Checks: demo exits 0 on the clean tree, patch applies, demo exits 1 with the patch, the pinned test suite result is unchanged."""
import json, os, re, shutil, subprocess, sys
WT = "/tmp/seedverify_wt"
def sh(cmd, **kw):
    return subprocess.run(cmd, capture_output=True, text=True, **kw)
def main():
    cand, name = os.path.abspath(sys.argv[1]), sys.argv[2]
    if not os.path.isdir(WT):
        r = sh(["git", "-C", "/repo", "worktree", "add", "-q", "--detach", WT, "HEAD"])
        if r.returncode: print(r.stderr); return 2
    sh(["git", "-C", WT, "checkout", "-q", "--detach", sh(["git", "-C", "/repo", "rev-parse", "HEAD"]).stdout.strip()])
    sh(["git", "-C", WT, "checkout", "--", "."])
    demo = os.path.join(cand, "demo.py")
    def run_demo():
        try:
            p = sh(["/venv/bin/python", "-W", "ignore", demo, WT], cwd=WT, timeout=900)
            return p.returncode, (p.stdout + p.stderr)[-400:]
        except subprocess.TimeoutExpired:
            return -9, "timeout"
    rc0, out0 = run_demo()
    ap = sh(["git", "-C", WT, "apply", os.path.join(cand, "patch.diff")])
    if ap.returncode:
        print("PATCH DOES NOT APPLY", ap.stderr[:300]); return 1
    rc1, out1 = run_demo()
    # the pinned baseline command (serial: under xdist two synthesis tests are order-dependent and flaky on the clean tree too)
    t = sh(["/venv/bin/python", "-m", "pytest", "-q", "-p", "no:cacheprovider", "--timeout=900", "--continue-on-collection-errors"], cwd=WT, timeout=3000)
    tail = t.stdout.strip().splitlines()[-1] if t.stdout.strip() else ""
    failed = sorted(re.findall(r"^FAILED (\S+)", t.stdout, re.M))
    m = re.search(r"(\d+) passed", tail)
    passed = int(m.group(1)) if m else -1
    sh(["git", "-C", WT, "checkout", "--", "."])
    tests_ok = passed == 134 and failed == ["tests/bayesnet/test_parse_positive.py::ParseFileTest::test_mildew_medium"]
    ok = rc0 == 0 and rc1 == 1 and tests_ok
    print(f"{name}: demo clean rc={rc0} patched rc={rc1} tests: {tail} failed={failed} => {'OK' if ok else 'REJECT'}")
    if not ok:
        print("  clean:", out0[-200:].replace("\n", " | ")); print("  patched:", out1[-300:].replace("\n", " | "))
        return 1
    dst = os.path.join(os.path.dirname(os.path.dirname(os.path.abspath(__file__))), "seeded", name)
    os.makedirs(dst, exist_ok=True)
    for f in ("patch.diff", "demo.py"):
        shutil.copy(os.path.join(cand, f), os.path.join(dst, f))
    meta = json.load(open(os.path.join(cand, "meta.json")))
    meta["confirmed"] = {"base_commit": sh(["git", "-C", "/repo", "rev-parse", "--short", "HEAD"]).stdout.strip(),
                         "demo_clean_rc": rc0, "demo_patched_rc": rc1, "pytest": tail, "pytest_failed": failed,
                         "ran": ["demo.py <worktree> on clean and patched scratch worktree", "pytest -q -p no:cacheprovider --timeout=900 --continue-on-collection-errors (serial, the pinned baseline command) on the patched worktree"],
                         "demo_patched_output": out1[-300:]}
    json.dump(meta, open(os.path.join(dst, "meta.json"), "w"), indent=1)
    return 0
if __name__ == "__main__":
    sys.exit(main())
