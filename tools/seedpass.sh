#!/bin/bash
# recorded pass over all stored seeded defects: primary check (the property it targets) first, the listed secondary checks only if the
# primary stays silent.  Applies each patch to /repo itself (git apply), runs, reverts (git checkout -- .).
cd "$(dirname "$0")/.."
declare -A SECOND=( [C01-1]="C04" [C01-2]="C04" [C01-3]="C02" [C02-1]="C01" [C03-2]="C02" [C05-1]="C01" [C05-2]="C01 C03" [C05-3]="C01" [C09-1]="C03 C01"
  [C09-3]="C20" [C08-3]="C13" [C13-2]="C08" [C16-2]="C06" [C07-1]="C16 C06" [C17-1]="C04" [C18-1]="C01" [C18-2]="C01" [C19-2]="C01" [C10-1]="C01" [C06-1]="C20" [C12-2]="C08" [C20-2]="C03" )
for d in seeded/*/; do
  name=$(basename $d)
  [ -n "$1" ] && [[ ! " $* " =~ " $name " ]] && continue
  prim=$(python3 -c "import json;print(json.load(open('$d/meta.json'))['property'])")
  out=$(timeout 6000 python3 tools/seedrun.py seeded/$name $prim 2>&1 | cut -c1-300); echo "$out"
  if ! echo "$out" | grep -q "rc=1 violations=[1-9]"; then
    for c in ${SECOND[$name]}; do
      out=$(timeout 6000 python3 tools/seedrun.py seeded/$name $c 2>&1 | cut -c1-300); echo "$out"
      echo "$out" | grep -q "rc=1 violations=[1-9]" && break
    done
  fi
done
