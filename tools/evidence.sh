#!/bin/bash
# refresh evidence/*.json: every check's quick command once against /repo itself (seed 0); one summary line per check in scratch/evidence_run.txt
cd "$(dirname "$0")/.."
mkdir -p scratch; : > scratch/evidence_run.txt
for c in ${@:-C01 C02 C03 C04 C05 C06 C07 C08 C09 C10 C11 C12 C13 C14 C15 C16 C17 C18 C19 C20}; do
  ./check $c quick > scratch/ev_$c.out 2>&1; rc=$?
  echo "$c rc=$rc $(grep "^$c " scratch/ev_$c.out | cut -c1-260)" >> scratch/evidence_run.txt
done
