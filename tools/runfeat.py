#!/usr/bin/env python3
"""development helper: run, IN-PROCESS (no watchdog - wrap in `timeout`), the cases of a check whose features or id contain a substring
usage: PYTHONPATH=/verif:/verif/.deps [POLAR_REPO=<scratch worktree>] [SHOW=1] timeout 600 /venv/bin/python tools/runfeat.py C05 quick 0 <substring> <max cases>"""
import contextlib, importlib, io, os, sys
cid, tier, seed, feat, maxn = sys.argv[1], sys.argv[2], int(sys.argv[3]), sys.argv[4], int(sys.argv[5])
mod = importlib.import_module(f"polarmon.checks.{cid.lower()}")
if hasattr(mod, "worker_init"):
    mod.worker_init(tier)
cases = [c for c in mod.generate(seed, tier) if any(feat in f for f in c.get("features", [])) or feat in c["id"]][:maxn]
print(len(cases), "cases")
for c in cases:
    buf = io.StringIO()
    with contextlib.redirect_stdout(buf):
        r = mod.run_case(c, tier)
    print(c["id"], r.get("verdict"), r.get("reason", ""), r.get("refusals"), "cmp=", r.get("comparisons"), r.get("extra"))
    if os.environ.get("SHOW"):
        print(c.get("text"))
    for v in r.get("violations", []):
        print("   VIOL", v.get("kind"), v.get("key"), str(v.get("detail"))[:300])
