#!/usr/bin/env python3
"""regenerate MANIFEST.json from the table below; a property is claimed iff its check module exists and is listed in CLAIMED"""
import json, os
ROOT = os.path.dirname(os.path.dirname(os.path.abspath(__file__)))
T = {
 "C01": ("reference-semantics monitor on RecurrenceSolver.get / CLI output", "4/C01",
         "held on the observed executions: closed forms returned by the real pipeline (API path and printed CLI lines) equal the exact expectations computed by an independent interpreter of the source program at n=0..N for sampled programs, goals and parameter values; sampling, not proof",
         "oracle = polarmon/ref/engine.py (exact rational forward propagation, atom polynomials for continuous draws) + ref/laws.py; sympy for evaluating Polar's expressions"),
}
CLAIMED = [l.strip() for l in open(os.path.join(ROOT, "tools", "claimed.txt")) if l.strip()]
NA_REASON = {}
checks = []
for pid in CLAIMED:
    tech, dref, text, note = T[pid]
    checks.append({
        "property_id": pid, "quick_cmd": f"./check {pid} quick", "thorough_cmd": f"./check {pid} thorough",
        "evidence_file": f"evidence/{pid}.json", "replay_cmd_template": f"./check {pid} --replay {{path}}",
        "engine": "polarmon", "level_claimed": {"category": "exploration", "text": text, "design_ref": f"DESIGN.md section {dref}"},
        "level_note": note, "technique": "runtime monitoring: " + tech,
    })
na = [{"property_id": f"C{i:02d}", "reason": NA_REASON.get(f"C{i:02d}", "check not built yet in this round (runtime monitor planned, see DESIGN.md section 4); not claimed until it runs clean")}
      for i in range(1, 21) if f"C{i:02d}" not in CLAIMED]
m = {
 "version": 1,
 "setup_cmd": "./setup.sh",
 "hooks": {"guard": "POLAR_VERIF", "enable": "no source hooks: monitors are attached from the harness process by wrapping Polar's functions/classes after import (POLAR_VERIF=1 is set in the worker processes); checks import Polar from /repo's working tree",
           "baseline_off_cmd": "cd /repo && /venv/bin/python -m pytest -ra -q -p no:cacheprovider --timeout=900 --continue-on-collection-errors",
           "source_commits": [], "add_only": True},
 "engines": [{"name": "polarmon", "path": "polarmon/", "serves_properties": CLAIMED,
              "kind_free_text": "runtime-monitoring harness: seeded workload generators, persistent worker subprocesses with watchdog, online oracles (independent reference interpreter, textbook laws, exact linear algebra)"}],
 "checks": checks,
 "not_applicable": na,
 "notes": "All claims are exploration-level (runtime monitoring). Known genuine defects are listed in known_findings.json; fixed ones are recorded there as fixed.",
}
json.dump(m, open(os.path.join(ROOT, "MANIFEST.json"), "w"), indent=1)
print("claimed", CLAIMED, "na", len(na))
