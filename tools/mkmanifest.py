#!/usr/bin/env python3
"""regenerate MANIFEST.json from the table below; a property is claimed iff its check module exists and is listed in CLAIMED"""
import json, os
ROOT = os.path.dirname(os.path.dirname(os.path.abspath(__file__)))
T = {
 "C01": ("reference-semantics monitor on RecurrenceSolver.get and the printed CLI lines", "4/C01",
         "held on the observed executions: closed forms returned by the real pipeline (API path and printed CLI lines incl. --at_n) equal the exact expectations computed by an independent interpreter of the source program at n=0..N for sampled programs, goals and parameter values; sampling, not proof",
         "oracle = polarmon/ref/engine.py (exact rational forward propagation, atom polynomials for continuous draws) + ref/laws.py; sympy evaluates Polar's expressions"),
 "C02": ("pass-exit monitor (every depth-0 Transformer.execute) + IR interpreter, exact joint law and scramble invariance", "4/C02",
         "held on the observed executions: after every normalization pass the stage program, executed by the oracle's IR interpreter, induces the same joint law over the source variables as the source AST at boundaries 0..N, also when all auxiliaries are overwritten at every boundary",
         "documented meaning of the IR ('x = rhs | cond : default'); continuous programs compared through mixed moments up to degree 3"),
 "C03": ("monitor on RecBuilder.get_recurrences: structure, state-wise one-step identity, expectation identity", "4/C03",
         "held on the observed executions: every equation of every generated system is closed, has constant coefficients, matches the matrix form and is an exact one-step identity on all reachable boundary states (discrete) / in expectation for n<N, initial values equal E_0",
         "law of the normalized program (validated against the source by C02) as reference"),
 "C04": ("monitor on Solver.get / is_exact for directly built Recurrences; exact matrix iteration oracle", "4/C04",
         "held on the observed executions: closed forms of both solvers equal A^n v on s+t+d+2 consecutive n (decides all n for the instance: both sides are C-finite), exactness flag and rounding bound checked under the numeric-root options",
         "exact Fraction matrix iteration; C-finite argument for the n range; generous deviation bound for rounded results"),
 "C05": ("monitor on program.typedefs at TypeInferer exit and end of normalization; reachable-value exploration", "4/C05",
         "held on the observed executions: every value assigned to or held at a boundary by a variable with an inferred finite type within N iterations (incl. after the guard is false) belongs to the type",
         "IR meaning as C02; auxiliaries start undefined (symbolic generator), values derived from a never-assigned auxiliary are not counted"),
 "C06": ("postcondition monitor on InvariantIdeal.compute_basis (direct tuples and real CLI --invariants)", "4/C06",
         "held on the observed executions: every reported basis polynomial vanishes exactly on the goal sequences at 12 consecutive n past the special cases (closed forms and, end-to-end, the oracle's own moment values)",
         "exact sympy arithmetic / minimal polynomials for algebraic bases"),
 "C07": ("completeness monitor on InvariantIdeal.compute_basis: exact nullspace of monomial evaluations, symbolic confirmation, ideal membership", "4/C07",
         "held on the observed executions up to degree D: every confirmed polynomial relation of degree <= D among the goal sequences reduces to 0 modulo the reported basis",
         "degree bound D (3 quick / 4 thorough); sympy groebner/reduced used for membership only"),
 "C08": ("postcondition monitors on the real distribution classes and on DistTransformer output", "4/C08",
         "held on the observed executions: get_moment(k), support, discreteness, cf, mgf, mgf_exists_at agree with textbook formulas / quadrature for swept parameter vectors; location/scale rewriting preserves the first 6 conditional moments",
         "ref/laws.py textbook formulas cross-checked by mpmath quadrature"),
 "C09": ("monitor on get_moment_given_termination and GoalsAction --after_loop results", "4/C09",
         "held on the observed executions: the conditional sequence equals E[M 1{stopped by n}]/P(stopped by n) exactly at every n<=N with positive stopping probability; reported limits equal the numerically converged exact sequence",
         "'stopped by n' = source guard false in the state after n iterations; limits compared only after convergence of the exact sequence"),
 "C10": ("monitor on the printed -sens / -sens_diff lines; exact polynomial interpolation in the parameter", "4/C10",
         "held on the observed executions: both sensitivity methods equal the exact derivative of E_n[M] (recovered by exact interpolation of the reference moments in p) at n<=N and two parameter values",
         "parameter enters polynomially (generator), degree confirmed by an extra point"),
 "C11": ("monitors on raw_moments_to_centrals/_cumulants/comb, goal handlers and printed tail bounds, Gram-Charlier / Cornish-Fisher objects", "4/C11",
         "held on the observed executions: central moments and cumulants equal those of the exact law (definition / partition formula), tail bounds are valid where the stated assumption holds, expansions satisfy their defining properties",
         "exact law from the reference engine; Gaussian moment integration; Abramowitz-Stegun polynomials"),
 "C12": ("scripted-randomness monitor on Simulator.simulate (random.choices/choice, scipy rvs replaced by a recording tape), lock-step replay", "4/C12",
         "held on the observed executions: for every enumerated resolution of the random choices the simulator's random calls carry the laws the semantics demands and its states equal the reference interpreter's after every iteration; real samplers stay in their declared support",
         "scipy parametrisation translation table; float tolerance 1e-9; no statistical tests"),
 "C13": ("postcondition monitors on FunctionalAssignment.get_func_moment/get_const_moment + program-level comparison", "4/C13",
         "held on the observed executions: values used for E[X^a sin^b cos^c], E[X^a e^{cX}] and Sin/Cos/Exp of constants equal 50-75 digit quadrature within the documented rounding; non-existent exponential moments and Sin-Exp mixtures are rejected",
         "mpmath quadrature on the oracle's own densities"),
 "C14": ("monitors on UnsolvInvSynthesizer.synth_inv and SolvLoopSynthesizer.synth_loop", "4/C14",
         "held on the observed executions: E[Q(state_n)] on the exact law of the original loop equals f(n); synthesized loops reproduce E[v] and E[Q] at n<=N",
         "free solution parameters instantiated randomly; first moments only for synthesized loops"),
 "C15": ("monitors on BifParser.parse_file, CodeGenerator.generate_code, query results of the real CLI", "4/C15",
         "held on the observed executions: all notations of a table parse to the generator's CPTs, malformed rows are rejected, the generated loop's one-iteration law equals the network joint, query answers equal enumeration exactly",
         "exact enumeration of the joint distribution; own parser + engine for the generated program"),
 "C16": ("postcondition monitor on ExponentLattice.compute_basis", "4/C16",
         "held on the observed executions: returned vectors are relations, independent, and generate the full lattice (own integer kernel for rationals, unique-factorisation atoms / box enumeration for algebraic numbers)",
         "own integer/field arithmetic in gen/algnums.py"),
 "C17": ("differential monitor over settings combinations with the exact oracle as arbiter", "4/C17",
         "held on the observed executions: every successful analysis under cond2arithm / transform_categoricals / forced cyclic solver / explicit types equals the oracle (hence each other); numeric-root results are flagged rounded and deviate within the precision",
         "settings written exactly as cli/argument_parser._set_settings does"),
 "C18": ("exception-event monitor on normalize/RecBuilder/Solver for oracle-certified documented-class programs", "4/C18",
         "held on the observed executions except for known findings: programs whose documented-class membership is established by the oracle are accepted and every effective goal yields a closed form equal to the oracle",
         "class membership decided by the reference engine (finite reachable value sets of condition variables)"),
 "C19": ("monitor on Parser.parse_string over spellings of one AST, hostile identifiers, ill-forming edits", "4/C19",
         "held on the observed executions: all spellings of an AST give closed forms agreeing with the oracle and each other; every targeted ill-formed edit and invalid constant probability vector is rejected",
         "own parser with Python precedence (self-tested against eval); edits judged against syntax.lark by construction"),
 "C20": ("history monitor: same analysis in fresh interpreters after different histories / goal orders / PYTHONHASHSEED", "4/C20",
         "held on the observed executions: semantic summaries (values at n<=N, types, invariants, refusal type) equal those of a fresh single-analysis interpreter",
         "fresh interpreter with empty history as reference; equality up to auxiliary names"),
}
CLAIMED = [l.strip() for l in open(os.path.join(ROOT, "tools", "claimed.txt")) if l.strip()]
NA_REASON = {}
checks = []
for pid in CLAIMED:
    tech, dref, text, note = T[pid]
    checks.append({
        "property_id": pid, "quick_cmd": f"./check {pid} quick", "thorough_cmd": f"./check {pid} thorough",
        "evidence_file": f"evidence/{pid}.json", "replay_cmd_template": f"./check {pid} --replay {{path}}",
        "engine": "polarmon", "level_claimed": {"category": "exploration", "text": text, "design_ref": f"DESIGN.md section {dref}"},
        "level_note": note, "technique": "runtime monitoring: " + tech,
    })
na = [{"property_id": f"C{i:02d}", "reason": NA_REASON.get(f"C{i:02d}", "check not built yet in this round (runtime monitor planned, see DESIGN.md section 4); not claimed until it runs clean")}
      for i in range(1, 21) if f"C{i:02d}" not in CLAIMED]
m = {
 "version": 1,
 "setup_cmd": "./setup.sh",
 "hooks": {"guard": "POLAR_VERIF", "enable": "no source hooks: monitors are attached from the harness process by wrapping Polar's functions/classes after import (POLAR_VERIF=1 is set in the worker processes); checks import Polar from /repo's working tree",
           "baseline_off_cmd": "cd /repo && /venv/bin/python -m pytest -ra -q -p no:cacheprovider --timeout=900 --continue-on-collection-errors",
           "source_commits": [], "add_only": True},
 "engines": [{"name": "polarmon", "path": "polarmon/", "serves_properties": CLAIMED,
              "kind_free_text": "runtime-monitoring harness: seeded workload generators, persistent worker subprocesses with watchdog, online oracles (independent reference interpreter, textbook laws, exact linear algebra)"}],
 "checks": checks,
 "not_applicable": na,
 "notes": "All claims are exploration-level (runtime monitoring). Known genuine defects are listed in known_findings.json; fixed ones are recorded there as fixed.",
}
json.dump(m, open(os.path.join(ROOT, "MANIFEST.json"), "w"), indent=1)
print("claimed", CLAIMED, "na", len(na))
