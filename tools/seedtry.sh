#!/bin/bash
# development helper: apply seeded/<name>/patch.diff to a scratch worktree (not /repo) and run checks there via POLAR_REPO
# usage: tools/seedtry.sh <name> <check> [<check>...]
cd "$(dirname "$0")/.."
name=$1; shift
WT=/tmp/wt_mut_$$
git -C /repo worktree add -q --detach $WT HEAD || exit 2
git -C $WT apply $PWD/seeded/$name/patch.diff || { git -C /repo worktree remove --force $WT; exit 2; }
for c in "$@"; do
  out=$(POLAR_REPO=$WT timeout 3000 ./check $c quick 2>&1)
  echo "TRY $name $c: $(echo "$out" | grep "^$c " | cut -c1-200) | $(echo "$out" | grep -c 'VIOLATION property') violations | $(echo "$out" | grep '^  kind' | cut -c1-120 | sort -u | head -3 | tr '\n' ';')"
done
git -C /repo worktree remove --force $WT
git checkout -- evidence 2>/dev/null
