#!/bin/bash
# offline setup: runtime-contract libraries beside the repository's interpreter (no network)
cd "$(dirname "$0")"
mkdir -p .deps
PIP_NO_INDEX=1 /venv/bin/pip install --quiet --no-index --find-links /opt/veriftools/wheels --target .deps icontract deal jsonschema 2>&1 | tail -2
exit 0
