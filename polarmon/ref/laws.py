"""Textbook laws written for the oracle (independent of Polar's distribution classes).

A law is a tuple (family, p1, p2, ...) with Fraction parameters in the *language's* parametrisation:
  Normal(mu, sigma^2)  Uniform(a,b)  DistExp(rate)  Gamma(shape, scale)  Laplace(mu, b)
  Beta(a, b, scale)    TruncNormal(mu, sigma^2, lo, hi)
  Bernoulli(p)  Categorical(p0..pk)  DiscreteUniform(a,b)   Const(c)
raw_moment(law, k) is exact (Fraction) except for TruncNormal (mpf).
mixed_moment(law, a, b, c, d) = E[X^a sin^b X cos^c X e^{dX}] by quadrature / finite sums (mpf).
"""
from fractions import Fraction
from math import comb, factorial

import mpmath as mp

mp.mp.dps = 50


class LawError(Exception):
    """inadmissible parameters"""


class Divergent(Exception):
    """the requested expectation does not exist"""


def F(x, y=None):
    if y is not None:
        return Fraction(x, y)
    return x if isinstance(x, Fraction) else Fraction(x)


def check_params(law):
    fam, ps = law[0], law[1:]
    if fam == "Normal":
        if len(ps) != 2 or ps[1] <= 0:
            raise LawError("Normal needs variance > 0")
    elif fam == "Uniform":
        if len(ps) != 2 or not ps[0] < ps[1]:
            raise LawError("Uniform needs a < b")
    elif fam == "DistExp":
        if len(ps) != 1 or ps[0] <= 0:
            raise LawError("DistExp needs rate > 0")
    elif fam == "Gamma":
        if len(ps) != 2 or ps[0] <= 0 or ps[1] <= 0:
            raise LawError("Gamma needs shape, scale > 0")
    elif fam == "Laplace":
        if len(ps) != 2 or ps[1] <= 0:
            raise LawError("Laplace needs b > 0")
    elif fam == "Beta":
        if len(ps) != 3 or ps[0] <= 0 or ps[1] <= 0 or ps[2] <= 0:
            raise LawError("Beta needs a, b, scale > 0")
    elif fam == "TruncNormal":
        if len(ps) != 4 or ps[1] <= 0 or not ps[2] < ps[3]:
            raise LawError("TruncNormal needs variance > 0, lo < hi")
    elif fam == "Bernoulli":
        if len(ps) != 1 or not 0 <= ps[0] <= 1:
            raise LawError("Bernoulli needs 0 <= p <= 1")
    elif fam == "Categorical":
        if not ps or any(p < 0 for p in ps) or sum(ps) != 1:
            raise LawError("Categorical needs probabilities summing to 1")
    elif fam == "DiscreteUniform":
        if len(ps) != 2 or ps[0].denominator != 1 or ps[1].denominator != 1 or ps[0] > ps[1]:
            raise LawError("DiscreteUniform needs integers a <= b")
    elif fam == "Const":
        pass
    else:
        raise LawError(f"unknown family {fam}")


def is_discrete(law):
    return law[0] in ("Bernoulli", "Categorical", "DiscreteUniform", "Const")


def pmf(law):
    """list of (value Fraction, prob Fraction) for discrete laws"""
    fam, ps = law[0], law[1:]
    if fam == "Bernoulli":
        return [(Fraction(0), 1 - ps[0]), (Fraction(1), ps[0])]
    if fam == "Categorical":
        return [(Fraction(i), p) for i, p in enumerate(ps)]
    if fam == "DiscreteUniform":
        a, b = int(ps[0]), int(ps[1])
        n = b - a + 1
        return [(Fraction(v), Fraction(1, n)) for v in range(a, b + 1)]
    if fam == "Const":
        return [(ps[0], Fraction(1))]
    raise LawError("not discrete")


def support(law):
    """(lo, hi) with None for infinite; for discrete laws the list of values"""
    fam, ps = law[0], law[1:]
    if is_discrete(law):
        return [v for v, p in pmf(law)]
    if fam in ("Normal", "Laplace"):
        return (None, None)
    if fam == "Uniform":
        return (ps[0], ps[1])
    if fam in ("DistExp", "Gamma"):
        return (Fraction(0), None)
    if fam == "Beta":
        return (Fraction(0), ps[2])
    if fam == "TruncNormal":
        return (ps[2], ps[3])
    raise LawError(fam)


def _double_fact_odd(k):
    # (k-1)!! for even k
    r = 1
    for j in range(k - 1, 0, -2):
        r *= j
    return r


def _rising(x, k):
    r = Fraction(1)
    for j in range(k):
        r *= x + j
    return r


def raw_moment(law, k):
    fam, ps = law[0], law[1:]
    k = int(k)
    if k == 0:
        return Fraction(1)
    if is_discrete(law):
        return sum((p * v ** k for v, p in pmf(law)), Fraction(0))
    if fam == "Normal":
        mu, s2 = ps
        tot = Fraction(0)
        for j in range(0, k + 1, 2):  # E[Z^j] = (j-1)!!, sigma^j = s2^(j/2)
            tot += comb(k, j) * mu ** (k - j) * s2 ** (j // 2) * _double_fact_odd(j)
        return tot
    if fam == "Uniform":
        a, b = ps
        return (b ** (k + 1) - a ** (k + 1)) / ((k + 1) * (b - a))
    if fam == "DistExp":
        return Fraction(factorial(k)) / ps[0] ** k
    if fam == "Gamma":
        sh, sc = ps
        return _rising(sh, k) * sc ** k
    if fam == "Laplace":
        mu, b = ps
        tot = Fraction(0)
        for j in range(0, k + 1, 2):  # E[L^j] = j! b^j for even j, L ~ Laplace(0,b)
            tot += comb(k, j) * mu ** (k - j) * factorial(j) * b ** j
        return tot
    if fam == "Beta":
        a, b, sc = ps
        return sc ** k * _rising(a, k) / _rising(a + b, k)
    if fam == "TruncNormal":
        return mixed_moment(law, k, 0, 0, 0)
    raise LawError(fam)


def pdf(law):
    """density as an mpmath function (continuous laws)"""
    fam, ps = law[0], [mp.mpf(p.numerator) / mp.mpf(p.denominator) for p in law[1:]]
    if fam == "Normal":
        mu, s2 = ps
        return lambda x: mp.exp(-(x - mu) ** 2 / (2 * s2)) / mp.sqrt(2 * mp.pi * s2)
    if fam == "Uniform":
        a, b = ps
        return lambda x: 1 / (b - a)
    if fam == "DistExp":
        lam = ps[0]
        return lambda x: lam * mp.exp(-lam * x)
    if fam == "Gamma":
        sh, sc = ps
        c = 1 / (mp.gamma(sh) * sc ** sh)
        return lambda x: c * x ** (sh - 1) * mp.exp(-x / sc) if x > 0 else mp.mpf(0)
    if fam == "Laplace":
        mu, b = ps
        return lambda x: mp.exp(-abs(x - mu) / b) / (2 * b)
    if fam == "Beta":
        a, b, sc = ps
        c = 1 / (mp.beta(a, b) * sc)
        return lambda x: c * (x / sc) ** (a - 1) * (1 - x / sc) ** (b - 1) if 0 < x < sc else mp.mpf(0)
    if fam == "TruncNormal":
        mu, s2, lo, hi = ps
        s = mp.sqrt(s2)
        z = mp.ncdf((hi - mu) / s) - mp.ncdf((lo - mu) / s)
        return lambda x: mp.exp(-(x - mu) ** 2 / (2 * s2)) / (mp.sqrt(2 * mp.pi * s2) * z)
    raise LawError(fam)


def mgf_exists(law, d):
    """analytic domain of E[e^{dX}]"""
    fam, ps = law[0], law[1:]
    d = F(d)
    if fam == "DistExp":
        return d < ps[0]
    if fam == "Gamma":
        return d < 1 / ps[1]
    if fam == "Laplace":
        return abs(d) < 1 / ps[1]
    return True


def _quad_points(law):
    fam, ps = law[0], [mp.mpf(p.numerator) / mp.mpf(p.denominator) for p in law[1:]]
    if fam == "Normal":
        mu, s = ps[0], mp.sqrt(ps[1])
        return [-mp.inf] + [mu + j * s for j in (-12, -6, -3, -1, 0, 1, 3, 6, 12)] + [mp.inf]
    if fam == "Laplace":
        mu, b = ps
        return [-mp.inf] + [mu + j * b for j in (-40, -15, -5, -2, 0, 2, 5, 15, 40)] + [mp.inf]
    if fam == "Uniform":
        a, b = ps
        return [a + (b - a) * mp.mpf(j) / 8 for j in range(9)]
    if fam == "DistExp":
        m = 1 / ps[0]
        return [0] + [m * j for j in (0.5, 1, 2, 5, 10, 25, 60)] + [mp.inf]
    if fam == "Gamma":
        m = ps[0] * ps[1]
        sc = ps[1]
        return [0] + sorted({m * mp.mpf(j) for j in (0.01, 0.1, 0.5, 1, 2, 4)} | {m + sc * j for j in (10, 30, 80)}) + [mp.inf]
    if fam == "Beta":
        sc = ps[2]
        return [sc * mp.mpf(j) / 8 for j in range(9)]
    if fam == "TruncNormal":
        lo, hi = ps[2], ps[3]
        return [lo + (hi - lo) * mp.mpf(j) / 8 for j in range(9)]
    raise LawError(fam)


_mm_cache = {}


def mixed_moment(law, a, b, c, d):
    """E[X^a sin^b(X) cos^c(X) exp(dX)] as mpf (50 digits working precision)."""
    key = (law, a, b, c, d)
    if key in _mm_cache:
        return _mm_cache[key]
    if is_discrete(law):
        tot = mp.mpf(0)
        for v, p in pmf(law):
            x = mp.mpf(v.numerator) / mp.mpf(v.denominator)
            tot += (mp.mpf(p.numerator) / p.denominator) * x ** a * mp.sin(x) ** b * mp.cos(x) ** c * mp.exp(d * x)
        _mm_cache[key] = tot
        return tot
    if not mgf_exists(law, d):
        raise Divergent(f"E[exp({d} X)] does not exist for {law}")
    f = pdf(law)

    def g(x):
        return x ** a * mp.sin(x) ** b * mp.cos(x) ** c * mp.exp(d * x) * f(x)

    pts = _quad_points(law)
    if b + c > 0:
        # oscillatory factor: refine the finite part of the range
        fin = [p for p in pts if mp.isfinite(p)]
        lo, hi = fin[0], fin[-1]
        step = mp.pi / 2
        n = int((hi - lo) / step) + 1
        if n <= 400:
            mid = [lo + j * step for j in range(1, n)]
            pts = sorted(set(pts[:1] + fin + mid + pts[-1:]), key=lambda t: (t != -mp.inf, t if mp.isfinite(t) else (mp.inf if t > 0 else -mp.inf)))
    val = mp.quad(g, pts)
    _mm_cache[key] = val
    return val


def cf_value(law, t):
    """E[e^{itX}] as mpc"""
    re = mixed_moment_general(law, lambda x: mp.cos(t * x))
    im = mixed_moment_general(law, lambda x: mp.sin(t * x))
    return mp.mpc(re, im)


def mixed_moment_general(law, h):
    """E[h(X)] for an mpmath-callable h (bounded or polynomially growing)"""
    if is_discrete(law):
        tot = mp.mpf(0)
        for v, p in pmf(law):
            x = mp.mpf(v.numerator) / mp.mpf(v.denominator)
            tot += (mp.mpf(p.numerator) / p.denominator) * h(x)
        return tot
    f = pdf(law)
    return mp.quad(lambda x: h(x) * f(x), _quad_points(law))


def selftest():
    """cross-check the closed-form raw moments against quadrature; returns list of discrepancies"""
    probs = []
    laws = [
        ("Normal", F(1) / 2, F(3) / 4), ("Normal", F(-2), F(1, 100)), ("Uniform", F(-1), F(3)), ("DistExp", F(3) / 2),
        ("Gamma", F(5) / 2, F(2) / 3), ("Gamma", F(1, 2), F(2)), ("Laplace", F(1), F(2) / 3), ("Beta", F(2), F(3) / 2, F(4)),
        ("Beta", F(1, 2), F(1, 2), F(1)),
    ]
    for law in laws:
        for k in range(0, 7):
            ex = raw_moment(law, k)
            nu = mixed_moment(law, k, 0, 0, 0)
            exf = mp.mpf(ex.numerator) / ex.denominator
            if abs(exf - nu) > mp.mpf(10) ** -20 * max(1, abs(exf)):
                probs.append((law, k, str(ex), mp.nstr(nu, 30)))
    return probs
