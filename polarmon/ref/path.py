"""Single-path reference interpreter: executes the source AST with every random point resolved by a callback.

chooser(kind, spec) -> value
   kind 'discrete': spec = list of (value Fraction, probability Fraction)   -> returns the index chosen
   kind 'continuous': spec = law tuple (family, params...)                    -> returns the drawn value (Fraction)
"""
import math
from fractions import Fraction

from .engine import eval_expr, eval_cond, Unsupported, DomainError, AP
from . import laws
from ..lang.ast import program_variables, all_names


class PathInterp:
    def __init__(self, prog, params, chooser):
        self.prog = prog
        self.params = dict(params or {})
        self.chooser = chooser
        self.state = {}
        self.func_values = {}  # variables holding transcendental values (Sin/Cos/Exp) as floats

    def env(self):
        e = dict(self.params)
        e.update(self.state)
        return e

    def run_init(self):
        self.exec_block(self.prog.init)
        return dict(self.state)

    def step(self):
        if eval_cond(self.prog.guard, self.env()):
            self.exec_block(self.prog.body)
        return dict(self.state)

    def exec_block(self, stmts):
        for s in stmts:
            self.exec_stmt(s)

    def exec_stmt(self, s):
        k = s[0]
        if k == "assign":
            self.state[s[1]] = self.eval_rhs(s[2], self.env())
        elif k == "simult":
            env = self.env()
            vals = [self.eval_rhs(r, env) for r in s[2]]
            for v, x in zip(s[1], vals):
                self.state[v] = x
        elif k == "if":
            env = self.env()
            for c, br in s[1]:
                if eval_cond(c, env):
                    self.exec_block(br)
                    return
            if s[2] is not None:
                self.exec_block(s[2])
        else:
            raise Unsupported(f"bad statement {s!r}")

    def eval_rhs(self, r, env):
        k = r[0]
        if k == "poly":
            return eval_expr(r[1], env)
        if k == "choice":
            alts = []
            for e, pe in r[1]:
                p = eval_expr(pe, env)
                alts.append((eval_expr(e, env), p))
            i = self.chooser("discrete", ("choice", alts))
            return alts[i][0]
        if k == "draw":
            fam = r[1]
            ps = [eval_expr(p, env) for p in r[2]]
            if fam == "Beta" and len(ps) == 2:
                ps = ps + [Fraction(1)]
            law = (fam,) + tuple(ps)
            try:
                laws.check_params(law)
            except laws.LawError as e:
                raise DomainError(str(e))
            if laws.is_discrete(law):
                pm = laws.pmf(law)
                i = self.chooser("discrete", (fam, pm))
                return pm[i][0]
            return self.chooser("continuous", law)
        if k == "func":
            raise Unsupported("functional assignment in lock-step mode")
        raise Unsupported(f"bad rhs {r!r}")
