"""Reference semantics of the loop language: exact forward propagation of the joint law.

State values are Fractions or AP (polynomials over *atoms* = continuous draws, with generator kinds
id/sin/cos/exp).  Discrete randomness (Bernoulli, Categorical, DiscreteUniform, probabilistic choice) is
enumerated exactly with merging of equal states; every continuous draw executed at (iteration, site)
is an independent atom whose law is known; expectations replace atom powers by moments of the law
(ref/laws.py).  Nothing here imports Polar.

Statements (source AST, and Polar IR converted by ref/ir.py) :
  ('assign', var, rhs[, cond, default])   rhs | cond : default
  ('simult', [vars], [rhs])
  ('if', [(cond, stmts)...], else_or_None)
"""
from fractions import Fraction

import mpmath as mp

from . import laws


class Unsupported(Exception):
    """the oracle cannot execute this construct (case becomes inconclusive)"""


class CapExceeded(Exception):
    pass


class DomainError(Exception):
    """the program is ill-defined under the semantics at a reachable state (e.g. probability outside [0,1])"""


# ------------------------------------------------------------------ atom polynomials
class AP:
    __slots__ = ("t", "_h")

    def __init__(self, t):
        self.t = t  # dict: mono(tuple of ((atom, kind), power) sorted) -> Fraction
        self._h = None

    @staticmethod
    def gen(atom, kind="id"):
        return AP({(((atom, kind), 1),): Fraction(1)})

    def __hash__(self):
        if self._h is None:
            self._h = hash(frozenset(self.t.items()))
        return self._h

    def __eq__(self, o):
        if isinstance(o, AP):
            return self.t == o.t
        return False

    def __repr__(self):
        return "AP(" + " + ".join(f"{c}*{m}" for m, c in self.t.items()) + ")"

    def is_pure_atom(self):
        if len(self.t) != 1:
            return None
        (m, c), = self.t.items()
        if c == 1 and len(m) == 1 and m[0][1] == 1 and m[0][0][1] == "id":
            return m[0][0][0]
        return None


def _norm(t):
    t = {m: c for m, c in t.items() if c != 0}
    if not t:
        return Fraction(0)
    if len(t) == 1 and () in t:
        return t[()]
    return AP(t)


def _terms(v):
    if isinstance(v, AP):
        return v.t
    return {(): v} if v != 0 else {}


def v_add(a, b):
    if not isinstance(a, AP) and not isinstance(b, AP):
        return a + b
    t = dict(_terms(a))
    for m, c in _terms(b).items():
        t[m] = t.get(m, 0) + c
    return _norm(t)


def v_neg(a):
    if not isinstance(a, AP):
        return -a
    return AP({m: -c for m, c in a.t.items()})


def v_sub(a, b):
    return v_add(a, v_neg(b))


_gen_key_cache = {}


def _gen_key(item):
    g = item[0]
    k = _gen_key_cache.get(g)
    if k is None:
        k = _gen_key_cache[g] = repr(g)
    return k


def _subst_atom(v, old, new):
    """replace atom `old` by `new` in a value (the atom keeps its role, only its law changes)"""
    if not isinstance(v, AP):
        return v
    if not any(g[0][0] == old for m in v.t for g in m):
        return v
    t = {}
    for m, c in v.t.items():
        nm = tuple(sorted((((new, g[0][1]) if g[0][0] == old else g[0], g[1]) for g in m), key=_gen_key))
        t[nm] = t.get(nm, 0) + c
    return _norm(t)


def _mono_mul(m1, m2):
    if not m1:
        return m2
    if not m2:
        return m1
    d = dict(m1)
    for g, p in m2:
        d[g] = d.get(g, 0) + p
    # atom ids are heterogeneous tuples (('const', c) vs (iteration, site, ...)): order by their printed form
    return tuple(sorted(d.items(), key=_gen_key))


MAX_TERMS = 4000


def v_mul(a, b):
    if not isinstance(a, AP) and not isinstance(b, AP):
        return a * b
    ta, tb = _terms(a), _terms(b)
    if len(ta) * len(tb) > 4 * MAX_TERMS:
        raise CapExceeded("polynomial too large")
    t = {}
    for m1, c1 in ta.items():
        for m2, c2 in tb.items():
            m = _mono_mul(m1, m2)
            t[m] = t.get(m, 0) + c1 * c2
    r = _norm(t)
    if isinstance(r, AP) and len(r.t) > MAX_TERMS:
        raise CapExceeded("polynomial too large")
    return r


def v_pow(a, k):
    if not isinstance(k, Fraction) or k.denominator != 1:
        raise Unsupported("non-integer exponent")
    k = int(k)
    if not isinstance(a, AP):
        if k < 0 and a == 0:
            raise DomainError("0 ** negative")
        return a ** k
    if k < 0:
        raise Unsupported("negative power of a continuous value")
    r = Fraction(1)
    base = a
    while k:
        if k & 1:
            r = v_mul(r, base)
        k >>= 1
        if k:
            base = v_mul(base, base)
    return r


def v_div(a, b):
    if isinstance(b, AP):
        raise Unsupported("division by a continuous value")
    if b == 0:
        raise DomainError("division by zero")
    if not isinstance(a, AP):
        return a / b
    return AP({m: c / b for m, c in a.t.items()})


# ------------------------------------------------------------------ expectations
def _to_mp(x):
    if isinstance(x, Fraction):
        return mp.mpf(x.numerator) / mp.mpf(x.denominator)
    return x


class Atoms:
    """registry atom id -> law"""

    def __init__(self):
        self.law = {}
        self._cache = {}

    def register(self, aid, law):
        old = self.law.get(aid)
        if old is None:
            laws.check_params(law)
            self.law[aid] = law
        return aid

    def gen_moment(self, aid, powers):
        """E[ X^a sin^b cos^c exp^d ] for atom; powers dict kind->int.  Fraction when exact."""
        a, b, c, d = powers.get("id", 0), powers.get("sin", 0), powers.get("cos", 0), powers.get("exp", 0)
        key = (aid, a, b, c, d)
        if key in self._cache:
            return self._cache[key]
        law = self.law[aid]
        if b == 0 and c == 0 and d == 0 and law[0] != "TruncNormal":
            r = laws.raw_moment(law, a)
        else:
            r = laws.mixed_moment(law, a, b, c, d)
        self._cache[key] = r
        return r

    def expect(self, v):
        """E[v] for a value (Fraction or AP); Fraction if exact else mpf"""
        if not isinstance(v, AP):
            return v
        tot_f = Fraction(0)
        tot_m = None
        for m, c in v.t.items():
            by_atom = {}
            for (aid, kind), p in m:
                by_atom.setdefault(aid, {})[kind] = p
            term = c
            for aid, pw in by_atom.items():
                g = self.gen_moment(aid, pw)
                if isinstance(g, Fraction) and isinstance(term, Fraction):
                    term = term * g
                else:
                    term = _to_mp(term) * _to_mp(g)
            if isinstance(term, Fraction):
                tot_f += term
            else:
                tot_m = term if tot_m is None else tot_m + term
        if tot_m is None:
            return tot_f
        return tot_m + _to_mp(tot_f)


# ------------------------------------------------------------------ evaluation
def eval_expr(e, env):
    k = e[0]
    if k == "num":
        return e[1]
    if k == "var":
        try:
            return env[e[1]]
        except KeyError:
            raise Unsupported(f"unbound name {e[1]}")
    if k == "neg":
        return v_neg(eval_expr(e[1], env))
    if k == "bin":
        op = e[1]
        a = eval_expr(e[2], env)
        b = eval_expr(e[3], env)
        if op == "+":
            return v_add(a, b)
        if op == "-":
            return v_sub(a, b)
        if op == "*":
            return v_mul(a, b)
        if op == "/":
            return v_div(a, b)
        if op == "**":
            if isinstance(b, AP):
                raise Unsupported("continuous exponent")
            return v_pow(a, b)
    raise Unsupported(f"bad expr {e!r}")


class NeedSplit(Exception):
    """a comparison of a Uniform atom with a rational threshold strictly inside its support: the engine splits the state"""

    def __init__(self, atom, threshold):
        super().__init__(f"split {atom} at {threshold}")
        self.atom = atom
        self.threshold = threshold


_CURRENT_ATOMS = [None]


def _uniform_bounds(v):
    """(atom id, lo, hi) if v is a pure atom whose law is Uniform(lo, hi), else None"""
    reg = _CURRENT_ATOMS[0]
    if reg is None or not isinstance(v, AP):
        return None
    aid = v.is_pure_atom()
    if aid is None:
        return None
    law = reg.law.get(aid)
    if law is None or law[0] != "Uniform":
        return None
    return aid, law[1], law[2]


def _affine_uniform(v):
    """(atom id, scale, offset) if v = scale*atom + offset for a single Uniform atom (scale != 0), else None"""
    reg = _CURRENT_ATOMS[0]
    if reg is None or not isinstance(v, AP) or len(v.t) > 2:
        return None
    aid = s = None
    off = Fraction(0)
    for m, c in v.t.items():
        if m == ():
            off = c
        elif len(m) == 1 and m[0][1] == 1 and m[0][0][1] == "id" and aid is None:
            aid, s = m[0][0][0], c
        else:
            return None
    if aid is None:
        return None
    law = reg.law.get(aid)
    if law is None or law[0] != "Uniform":
        return None
    return aid, s, off


def compare(a, cop, b):
    if isinstance(a, AP) or isinstance(b, AP):
        # scale*atom + offset  cop  0   <=>   atom  cop'  -offset/scale
        pure = isinstance(a, AP) and a.is_pure_atom() is not None and not isinstance(b, AP)
        au = None if pure else _affine_uniform(v_sub(a, b))
        if au is not None:
            aid, sc, off = au
            flip = {"<": ">", "<=": ">=", ">": "<", ">=": "<=", "==": "==", "/=": "/="}
            return compare(AP.gen(aid), cop if sc > 0 else flip[cop], -off / sc)
    if isinstance(a, AP) and not isinstance(b, AP):
        ub = _uniform_bounds(a)
        if ub is not None:
            aid, lo, hi = ub
            if lo < b < hi:
                raise NeedSplit(aid, b)
            # decided almost surely (boundaries have measure zero)
            below = b <= lo   # the atom is above the threshold
            if cop in (">", ">="):
                return below
            if cop in ("<", "<="):
                return not below
            if cop == "==":
                return False
            if cop == "/=":
                return True
    if isinstance(b, AP) and not isinstance(a, AP):
        flip = {"<": ">", "<=": ">=", ">": "<", ">=": "<=", "==": "==", "/=": "/="}
        if _uniform_bounds(b) is not None:
            return compare(b, flip[cop], a)
    if isinstance(a, AP) or isinstance(b, AP):
        raise Unsupported("condition on a continuous value")
    if cop == "==":
        return a == b
    if cop == "<=":
        return a <= b
    if cop == ">=":
        return a >= b
    if cop == "<":
        return a < b
    if cop == ">":
        return a > b
    if cop == "/=":
        return a != b
    raise Unsupported(f"cop {cop}")


def _eval3(c, env):
    """Kleene three-valued evaluation: True / False / an Unsupported instance (value depends on something the
    oracle cannot compare, e.g. an undefined auxiliary); 'false and unknown' is false, 'true or unknown' is true"""
    k = c[0]
    if k == "true":
        return True
    if k == "false":
        return False
    if k == "atom":
        try:
            return compare(eval_expr(c[1], env), c[2], eval_expr(c[3], env))
        except Unsupported as e:
            return e
    if k == "not":
        r = _eval3(c[1], env)
        return r if isinstance(r, Unsupported) else (not r)
    if k == "and":
        a = _eval3(c[1], env)
        if a is False:
            return False
        b = _eval3(c[2], env)
        if b is False:
            return False
        if isinstance(a, Unsupported):
            return a
        return b
    if k == "or":
        a = _eval3(c[1], env)
        if a is True:
            return True
        b = _eval3(c[2], env)
        if b is True:
            return True
        if isinstance(a, Unsupported):
            return a
        return b
    return Unsupported(f"bad cond {c!r}")


def eval_cond(c, env):
    r = _eval3(c, env)
    if isinstance(r, Unsupported):
        raise r
    return r


class Engine:
    """Forward propagation.  dist: dict state(tuple aligned with self.vars) -> probability (Fraction)."""

    def __init__(self, prog, params=None, init_vals=None, max_states=20000, on_value=None, scramble=None,
                 extra_vars=()):
        self.prog = prog
        self.params = dict(params or {})
        self.on_value = on_value      # callback(var, value, phase, iteration) after every assignment
        self.max_states = max_states
        self.atoms = Atoms()
        from ..lang.ast import program_variables, all_names
        vs = program_variables(prog)
        for v in extra_vars:
            if v not in vs:
                vs.append(v)
        self.vars = vs
        self.index = {v: i for i, v in enumerate(vs)}
        names = all_names(prog)
        self.free = sorted(n for n in names if n not in self.index)
        for n in self.free:
            if n in ("pi", "e", "E", "I", "oo", "zoo", "nan", "inf"):
                # these names denote mathematical constants for Polar's CAS (documented use: Uniform(pi/4 - 0.1, ...)); the
                # oracle computes with rationals and cannot represent them - never treat them as free parameters
                raise Unsupported(f"CAS constant {n} in the program")
            if n not in self.params:
                raise Unsupported(f"no value for symbolic constant {n}")
        self.init_vals = dict(init_vals or {})
        self.iteration = 0
        self.site_counter = 0
        self._sites = {}
        self.scramble = scramble
        self.stats = {"states_max": 0, "draws": 0, "branches": 0}

    # -- helpers
    def _env(self, state):
        env = dict(self.params)
        for v, i in self.index.items():
            env[v] = state[i]
        return env

    def _site(self, stmt_id):
        return (self.iteration, stmt_id)

    def initial(self):
        st = tuple(self.init_vals.get(v, Fraction(0)) for v in self.vars)
        self.iteration = 0
        d = self.exec_block(self.prog.init, {st: Fraction(1)}, ("init",))
        return d

    def step(self, dist):
        self.iteration += 1
        if self.scramble is not None:
            dist = self.scramble(self, dist)
        run, keep = self.split_on(dist, self.prog.guard)
        out = self.exec_block(self.prog.body, run, ("body",)) if run else {}
        for st, p in keep.items():
            out[st] = out.get(st, 0) + p
        return out

    def run(self, n):
        dists = [self.initial()]
        for _ in range(n):
            dists.append(self.step(dists[-1]))
        return dists

    def guard_holds(self, state):
        return eval_cond(self.prog.guard, self._env(state))

    # -- conditions on Uniform atoms: split the state until the condition is decided
    def split_on(self, dist, cond, extra_env=None):
        """returns (true_part, false_part) of dist for cond; states are split at thresholds of Uniform atoms"""
        tpart, fpart = {}, {}
        work = list(dist.items())
        guard = 0
        while work:
            st, p = work.pop()
            guard += 1
            if guard > 20 * self.max_states:
                raise CapExceeded("too many condition splits")
            _CURRENT_ATOMS[0] = self.atoms
            try:
                ok = eval_cond(cond, self._env(st))
            except NeedSplit as ns:
                law = self.atoms.law[ns.atom]
                lo, hi, c = law[1], law[2], ns.threshold
                for (a, b) in ((lo, c), (c, hi)):
                    nid = self.atoms.register(("split", ns.atom, a, b), ("Uniform", a, b))
                    nst = tuple(_subst_atom(x, ns.atom, nid) for x in st)
                    work.append((nst, p * (b - a) / (hi - lo)))
                continue
            finally:
                _CURRENT_ATOMS[0] = None
            tgt = tpart if ok else fpart
            tgt[st] = tgt.get(st, 0) + p
        return tpart, fpart

    # -- execution
    def exec_block(self, stmts, dist, path):
        for i, s in enumerate(stmts):
            if not dist:
                return dist
            dist = self.exec_stmt(s, dist, path + (i,))
            if len(dist) > self.max_states:
                raise CapExceeded(f"more than {self.max_states} states")
            if len(dist) > self.stats["states_max"]:
                self.stats["states_max"] = len(dist)
        return dist

    def exec_stmt(self, s, dist, path):
        k = s[0]
        if k == "assign":
            cond = s[3] if len(s) > 3 else None
            default = s[4] if len(s) > 4 else s[1]
            out = {}
            if cond is None or cond[0] == "true":
                tagged = [(st, p, True) for st, p in dist.items()]
            else:
                tp, fp = self.split_on(dist, cond)
                tagged = [(st, p, True) for st, p in tp.items()] + [(st, p, False) for st, p in fp.items()]
            for st, p, ok in tagged:
                env = self._env(st)
                if ok:
                    for val, q in self.eval_rhs(s[2], env, path):
                        self._emit(s[1], val)
                        ns = self._set(st, s[1], val)
                        out[ns] = out.get(ns, 0) + p * q
                else:
                    val = env[default] if default in env else self._unbound(default)
                    self._emit(s[1], val)
                    ns = self._set(st, s[1], val)
                    out[ns] = out.get(ns, 0) + p
            return out
        if k == "simult":
            out = {}
            for st, p in dist.items():
                env = self._env(st)
                combos = [((), Fraction(1))]
                for j, r in enumerate(s[2]):
                    alts = self.eval_rhs(r, env, path + (j,))
                    combos = [(vals + (v,), q0 * q) for vals, q0 in combos for v, q in alts]
                for vals, q in combos:
                    ns = st
                    for v, val in zip(s[1], vals):
                        self._emit(v, val)
                        ns = self._set(ns, v, val)
                    out[ns] = out.get(ns, 0) + p * q
            return out
        if k == "if":
            parts = [dict() for _ in s[1]]
            rest = dict(dist)
            for j, (c, _) in enumerate(s[1]):
                if not rest:
                    break
                parts[j], rest = self.split_on(rest, c)
            out = {}
            for j, (_, br) in enumerate(s[1]):
                if parts[j]:
                    for st, p in self.exec_block(br, parts[j], path + (j,)).items():
                        out[st] = out.get(st, 0) + p
            if s[2] is not None and rest:
                rest = self.exec_block(s[2], rest, path + ("else",))
            for st, p in rest.items():
                out[st] = out.get(st, 0) + p
            return out
        raise Unsupported(f"bad statement {s!r}")

    def _unbound(self, name):
        raise Unsupported(f"unbound default {name}")

    def _emit(self, var, val):
        if self.on_value is not None:
            self.on_value(var, val, self.iteration)

    def _set(self, st, var, val):
        i = self.index[var]
        if st[i] is val:
            return st
        l = list(st)
        l[i] = val
        return tuple(l)

    def _frac(self, v, what):
        if isinstance(v, AP):
            raise Unsupported(f"{what} depends on a continuous value")
        return v

    def eval_rhs(self, r, env, path):
        """list of (value, probability)"""
        k = r[0]
        if k == "poly":
            return [(eval_expr(r[1], env), Fraction(1))]
        if k == "choice":
            out = []
            tot = Fraction(0)
            for e, pe in r[1]:
                p = self._frac(eval_expr(pe, env), "probability")
                if p < 0 or p > 1:
                    raise DomainError(f"probability {p} outside [0,1]")
                tot += p
                if p != 0:
                    out.append((eval_expr(e, env), p))
            if tot != 1:
                raise DomainError(f"probabilities sum to {tot}")
            self.stats["branches"] += 1
            return out
        if k == "draw":
            return self.eval_draw(r[1], [eval_expr(p, env) for p in r[2]], path)
        if k == "func":
            a = eval_expr(r[2], env)
            kind = {"Sin": "sin", "Cos": "cos", "Exp": "exp"}[r[1]]
            if isinstance(a, AP):
                aid = a.is_pure_atom()
                if aid is None:
                    raise Unsupported("function of a non-atomic continuous value")
            else:
                aid = self.atoms.register(("const", a), ("Const", a))
            return [(AP.gen(aid, kind), Fraction(1))]
        if k == "absdraw":
            # IR only: Bernoulli whose success probability is P(cond) evaluated by the oracle
            raise Unsupported("absdraw must be resolved by ir layer")
        raise Unsupported(f"bad rhs {r!r}")

    def eval_draw(self, fam, ps, path):
        self.stats["draws"] += 1
        site = self._site(path)
        try:
            if fam in ("Bernoulli", "Categorical", "DiscreteUniform"):
                ps = [self._frac(p, "parameter") for p in ps]
                law = (fam,) + tuple(ps)
                laws.check_params(law)
                return [(v, p) for v, p in laws.pmf(law) if p != 0]
            if fam == "Normal":
                if len(ps) != 2:
                    raise laws.LawError("Normal needs 2 parameters")
                mu, s2 = ps
                s2 = self._frac(s2, "variance")
                if isinstance(mu, AP):
                    aid = self.atoms.register(site + ("N0",), ("Normal", Fraction(0), s2))
                    return [(v_add(mu, AP.gen(aid)), Fraction(1))]
                aid = self.atoms.register(site + (mu, s2), ("Normal", mu, s2))
                return [(AP.gen(aid), Fraction(1))]
            if fam == "Uniform":
                if len(ps) != 2:
                    raise laws.LawError("Uniform needs 2 parameters")
                a, b = ps
                if isinstance(a, AP) or isinstance(b, AP):
                    aid = self.atoms.register(site + ("U01",), ("Uniform", Fraction(0), Fraction(1)))
                    return [(v_add(a, v_mul(v_sub(b, a), AP.gen(aid))), Fraction(1))]
                aid = self.atoms.register(site + (a, b), ("Uniform", a, b))
                return [(AP.gen(aid), Fraction(1))]
            if fam == "Laplace":
                if len(ps) != 2:
                    raise laws.LawError("Laplace needs 2 parameters")
                mu, b = ps
                b = self._frac(b, "scale")
                if isinstance(mu, AP):
                    aid = self.atoms.register(site + ("L0",), ("Laplace", Fraction(0), b))
                    return [(v_add(mu, AP.gen(aid)), Fraction(1))]
                aid = self.atoms.register(site + (mu, b), ("Laplace", mu, b))
                return [(AP.gen(aid), Fraction(1))]
            if fam == "Beta" and len(ps) == 2:
                ps = ps + [Fraction(1)]
            ps = [self._frac(p, "parameter") for p in ps]
            law = (fam,) + tuple(ps)
            aid = self.atoms.register(site + tuple(ps), law)
            return [(AP.gen(aid), Fraction(1))]
        except laws.LawError as e:
            raise DomainError(str(e))

    # -- summaries
    def moment(self, dist, monomial):
        """E[prod var^pow] ; monomial: dict var->int.  Fraction when exact else mpf."""
        tot_f = Fraction(0)
        tot_m = None
        for st, p in dist.items():
            val = Fraction(1)
            for v, k in monomial.items():
                val = v_mul(val, v_pow(st[self.index[v]], Fraction(k)))
            e = self.atoms.expect(val)
            if isinstance(e, Fraction):
                tot_f += p * e
            else:
                t = _to_mp(p) * e
                tot_m = t if tot_m is None else tot_m + t
        if tot_m is None:
            return tot_f
        return tot_m + _to_mp(tot_f)

    def prob(self, dist, pred):
        return sum((p for st, p in dist.items() if pred(st)), Fraction(0))

    def marginal(self, dist, names):
        idx = [self.index[n] for n in names]
        out = {}
        for st, p in dist.items():
            k = tuple(st[i] for i in idx)
            out[k] = out.get(k, 0) + p
        return out

    def is_discrete_dist(self, dist):
        return all(not isinstance(x, AP) for st in dist for x in st)
