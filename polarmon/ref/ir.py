"""Reads Polar `Program` objects (at any normalization stage) into the oracle's own AST so that the
reference engine can execute them with the documented meaning of the IR:

    x = rhs | cond : default      if cond then rhs else the current value of `default`
    IfStatem                      first matching branch (mutually exclusive flag irrelevant for meaning)
    loop_guard                    one iteration = if guard: body

Only *data attributes* are read (initial, loop_body, loop_guard, condition, default, polynomials,
probabilities, distribution class name + parameter attributes, func/argument, poly1/cop/poly2, cond1/cond2,
typedefs).  No Polar method that computes semantics (evaluate, to_arithm, get_moment, get_support...) is
called; expressions are read through their printed form and parsed by the oracle's own parser.
"""
from fractions import Fraction

from ..lang.ast import Program
from ..lang.parser import parse_expr, ParseError
from .engine import Unsupported

_DIST_ATTRS = {
    "Bernoulli": ("Bernoulli", ["p"]),
    "Normal": ("Normal", ["mu", "sigma2"]),
    "Uniform": ("Uniform", ["a", "b"]),
    "Laplace": ("Laplace", ["mu", "b"]),
    "Exponential": ("DistExp", ["lamb"]),
    "TruncNormal": ("TruncNormal", ["mu", "sigma2", "a", "b"]),
    "Beta": ("Beta", ["a", "b", "scale"]),
    "Gamma": ("Gamma", ["k", "theta"]),
}


def conv_expr(e):
    s = str(e)
    try:
        return parse_expr(s)
    except ParseError as ex:
        raise Unsupported(f"IR expression outside the oracle's arithmetic: {s[:60]}")


def conv_cond(c):
    name = type(c).__name__
    if name == "TrueCond":
        return ("true",)
    if name == "FalseCond":
        return ("false",)
    if name == "Atom":
        return ("atom", conv_expr(c.poly1), str(c.cop), conv_expr(c.poly2))
    if name == "Not":
        return ("not", conv_cond(c.cond))
    if name == "And":
        return ("and", conv_cond(c.cond1), conv_cond(c.cond2))
    if name == "Or":
        return ("or", conv_cond(c.cond1), conv_cond(c.cond2))
    raise Unsupported(f"unknown condition class {name}")


def conv_dist(d):
    name = type(d).__name__
    if name == "Categorical":
        return ("draw", "Categorical", [conv_expr(p) for p in d.probabilities])
    if name == "DiscreteUniform":
        return ("draw", "DiscreteUniform", [conv_expr(d.values[0]), conv_expr(d.values[-1])])
    if name in _DIST_ATTRS:
        fam, attrs = _DIST_ATTRS[name]
        return ("draw", fam, [conv_expr(getattr(d, a)) for a in attrs])
    raise Unsupported(f"unknown distribution class {name}")


def conv_assign(a):
    name = type(a).__name__
    var = str(a.variable)
    if name == "PolyAssignment":
        polys = list(a.polynomials)
        probs = list(a.probabilities)
        if len(polys) == 1 and str(probs[0]) == "1":
            rhs = ("poly", conv_expr(polys[0]))
        else:
            rhs = ("choice", [(conv_expr(p), conv_expr(q)) for p, q in zip(polys, probs)])
    elif name == "DistAssignment":
        rhs = conv_dist(a.distribution)
    elif name == "FunctionalAssignment":
        rhs = ("func", str(a.func), conv_expr(a.argument))
    else:
        raise Unsupported(f"unknown assignment class {name}")
    cond = conv_cond(a.condition)
    default = str(a.default)
    if cond == ("true",):
        return ("assign", var, rhs)
    return ("assign", var, rhs, cond, default)


def conv_stmts(stmts):
    out = []
    for s in stmts:
        name = type(s).__name__
        if name == "IfStatem":
            branches = [(conv_cond(c), conv_stmts(b)) for c, b in zip(s.conditions, s.branches)]
            els = conv_stmts(s.else_branch) if s.else_branch else None
            out.append(("if", branches, els))
        elif isinstance(s, (list, tuple)):
            out += conv_stmts(s)
        else:
            out.append(conv_assign(s))
    return out


def conv_program(program):
    """Polar Program -> oracle Program (typedefs are returned separately by read_types)"""
    return Program([], conv_stmts(program.initial), conv_cond(program.loop_guard), conv_stmts(program.loop_body))


def to_fraction(x):
    s = str(x)
    try:
        e = parse_expr(s)
    except ParseError:
        return None
    from ..lang.ast import fold
    f = fold(e)
    return f[1] if f[0] == "num" else None


def read_types(program):
    """var name -> sorted list of Fractions (None entries for values the oracle cannot read)"""
    out = {}
    for v, t in program.typedefs.items():
        vals = getattr(t, "values", None)
        if vals is None:
            continue
        out[str(v)] = [to_fraction(x) for x in vals]
    return out
