"""Printers: one AST, many spellings (used as workload and by C19)."""
from fractions import Fraction
import random

DEFAULT_STYLE = {
    "parens": "min",          # 'min' | 'full'
    "decimals": False,        # print terminating rationals as decimals
    "explicit_last_prob": False,
    "indent": "    ",
    "comments": False,
    "blank_lines": False,
    "crlf": False,
    "spaces": True,           # spaces around binary operators
    "elif_as_nested": False,  # print elif chains as else: if ... end end
    "simult_as_temps": False, # print a,b = e1,e2 through explicit temporaries
}


def _is_terminating(fr: Fraction):
    d = fr.denominator
    for p in (2, 5):
        while d % p == 0:
            d //= p
    return d == 1


def _dec_str(fr: Fraction):
    # exact decimal expansion of a terminating rational, non-negative
    n, d = fr.numerator, fr.denominator
    ip = n // d
    rem = n % d
    digits = []
    while rem:
        rem *= 10
        digits.append(str(rem // d))
        rem %= d
    return f"{ip}." + ("".join(digits) if digits else "0")


def num_str(fr: Fraction, style):
    """returns (string, precedence) for a non-negative rational"""
    if fr.denominator == 1:
        return str(fr.numerator), 5
    if style.get("decimals") and _is_terminating(fr):
        return _dec_str(fr), 5
    return f"{fr.numerator}/{fr.denominator}", 2


def expr_str(e, style=DEFAULT_STYLE):
    s, _ = _expr(e, style)
    return s


def _wrap(s):
    return "(" + s + ")"


def _expr(e, style):
    sp = " " if style.get("spaces", True) else ""
    full = style.get("parens") == "full"
    k = e[0]
    if k == "num":
        v = e[1]
        if v < 0:
            # the grammar has no unary minus before '(': a sign can only be part of an atom
            s, p = num_str(-v, style)
            return "-" + s, (3 if p == 5 else 2)
        return num_str(v, style)
    if k == "var":
        return e[1], 5
    if k == "neg":
        s, p = _expr(e[1], style)
        inner = e[1]
        simple = inner[0] == "var" or (inner[0] == "num" and inner[1] >= 0 and p == 5) or \
            (inner[0] == "bin" and inner[1] == "**" and inner[2][0] in ("var",) and not full)
        if simple:
            return "-" + s, 3
        # -(expr) is outside the grammar: spell it as a product with -1
        if p <= 2 or s.startswith("-"):
            s = _wrap(s)
        return "-1*" + s, 2
    if k == "bin":
        op = e[1]
        ls, lp = _expr(e[2], style)
        rs, rp = _expr(e[3], style)
        if op in "+-":
            me = 1
            if full and lp < 5:
                ls = _wrap(ls)
            if rp <= 1 or (full and rp < 5) or rs.startswith("-"):
                rs = _wrap(rs)
            return f"{ls}{sp}{op}{sp}{rs}", me
        if op in "*/":
            me = 2
            if lp < 2 or (full and lp < 5):
                ls = _wrap(ls)
            if rp <= 2 or (full and rp < 5) or rs.startswith("-"):
                rs = _wrap(rs)
            return f"{ls}{op}{rs}", me
        if op == "**":
            if lp < 5:
                ls = _wrap(ls)
            if rp < 5:
                rs = _wrap(rs)
            return f"{ls}**{rs}", 4
    raise ValueError(f"bad expr {e!r}")


def cond_str(c, style=DEFAULT_STYLE, top=True):
    k = c[0]
    if k == "true":
        return "true"
    if k == "false":
        return "false"
    if k == "atom":
        return f"{expr_str(c[1], style)} {c[2]} {expr_str(c[3], style)}"
    if k == "not":
        return f"!({cond_str(c[1], style)})"
    if k in ("and", "or"):
        op = "&&" if k == "and" else "||"

        def sub(x):
            s = cond_str(x, style, top=False)
            if x[0] in ("and", "or"):
                return "(" + s + ")"
            if style.get("parens") == "full" and x[0] == "atom":
                return "(" + s + ")"
            return s

        return f"{sub(c[1])} {op} {sub(c[2])}"
    raise ValueError(f"bad cond {c!r}")


def rhs_str(r, style=DEFAULT_STYLE):
    k = r[0]
    if k == "poly":
        return expr_str(r[1], style)
    if k == "choice":
        alts = r[1]
        parts = []
        for i, (e, p) in enumerate(alts):
            last = i == len(alts) - 1
            if last and not style.get("explicit_last_prob"):
                parts.append(expr_str(e, style))
            else:
                parts.append(f"{expr_str(e, style)} {{{expr_str(p, style)}}}")
        return " ".join(parts)
    if k == "draw":
        return f"{r[1]}({', '.join(expr_str(p, style) for p in r[2])})"
    if k == "func":
        return f"{r[1]}({expr_str(r[2], style)})"
    raise ValueError(f"bad rhs {r!r}")


class _Tmp:
    def __init__(self):
        self.n = 0

    def fresh(self):
        self.n += 1
        return f"tmpq{self.n}"


def stmts_lines(stmts, style, depth, tmp=None, rng=None):
    ind = style.get("indent", "    ") * depth
    out = []
    tmp = tmp or _Tmp()
    for s in stmts:
        if style.get("blank_lines") and rng and rng.random() < 0.3:
            out.append("")
        if style.get("comments") and rng and rng.random() < 0.3:
            out.append(ind + "# " + rng.choice(["note", "x = 1", "end", "while true:", "if a == 1:"]))
        k = s[0]
        cm = ""
        if style.get("comments") and rng and rng.random() < 0.3:
            cm = "  # " + rng.choice(["c", "y = 2 {1/2} 3", "!!"])
        if k == "assign":
            out.append(f"{ind}{s[1]} = {rhs_str(s[2], style)}{cm}")
        elif k == "simult":
            if style.get("simult_as_temps"):
                ts = [tmp.fresh() for _ in s[1]]
                for t, r in zip(ts, s[2]):
                    out.append(f"{ind}{t} = {rhs_str(r, style)}")
                for v, t in zip(s[1], ts):
                    out.append(f"{ind}{v} = {t}")
            else:
                out.append(f"{ind}{', '.join(s[1])} = {', '.join(rhs_str(r, style) for r in s[2])}{cm}")
        elif k == "if":
            branches, els = s[1], s[2]
            if style.get("elif_as_nested") and len(branches) > 1:
                c0, b0 = branches[0]
                rest = ("if", branches[1:], els)
                out.append(f"{ind}if {cond_str(c0, style)}:{cm}")
                out += stmts_lines(b0, style, depth + 1, tmp, rng)
                out.append(f"{ind}else:")
                out += stmts_lines([rest], style, depth + 1, tmp, rng)
                out.append(f"{ind}end")
            else:
                for i, (c, b) in enumerate(branches):
                    kw = "if" if i == 0 else "elif"
                    out.append(f"{ind}{kw} {cond_str(c, style)}:{cm if i == 0 else ''}")
                    out += stmts_lines(b, style, depth + 1, tmp, rng)
                if els is not None:
                    out.append(f"{ind}else:")
                    out += stmts_lines(els, style, depth + 1, tmp, rng)
                out.append(f"{ind}end")
        else:
            raise ValueError(f"bad stmt {s!r}")
    return out


def program_str(prog, style=None, rng_seed=None):
    st = dict(DEFAULT_STYLE)
    if style:
        st.update(style)
    rng = random.Random(rng_seed) if rng_seed is not None else None
    lines = []
    if prog.typedefs:
        lines.append("types")
        for v, tn, args in prog.typedefs:
            lines.append(f"{st['indent']}{v} : {tn}({', '.join(expr_str(a, st) for a in args)})")
        lines.append("end")
    tmp = _Tmp()
    lines += stmts_lines(prog.init, st, 0, tmp, rng)
    lines.append(f"while {cond_str(prog.guard, st)}:")
    lines += stmts_lines(prog.body, st, 1, tmp, rng)
    lines.append("end")
    nl = "\r\n" if st.get("crlf") else "\n"
    return nl.join(lines) + nl
