"""AST of the .prob loop language used by the oracle.  Independent of Polar.

Expressions are nested tuples:
    ('num', Fraction) | ('var', name) | ('neg', e) | ('bin', op, l, r)   op in + - * / **
Conditions:
    ('true',) | ('false',) | ('atom', e1, cop, e2) | ('not', c) | ('and', c1, c2) | ('or', c1, c2)
Right-hand sides:
    ('poly', e) | ('choice', [(e, p_expr)...])  (all probabilities explicit)
    ('draw', family, [param exprs]) | ('func', name, arg_expr)
Statements:
    ('assign', var, rhs) | ('simult', [vars], [rhs]) | ('if', [(cond, [stmts])...], else_stmts_or_None)
Program: dataclass below.
"""
from dataclasses import dataclass, field
from fractions import Fraction
from typing import Any, Dict, List, Optional, Tuple

DIST_FAMILIES = (
    "Bernoulli", "Normal", "Categorical", "Uniform", "DiscreteUniform",
    "Laplace", "DistExp", "TruncNormal", "Beta", "Gamma",
)
FUNCS = ("Sin", "Cos", "Exp")
COPS = ("==", "<=", ">=", "<", ">", "/=")


@dataclass
class Program:
    typedefs: List[Tuple[str, str, List[Any]]] = field(default_factory=list)  # (var, 'Finite'|'FiniteRange', [exprs])
    init: List[Any] = field(default_factory=list)
    guard: Any = ("true",)
    body: List[Any] = field(default_factory=list)

    def to_json(self):
        return {"typedefs": enc(self.typedefs), "init": enc(self.init), "guard": enc(self.guard), "body": enc(self.body)}

    @staticmethod
    def from_json(d):
        return Program(dec(d["typedefs"]), dec(d["init"]), dec(d["guard"]), dec(d["body"]))


def enc(x):
    if isinstance(x, Fraction):
        return {"F": [str(x.numerator), str(x.denominator)]}
    if isinstance(x, (list, tuple)):
        return {"T" if isinstance(x, tuple) else "L": [enc(y) for y in x]}
    return x


def dec(x):
    if isinstance(x, dict):
        if "F" in x:
            return Fraction(int(x["F"][0]), int(x["F"][1]))
        if "T" in x:
            return tuple(dec(y) for y in x["T"])
        if "L" in x:
            return [dec(y) for y in x["L"]]
    return x


def num(v):
    return ("num", Fraction(v))


def var(n):
    return ("var", n)


def binop(op, l, r):
    return ("bin", op, l, r)


def expr_vars(e, acc=None):
    acc = set() if acc is None else acc
    k = e[0]
    if k == "var":
        acc.add(e[1])
    elif k == "neg":
        expr_vars(e[1], acc)
    elif k == "bin":
        expr_vars(e[2], acc)
        expr_vars(e[3], acc)
    return acc


def cond_vars(c, acc=None):
    acc = set() if acc is None else acc
    k = c[0]
    if k == "atom":
        expr_vars(c[1], acc)
        expr_vars(c[3], acc)
    elif k == "not":
        cond_vars(c[1], acc)
    elif k in ("and", "or"):
        cond_vars(c[1], acc)
        cond_vars(c[2], acc)
    return acc


def rhs_vars(r, acc=None):
    acc = set() if acc is None else acc
    k = r[0]
    if k == "poly":
        expr_vars(r[1], acc)
    elif k == "choice":
        for e, p in r[1]:
            expr_vars(e, acc)
            expr_vars(p, acc)
    elif k == "draw":
        for p in r[2]:
            expr_vars(p, acc)
    elif k == "func":
        expr_vars(r[2], acc)
    return acc


def walk_stmts(stmts):
    """yield every statement (pre-order), descending into ifs"""
    for s in stmts:
        yield s
        if s[0] == "if":
            for _, br in s[1]:
                yield from walk_stmts(br)
            if s[2] is not None:
                yield from walk_stmts(s[2])


def assigned_vars(stmts):
    out = []
    for s in walk_stmts(stmts):
        if s[0] == "assign":
            if s[1] not in out:
                out.append(s[1])
        elif s[0] == "simult":
            for v in s[1]:
                if v not in out:
                    out.append(v)
    return out


def all_names(prog: Program):
    """every identifier occurring anywhere (assigned variables and free symbols)"""
    names = set()
    for blk in (prog.init, prog.body):
        for s in walk_stmts(blk):
            if s[0] == "assign":
                names.add(s[1])
                rhs_vars(s[2], names)
            elif s[0] == "simult":
                names.update(s[1])
                for r in s[2]:
                    rhs_vars(r, names)
            elif s[0] == "if":
                for c, _ in s[1]:
                    cond_vars(c, names)
    cond_vars(prog.guard, names)
    return names


def program_variables(prog: Program):
    """variables = names assigned somewhere (init or body), in first-assignment order"""
    out = assigned_vars(prog.init)
    for v in assigned_vars(prog.body):
        if v not in out:
            out.append(v)
    return out


def program_symbols(prog: Program):
    """free names never assigned: symbolic constants"""
    return sorted(all_names(prog) - set(program_variables(prog)))


def fold(e):
    """constant-fold an expression: every variable-free subtree becomes ('num', Fraction).
    Non-rational constants (fractional powers) are left unfolded."""
    k = e[0]
    if k in ("num", "var"):
        return e
    if k == "neg":
        a = fold(e[1])
        if a[0] == "num":
            return ("num", -a[1])
        return ("neg", a)
    if k == "bin":
        a, b = fold(e[2]), fold(e[3])
        if a[0] == "num" and b[0] == "num":
            op = e[1]
            try:
                if op == "+":
                    return ("num", a[1] + b[1])
                if op == "-":
                    return ("num", a[1] - b[1])
                if op == "*":
                    return ("num", a[1] * b[1])
                if op == "/":
                    return ("num", a[1] / b[1])
                if op == "**" and b[1].denominator == 1 and abs(b[1]) <= 64:
                    return ("num", a[1] ** int(b[1]))
            except ZeroDivisionError:
                pass
        return ("bin", e[1], a, b)
    raise ValueError(e)


def fold_cond(c):
    k = c[0]
    if k == "atom":
        return ("atom", fold(c[1]), c[2], fold(c[3]))
    if k == "not":
        return ("not", fold_cond(c[1]))
    if k in ("and", "or"):
        return (k, fold_cond(c[1]), fold_cond(c[2]))
    return c


def fold_rhs(r):
    k = r[0]
    if k == "poly":
        return ("poly", fold(r[1]))
    if k == "choice":
        return ("choice", [(fold(e), fold(p)) for e, p in r[1]])
    if k == "draw":
        return ("draw", r[1], [fold(p) for p in r[2]])
    if k == "func":
        return ("func", r[1], fold(r[2]))
    raise ValueError(r)


def fold_stmts(stmts):
    out = []
    for s in stmts:
        if s[0] == "assign":
            out.append(("assign", s[1], fold_rhs(s[2])) + tuple(s[3:]))
        elif s[0] == "simult":
            out.append(("simult", list(s[1]), [fold_rhs(r) for r in s[2]]))
        elif s[0] == "if":
            out.append(("if", [(fold_cond(c), fold_stmts(b)) for c, b in s[1]],
                        None if s[2] is None else fold_stmts(s[2])))
    return out


def fold_program(p):
    return Program([(v, t, [fold(a) for a in args]) for v, t, args in p.typedefs],
                   fold_stmts(p.init), fold_cond(p.guard), fold_stmts(p.body))
