"""Hand-written parser for the .prob language (independent of Polar's lark grammar).

Arithmetic follows Python operator precedence: ** (right assoc, binds tighter than unary minus on
its left), unary +/-, * and / (left), + and - (left).
Mixed && / || without parentheses is rejected as AmbiguousCondition (the properties do not fix its
meaning), everything else outside the grammar raises ParseError.
"""
import re
from fractions import Fraction

from .ast import Program, DIST_FAMILIES, FUNCS


class ParseError(Exception):
    pass


class AmbiguousCondition(ParseError):
    pass


_TOKEN_RE = re.compile(
    r"\s*(?:(?P<num>(?:\d+\.\d*(?:[eE][+-]?\d+)?|\.\d+(?:[eE][+-]?\d+)?|\d+[eE][+-]?\d+|\d+))"
    r"|(?P<name>[A-Za-z_][A-Za-z_0-9]*)"
    r"|(?P<op>\*\*|&&|\|\||==|<=|>=|/=|[-+*/()<>!{},:=]))"
)


def tokenize(text):
    toks = []
    pos = 0
    text = text.rstrip()
    while pos < len(text):
        m = _TOKEN_RE.match(text, pos)
        if not m or m.end() == pos:
            raise ParseError(f"bad character at {pos}: {text[pos:pos+10]!r}")
        if m.group("num") is not None:
            toks.append(("num", m.group("num")))
        elif m.group("name") is not None:
            toks.append(("name", m.group("name")))
        else:
            toks.append(("op", m.group("op")))
        pos = m.end()
    return toks


def _num_value(s):
    return Fraction(s)  # Fraction parses '0.25', '1e-3', '12'


class _P:
    def __init__(self, toks):
        self.toks = toks
        self.i = 0

    def peek(self):
        return self.toks[self.i] if self.i < len(self.toks) else (None, None)

    def next(self):
        t = self.peek()
        self.i += 1
        return t

    def accept(self, kind, val=None):
        t = self.peek()
        if t[0] == kind and (val is None or t[1] == val):
            self.i += 1
            return True
        return False

    def expect(self, kind, val=None):
        if not self.accept(kind, val):
            raise ParseError(f"expected {val or kind}, got {self.peek()}")

    def at_end(self):
        return self.i >= len(self.toks)

    # ---------------- arithmetic ----------------
    def expr(self):
        left = self.term()
        while True:
            t = self.peek()
            if t == ("op", "+") or t == ("op", "-"):
                self.next()
                right = self.term()
                left = ("bin", t[1], left, right)
            else:
                return left

    def term(self):
        left = self.unary()
        while True:
            t = self.peek()
            if t == ("op", "*") or t == ("op", "/"):
                self.next()
                right = self.unary()
                left = ("bin", t[1], left, right)
            else:
                return left

    def unary(self):
        t = self.peek()
        if t == ("op", "-"):
            self.next()
            return ("neg", self.unary())
        if t == ("op", "+"):
            self.next()
            return self.unary()
        return self.power()

    def power(self):
        base = self.primary()
        if self.peek() == ("op", "**"):
            self.next()
            exp = self.unary()  # right assoc; exponent may carry a sign
            return ("bin", "**", base, exp)
        return base

    def primary(self):
        t = self.next()
        if t[0] == "num":
            return ("num", _num_value(t[1]))
        if t[0] == "name":
            return ("var", t[1])
        if t == ("op", "("):
            e = self.expr()
            self.expect("op", ")")
            return e
        raise ParseError(f"unexpected token {t} in arithmetic")

    # ---------------- conditions ----------------
    def cond(self):
        left = self.cond_primary()
        ops = set()
        while True:
            t = self.peek()
            if t == ("op", "&&") or t == ("op", "||"):
                self.next()
                ops.add(t[1])
                if len(ops) > 1:
                    raise AmbiguousCondition("mixed && and || without parentheses")
                right = self.cond_primary()
                left = ("and" if t[1] == "&&" else "or", left, right)
            else:
                return left

    def cond_primary(self):
        t = self.peek()
        if t == ("op", "!"):
            self.next()
            self.expect("op", "(")
            c = self.cond()
            self.expect("op", ")")
            return ("not", c)
        if t == ("name", "true"):
            self.next()
            return ("true",)
        if t == ("name", "false"):
            self.next()
            return ("false",)
        if t == ("op", "("):
            save = self.i
            try:
                self.next()
                c = self.cond()
                self.expect("op", ")")
                nt = self.peek()
                if nt[0] == "op" and nt[1] in ("+", "-", "*", "/", "**", "==", "<=", ">=", "<", ">", "/="):
                    raise ParseError("parenthesised arithmetic")
                return c
            except AmbiguousCondition:
                raise
            except ParseError:
                self.i = save
        e1 = self.expr()
        t = self.next()
        if t[0] != "op" or t[1] not in ("==", "<=", ">=", "<", ">", "/="):
            raise ParseError(f"expected comparison operator, got {t}")
        e2 = self.expr()
        return ("atom", e1, t[1], e2)


def parse_expr(text):
    p = _P(tokenize(text))
    e = p.expr()
    if not p.at_end():
        raise ParseError(f"trailing tokens in expression {text!r}")
    return e


def parse_cond(text):
    p = _P(tokenize(text))
    c = p.cond()
    if not p.at_end():
        raise ParseError(f"trailing tokens in condition {text!r}")
    return c


def _split_top(toks, sep):
    """split token list on top-level (paren/brace depth 0) separator op"""
    parts, cur, depth = [], [], 0
    for t in toks:
        if t[0] == "op" and t[1] in "({":
            depth += 1
        elif t[0] == "op" and t[1] in ")}":
            depth -= 1
        if depth == 0 and t == ("op", sep):
            parts.append(cur)
            cur = []
        else:
            cur.append(t)
    parts.append(cur)
    return parts


def _parse_rhs(toks):
    if not toks:
        raise ParseError("empty right-hand side")
    # distribution / function call:  Name ( ... )  with upper-case first letter, whole rhs
    if toks[0][0] == "name" and toks[0][1][0].isupper() and len(toks) >= 3 and toks[1] == ("op", "("):
        name = toks[0][1]
        if toks[-1] != ("op", ")"):
            raise ParseError("call must span the whole right-hand side")
        inner = toks[2:-1]
        args = [] if not inner else _split_top(inner, ",")
        if name in FUNCS:
            if len(args) != 1 or len(args[0]) != 1 or args[0][0][0] not in ("name", "num"):
                raise ParseError("function argument must be a variable or a number")
            a = args[0][0]
            arg = ("var", a[1]) if a[0] == "name" else ("num", _num_value(a[1]))
            return ("func", name, arg)
        if name not in DIST_FAMILIES:
            raise ParseError(f"unknown distribution {name}")
        params = []
        for a in args:
            p = _P(a)
            params.append(p.expr())
            if not p.at_end():
                raise ParseError("bad distribution parameter")
        return ("draw", name, params)
    # categorical: e {p} e {p} e [{p}]
    if any(t == ("op", "{") for t in toks):
        alts = []
        p = _P(toks)
        while True:
            e = p.expr()
            if p.accept("op", "{"):
                pr = p.expr()
                p.expect("op", "}")
                alts.append((e, pr))
                if p.at_end():
                    break
            else:
                if not p.at_end():
                    raise ParseError("bad categorical")
                if not alts:
                    raise ParseError("bad categorical")
                rest = ("num", Fraction(1))
                for _, q in alts:
                    rest = ("bin", "-", rest, q)
                alts.append((e, rest))
                break
        if len(alts) < 2:
            raise ParseError("categorical needs >= 2 alternatives")
        return ("choice", alts)
    p = _P(toks)
    e = p.expr()
    if not p.at_end():
        raise ParseError("trailing tokens in assignment")
    return ("poly", e)


def _parse_assign(toks):
    sides = _split_top(toks, "=")
    if len(sides) != 2:
        raise ParseError("assignment needs exactly one '='")
    lhs = _split_top(sides[0], ",")
    rhs = _split_top(sides[1], ",")
    names = []
    for l in lhs:
        if len(l) != 1 or l[0][0] != "name":
            raise ParseError("bad assignment target")
        names.append(l[0][1])
    if len(names) != len(rhs):
        raise ParseError("simultaneous assignment arity mismatch")
    rs = [_parse_rhs(r) for r in rhs]
    if len(names) == 1:
        return ("assign", names[0], rs[0])
    return ("simult", names, rs)


def _strip_comment(line):
    i = line.find("#")
    return line if i < 0 else line[:i]


def parse_program(text):
    lines = []
    for raw in text.replace("\r\n", "\n").split("\n"):
        l = _strip_comment(raw).strip()
        if l:
            lines.append(l)
    pos = 0
    prog = Program()

    # typedefs
    if pos < len(lines) and lines[pos] == "types":
        pos += 1
        while pos < len(lines) and lines[pos] != "end":
            toks = tokenize(lines[pos])
            if len(toks) < 5 or toks[0][0] != "name" or toks[1] != ("op", ":") or toks[2][0] != "name" \
                    or toks[3] != ("op", "(") or toks[-1] != ("op", ")"):
                raise ParseError(f"bad typedef {lines[pos]!r}")
            tname = toks[2][1]
            if tname not in ("Finite", "FiniteRange"):
                raise ParseError(f"unknown type {tname}")
            args = []
            inner = toks[4:-1]
            for a in (_split_top(inner, ",") if inner else []):
                p = _P(a)
                args.append(p.expr())
                if not p.at_end():
                    raise ParseError("bad type parameter")
            prog.typedefs.append((toks[0][1], tname, args))
            pos += 1
        if pos >= len(lines):
            raise ParseError("types block not closed")
        pos += 1

    def kind_of(l):
        if l == "end":
            return "end"
        if re.fullmatch(r"else\s*:", l):
            return "else"
        for kw in ("elif", "while", "if", "end", "else", "types"):
            if re.match(kw + r"(?![A-Za-z_0-9])", l):
                if kw in ("end", "else", "types"):
                    # 'end' / 'else' followed by junk, but allow assignments to e.g. 'end = 1'? no: keywords
                    if re.match(kw + r"\s*(=|,)", l):
                        return "assign"
                    raise ParseError(f"bad line {l!r}")
                if re.match(kw + r"\s*(=(?!=)|,)", l):
                    return "assign"
                return kw
        return "assign"

    def parse_block(pos, terminators):
        stmts = []
        while True:
            if pos >= len(lines):
                raise ParseError("unexpected end of input")
            l = lines[pos]
            k = kind_of(l)
            if k in terminators:
                return stmts, pos
            if k in ("end", "else", "elif", "while"):
                raise ParseError(f"unexpected {k}")
            if k == "if":
                if not l.endswith(":"):
                    raise ParseError("if without ':'")
                c = parse_cond(l[2:-1])
                branches = []
                body, pos = parse_block(pos + 1, ("end", "elif", "else"))
                branches.append((c, body))
                else_branch = None
                while True:
                    l2 = lines[pos]
                    k2 = kind_of(l2)
                    if k2 == "end":
                        pos += 1
                        break
                    if k2 == "else":
                        else_branch, pos = parse_block(pos + 1, ("end",))
                        pos += 1
                        break
                    # elif
                    if not l2.endswith(":"):
                        raise ParseError("elif without ':'")
                    c2 = parse_cond(l2[4:-1])
                    b2, pos = parse_block(pos + 1, ("end", "elif", "else"))
                    branches.append((c2, b2))
                for _, b in branches:
                    if not b:
                        raise ParseError("empty branch")
                if else_branch is not None and not else_branch:
                    raise ParseError("empty else branch")
                stmts.append(("if", branches, else_branch))
                continue
            stmts.append(_parse_assign(tokenize(l)))
            pos += 1

    init, pos = parse_block(pos, ("while",))
    l = lines[pos]
    if not l.endswith(":"):
        raise ParseError("while without ':'")
    prog.init = init
    prog.guard = parse_cond(l[5:-1])
    body, pos = parse_block(pos + 1, ("end",))
    if not body:
        raise ParseError("empty loop body")
    prog.body = body
    if lines[pos] != "end":
        raise ParseError("loop not closed")
    pos += 1
    if pos != len(lines):
        raise ParseError("text after end of loop")
    return prog
