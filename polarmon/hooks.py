"""Monitors attached to the real Polar classes from the harness process (no source edits).

PassMonitor: wraps `execute` of every transformer class used by program.transformer.normalize_program.
Only calls made at depth 0 (directly by normalize_program) fire the callback; nested calls
(UpdateInfoTransformer inside ConditionsNormalizer / ConditionsToArithm) are counted but ignored.
"""
from contextlib import contextmanager

from . import polar_api as P

PASS_CLASSES = [
    "LoopGuardTransformer", "DistTransformer", "IfTransformer", "MultiAssignTransformer", "ConditionsReducer",
    "ConstantsTransformer", "UpdateInfoTransformer", "TypeInferer", "ConditionsNormalizer", "ConditionsToArithm",
]


@contextmanager
def pass_monitor(callback, counts=None):
    """callback(stage_index, class_name, program) after each depth-0 pass"""
    P.load()
    import program.transformer as T
    depth = [0]
    stage = [0]
    saved = {}

    def make(cls_name, orig):
        def execute(self, program):
            depth[0] += 1
            try:
                out = orig(self, program)
            finally:
                depth[0] -= 1
            if counts is not None:
                counts[cls_name] = counts.get(cls_name, 0) + 1
            if depth[0] == 0:
                stage[0] += 1
                callback(stage[0], cls_name, out)
            return out
        return execute

    try:
        for name in PASS_CLASSES:
            cls = getattr(T, name)
            orig = cls.__dict__.get("execute")
            if orig is None:
                # inherited (TreeTransformer.execute): install a per-class wrapper calling the inherited one
                inherited = cls.execute

                def orig(self, program, _inh=inherited):
                    return _inh(self, program)
                saved[name] = (cls, None)
            else:
                saved[name] = (cls, orig)
            cls.execute = make(name, orig)
        yield
    finally:
        for name, (cls, orig) in saved.items():
            if orig is None:
                try:
                    del cls.execute
                except AttributeError:
                    pass
            else:
                cls.execute = orig
