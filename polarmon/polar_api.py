"""Thin access layer to the real Polar code (imported from POLAR_REPO, default /repo) used by the checks.

Only calls Polar's public entry points the way cli/ and tests/ do; everything returned is evaluated with
sympy/mpmath by the harness.  Also: refusal classification (exception type @ innermost repo frame).
"""
import io
import os
import sys
import traceback
from contextlib import contextmanager, redirect_stdout
from fractions import Fraction

REPO = os.environ.get("POLAR_REPO", "/repo")

_loaded = False


def load():
    global _loaded
    if _loaded:
        return
    sys.dont_write_bytecode = True
    if REPO not in sys.path:
        sys.path.insert(0, REPO)
    import settings  # noqa
    _loaded = True


DEFAULT_SETTINGS = dict(
    transform_categoricals=False, cond2arithm=False, disable_type_inference=False, type_fp_iterations=100,
    numeric_roots=False, numeric_croots=False, numeric_eps=1e-10, trivial_guard=False, exact_func_moments=False,
)


def set_settings(**kw):
    load()
    import settings
    vals = dict(DEFAULT_SETTINGS)
    vals.update(kw)
    for k, v in vals.items():
        setattr(settings, k, v)


def reset_settings():
    set_settings()


def refusal_key(exc):
    """(ExceptionType, innermost function inside the repo) of an exception raised by Polar"""
    tb = traceback.extract_tb(exc.__traceback__)
    where = "?"
    for fr in tb:
        if fr.filename.startswith(REPO + os.sep):
            where = f"{os.path.relpath(fr.filename, REPO)}:{fr.name}"
    return f"{type(exc).__name__}@{where}"


def parse_string(text):
    load()
    from inputparser import Parser
    return Parser().parse_string(text)


def normalize(program):
    load()
    from program import normalize_program
    return normalize_program(program)


def prepare(text):
    """parse + normalize -> (program, rec_builder)"""
    load()
    from recurrences import RecBuilder
    program = normalize(parse_string(text))
    return program, RecBuilder(program)


def monom_str(monomial):
    """dict var->power  ->  'x**2*y'"""
    parts = []
    for v, k in monomial.items():
        if k == 1:
            parts.append(v)
        elif k > 1:
            parts.append(f"{v}**{k}")
    return "*".join(parts) if parts else "1"


def closed_form(program, rec_builder, monomial, solvers=None, **solver_kw):
    """the API path used by tests/ and cli.common.get_moment: returns (sympy expr, is_exact, recurrences)"""
    load()
    from symengine.lib.symengine_wrapper import sympify
    from recurrences.solver import RecurrenceSolver
    monom = sympify(monom_str(monomial) if isinstance(monomial, dict) else monomial)
    recs = rec_builder.get_recurrences(monom)
    solver = RecurrenceSolver(recs, **solver_kw)
    return solver.get(monom), solver.is_exact, recs


# ------------------------------------------------------------------ evaluation of returned expressions
def _subs_map(expr, n_val, values):
    import sympy
    m = {}
    for s in expr.free_symbols:
        if s.name == "n":
            if n_val is not None:
                m[s] = sympy.Integer(n_val)
        elif s.name in values:
            v = values[s.name]
            m[s] = sympy.Rational(v.numerator, v.denominator) if isinstance(v, Fraction) else v
    return m


class Leftover(Exception):
    def __init__(self, names, value):
        super().__init__(f"symbols {sorted(names)} left in {value}")
        self.names = sorted(names)
        self.value = value


class NotANumber(Exception):
    pass


def eval_at(expr, n_val, values):
    """Evaluate a sympy expression returned by Polar at n=n_val and symbol values (name -> Fraction).
    Returns Fraction if the result is an exact rational, else an mpmath mpf/mpc at 60 digits.
    Raises Leftover if symbols remain, NotANumber for nan/zoo/oo."""
    import sympy
    import mpmath as mp
    e = sympy.sympify(expr)
    m = _subs_map(e, n_val, values)
    r = e.subs(m) if m else e
    if isinstance(r, sympy.Piecewise) or r.has(sympy.Piecewise):
        r = sympy.piecewise_fold(r)
        r = r.doit()
    if r.free_symbols:
        # try xreplace with both plain and integer n
        raise Leftover({s.name for s in r.free_symbols}, str(r)[:200])
    if r.has(sympy.nan) or r.has(sympy.zoo) or r.has(sympy.oo) or r.has(-sympy.oo):
        raise NotANumber(str(r)[:100])
    if r.is_Rational:
        return Fraction(int(r.p), int(r.q))
    r2 = sympy.nsimplify(r, rational=False) if False else r
    try:
        r3 = sympy.expand(r2)
        if r3.is_Rational:
            return Fraction(int(r3.p), int(r3.q))
    except Exception:
        r3 = r2
    v = sympy.N(r3, 70)
    if v.is_Rational:
        return Fraction(int(v.p), int(v.q))
    try:
        re, im = v.as_real_imag()
        rv = mp.mpf(str(re))
        iv = mp.mpf(str(im))
    except Exception:
        raise NotANumber(str(v)[:100])
    if iv != 0:
        return mp.mpc(rv, iv)
    return rv


def values_equal(polar_val, ref_val, exact=True, rel_tol=None):
    """compare a value from Polar (Fraction/mpf/mpc) with an oracle value (Fraction/mpf).
    exact=True: if both are Fractions they must be equal; if one side is numeric, tolerance 1e-40 relative
    (a numeric evaluation of an exact algebraic expression).  rel_tol overrides."""
    import mpmath as mp
    if isinstance(polar_val, Fraction) and isinstance(ref_val, Fraction):
        if rel_tol is None:
            return polar_val == ref_val
        return abs(polar_val - ref_val) <= Fraction(rel_tol).limit_denominator(10 ** 60) * max(1, abs(ref_val))
    tol = mp.mpf(rel_tol) if rel_tol is not None else mp.mpf(10) ** -40
    with mp.workdps(70):
        a = mp.mpf(polar_val.numerator) / polar_val.denominator if isinstance(polar_val, Fraction) else polar_val
        b = mp.mpf(ref_val.numerator) / ref_val.denominator if isinstance(ref_val, Fraction) else ref_val
        return abs(a - b) <= tol * max(1, abs(b))


def val_str(v):
    import mpmath as mp
    if isinstance(v, Fraction):
        return str(v)
    return mp.nstr(v, 30)


@contextmanager
def quiet():
    buf = io.StringIO()
    with redirect_stdout(buf):
        yield buf


def run_cli(argv):
    """run polar.main() in-process with the given argv (list after program name); returns stdout text"""
    load()
    import importlib
    import polar
    old = sys.argv
    sys.argv = ["polar.py"] + list(argv)
    buf = io.StringIO()
    try:
        with redirect_stdout(buf):
            polar.main()
    finally:
        sys.argv = old
    return buf.getvalue()


class CliRefused(Exception):
    def __init__(self, key):
        super().__init__(key)
        self.key = key
