"""C13 — Sin/Cos/Exp moments of random variables are the true expectations.

Monitors (runtime, real Polar code):
  * direct sweep: FunctionalAssignment.get_func_moment(dist, powers) for generated (family, parameters, powers) requests and
    FunctionalAssignment(var, f, c).get_const_moment(k), in default mode (documented ~20-digit rational rounding) and in
    exact mode (settings/class flag exact_func_moments);
  * program level: closed forms (RecBuilder + RecurrenceSolver) of generated loops with Sin/Cos/Exp assignments of drawn
    variables, references to them and constants, evaluated at n = 0..N; while the analysis runs, a recording wrapper on
    get_func_moment / get_const_moment checks every value the analysis actually uses (postcondition hook).
Oracle: mpmath quadrature / finite sums on the oracle's own densities (ref/laws.py), cross-checked by a second quadrature on a
refined partition (Beta: reflected upper half) that also yields the error estimate entering the tolerance; analytic mgf
domain for existence; exact forward propagation of the source AST (ref/engine.py) for the programs.  Nothing here calls a
Polar function to obtain an expected value.

Mechanism keys assigned by diagnostic predicates (None = unattributed):
  trig-exp-mix-exp-factor-dropped                 request with Sin/Cos and Exp powers answered with the value of the trig-only moment
  zero-frequency-term-lost-in-cf-derivative       truth - polar == (constant term of sin^b cos^c) * E[X^a], a >= 1, b+c even
  const-func-decimal-literal-evaluated-in-double  Sin/Cos/Exp of a decimal literal off by a double-precision rounding error
  func-var-placeholder-conflated-with-old-value   wrong closed form and the normalised program lets the previous value of a
                                                  functional variable meet the placeholder of its new value (conditioned
                                                  functional assignment keeping its old value / read between draw and assignment)
  nonexistent-exp-moment-answered                 value returned for E[X^a e^{dX}] outside the analytic mgf domain
  solver-closed-form-differs-from-iterated-recurrences   Polar's recurrences, iterated numerically by the harness, reproduce
                                                  the reference but the solver's closed form does not (C01/C04 territory)"""
import random
from fractions import Fraction

import mpmath as mp

from .. import polar_api as P
from ..gen import funcmoments as G
from ..ref import laws
from . import common as K

ID = "C13"
RULE = ("cases = (a) direct requests get_func_moment(dist, {Id:a,Sin:b,Cos:c}|{Id:a,Exp:d}|mixed) over 10 families x seeded "
        "admissible rational parameters x exponent tuples (a+b+c<=4 quick / <=7 thorough, d<=3, d at/above the mgf boundary for "
        "DistExp/Gamma/Laplace) x {default, exact} mode, (b) get_const_moment for Sin/Cos/Exp of integer / rational / decimal "
        "constants, (c) generated `while true` programs (draw + Sin/Cos/Exp assignments of it / of a reference / of constants, "
        "conditioned functional assignments, functional variables drawn in the initial block or consumed one iteration later, "
        "two independent draws, Sin*Exp mixtures, non-existent exponential moments) with 2-4 goal monomials compared at n=0..3; "
        "non-trivial = a numeric value returned by Polar was compared with a non-zero oracle value, or a divergent exponential "
        "moment was decided (rejected / answered); distinct = distinct (request | program text, goals, mode)")
ASSUMPTIONS = [
    "mpmath tanh-sinh quadrature at 50 digits on the densities written in polarmon/ref/laws.py (self-tested against closed-form raw moments); "
    "in the direct sweep each value is recomputed at 75 digits on a refined partition with extended tails and the two must agree to 1e-24 (else inconclusive)",
    "documented rounding of default mode = 20 significant digits of each functional moment (convert_func_moment: Rational(N(m, 20))): tolerance 1e-17 relative per moment, "
    "1e-15 relative to the magnitude of the contributing terms for closed forms; exact mode: 1e-30 relative against a 75-digit quadrature (direct sweep) / 1e-22 for the values seen by the hook during program analysis and for closed forms (limited by the 50-digit primary quadrature, worst observed error 2e-29)",
    "analytic existence domain of E[e^{dX}]: DistExp d < rate, Gamma d < 1/scale, Laplace |d| < 1/b, everywhere for the other families",
    "language semantics of ref/engine.py for the program-level cases; sympy evaluates Polar's returned expression correctly to 60 digits",
    "n ranges over 0..3 for programs",
]
TIMEOUT = {"quick": 40, "thorough": 120}
DEADLINE = {"quick": 110, "thorough": 1000}
MIN_DECIDING = {"quick": 60, "thorough": 600}
NDIRECT = {"quick": 140, "thorough": 2400}
NPROG = {"quick": 40, "thorough": 700}


EXTREME = [
    # tiny moments: the documented rounding is to ~20 *significant* digits, so these must not collapse to 0
    {"kind": "trig", "fam": "Normal", "ps": ["0", "100"], "a": 0, "b": 0, "c": 1, "d": 0, "exact": False},     # exp(-50)
    {"kind": "trig", "fam": "Normal", "ps": ["0", "64"], "a": 0, "b": 0, "c": 1, "d": 0, "exact": False},      # exp(-32)
    {"kind": "trig", "fam": "Normal", "ps": ["3", "121"], "a": 0, "b": 1, "c": 0, "d": 0, "exact": False},
    {"kind": "const", "func": "Exp", "arg": "-60", "arg_style": "int", "k": 1, "exact": False},
    {"kind": "const", "func": "Exp", "arg": "-25", "arg_style": "int", "k": 3, "exact": False},
    {"kind": "exp", "fam": "Normal", "ps": ["-80", "1"], "a": 0, "b": 0, "c": 0, "d": 1, "exact": False},       # exp(-79.5)
    {"kind": "trig", "fam": "Laplace", "ps": ["0", "1000000"], "a": 0, "b": 0, "c": 1, "d": 0, "exact": False},  # 1/(1+1e12)
]


def generate(seed, tier):
    cases = []
    for j, c in enumerate(EXTREME):
        c = dict(c)
        c["id"] = f"x-{j}"
        c["features"] = ["extreme-tiny-moment", "default-mode"]
        cases.append(c)
    nd, npg = NDIRECT[tier], NPROG[tier]
    # interleave so that the deadline cuts both kinds evenly
    i = 0
    di = pi = 0
    while di < nd or pi < npg:
        take_prog = pi < npg and (di >= nd or (i % max(2, (nd + npg) // max(1, npg))) == 0)
        cs = K.harness_seed(seed, ID, i)
        rng = random.Random(cs)
        if take_prog:
            c = G.program_case(rng, tier, pi)
            c["id"] = f"p-{cs}"
            pi += 1
        else:
            c = G.direct_case(rng, tier, di)
            c["id"] = f"d-{cs}"
            if c.get("exact") and c.get("kind") != "const" and rng.random() < 0.5:
                c["after_default"] = True
                c["features"] = list(c.get("features", [])) + ["exact-after-default-in-one-process"]
            di += 1
        cases.append(c)
        i += 1
    return cases


def _patch_engine_mono_order():
    """ref/engine.py sorts the generators of a monomial with the default tuple order, which raises TypeError as soon as a
    constant atom ("const", c) meets a draw atom (iteration, path, ...) in one product (Sin(2)*Sin(x)).  The oracle is
    otherwise fine; inside this worker the canonical order is replaced by an order on repr (total, deterministic).
    [shared change requested: make engine._mono_mul robust to heterogeneous atom ids]"""
    from ..ref import engine as E

    def _mono_mul(m1, m2):
        if not m1:
            return m2
        if not m2:
            return m1
        d = dict(m1)
        for g, p in m2:
            d[g] = d.get(g, 0) + p
        return tuple(sorted(d.items(), key=lambda kv: repr(kv[0])))

    E._mono_mul = _mono_mul


COUNTS = {}
_counters_installed = False


def _install_counters():
    """counting wrappers (observation only) on the anchored Polar functions; COUNTS is reset per case"""
    global _counters_installed
    if _counters_installed:
        return
    _counters_installed = True
    import functools
    from program.assignment import FunctionalAssignment as FA, DistAssignment
    from program.transformer.update_info_transformer import UpdateInfoTransformer
    from recurrences.rec_builder import RecBuilder
    import program.distribution as D

    def count(name):
        COUNTS[name] = COUNTS.get(name, 0) + 1

    def wrap_plain(cls, attr, label):
        orig = cls.__dict__.get(attr)
        if orig is None:
            return
        if isinstance(orig, classmethod):
            f = orig.__func__

            @functools.wraps(f)
            def w(c, *a, **k):
                count(label)
                return f(c, *a, **k)
            setattr(cls, attr, classmethod(w))
        else:
            @functools.wraps(orig)
            def w(self, *a, **k):
                count(label)
                return orig(self, *a, **k)
            setattr(cls, attr, w)

    for attr in ("get_trig_moment", "get_exp_moment", "convert_func_moment", "get_moment"):
        wrap_plain(FA, attr, "FunctionalAssignment." + attr)
    wrap_plain(DistAssignment, "_get_mixed_func_moment", "DistAssignment._get_mixed_func_moment")
    wrap_plain(UpdateInfoTransformer, "_set_dists_for_func_assignments", "UpdateInfoTransformer._set_dists_for_func_assignments")
    wrap_plain(RecBuilder, "_replace_assign", "RecBuilder._replace_assign")
    for cname in ("Bernoulli", "Normal", "Uniform", "DiscreteUniform", "Laplace", "Exponential", "TruncNormal", "Beta", "Gamma"):
        cls = getattr(D, cname)
        for attr in ("cf", "mgf", "mgf_exists_at"):
            wrap_plain(cls, attr, f"{cname}.{attr}")


def worker_init(tier):
    P.load()
    mp.mp.dps = 50
    _patch_engine_mono_order()
    _install_counters()


# ------------------------------------------------------------------------------------------------ oracle
def _mpf(x):
    if isinstance(x, Fraction):
        return mp.mpf(x.numerator) / mp.mpf(x.denominator)
    return mp.mpf(x)


def law_of(fam, ps):
    ps = [Fraction(p) for p in ps]
    if fam == "Beta" and len(ps) == 2:
        ps = ps + [Fraction(1)]
    return (fam,) + tuple(ps)


def _second_quadrature(law, a, b, c, d, dps=75):
    """high-precision re-evaluation of the same expectation (used as the reference in exact mode): working precision `dps`,
    refined partition (break points of the primary + mid points + a shifted pi/2 lattice for oscillatory integrands),
    extra break points far out in infinite tails (the primary leaves [40b, oo) of a Laplace tail to a single tanh-sinh
    panel, which limits it to ~1e-29), Beta: the upper half is integrated in u = scale - x so that (1-x/scale)**(b-1) does
    not suffer cancellation near the end point"""
    with mp.workdps(dps):
        f = laws.pdf(law)

        def h(x):
            return x ** a * mp.sin(x) ** b * mp.cos(x) ** c * mp.exp(d * x)

        pts = laws._quad_points(law)
        fin = [+p for p in pts if mp.isfinite(p)]
        new = set(fin)
        for u, v in zip(fin, fin[1:]):
            new.add((u + v) / 2)
        lo, hi = fin[0], fin[-1]
        if b + c > 0:
            step = mp.pi / 2
            n = int((hi - lo) / step) + 1
            if n <= 400:
                for j in range(n):
                    t = lo + mp.pi / 4 + j * step
                    if lo < t < hi:
                        new.add(t)
        width = hi - lo
        inf_lo, inf_hi = not mp.isfinite(pts[0]), not mp.isfinite(pts[-1])
        for k in (1, 2, 4, 8):
            if inf_hi:
                new.add(hi + k * width / 2)
            if inf_lo:
                new.add(lo - k * width / 2)
        fin2 = sorted(new)
        if law[0] == "Beta":
            A, B, sc = [_mpf(p) for p in law[1:]]
            cB = 1 / (mp.beta(A, B) * sc)
            half = sc / 2
            left = [p for p in fin2 if p <= half]
            if left[-1] != half:
                left.append(half)
            v1 = mp.quad(lambda x: h(x) * f(x), left)
            v2 = mp.quad(lambda u: h(sc - u) * cB * ((sc - u) / sc) ** (A - 1) * (u / sc) ** (B - 1), left)
            return +(v1 + v2)
        full = ([pts[0]] if inf_lo else []) + fin2 + ([pts[-1]] if inf_hi else [])
        return +mp.quad(lambda x: h(x) * f(x), full)


def oracle_mixed(law, a, b, c, d, cross=True):
    """(value, abs error bound used in the tolerance) of E[X^a sin^b X cos^c X e^{dX}]; raises laws.Divergent.
    cross=False: the primary oracle laws.mixed_moment (50 digits; accurate to ~1e-29 relative in the worst observed case,
    an oscillatory Laplace/Gamma tail) with an error allowance of 1e-26; cross=True: additionally the 75-digit
    re-evaluation, which becomes the reference (allowance 1e-36); the two must agree to 1e-24 or OracleDisagree is raised"""
    v = laws.mixed_moment(law, a, b, c, d)
    if laws.is_discrete(law):
        mag = mp.mpf(0)
        for x, p in laws.pmf(law):
            mag += _mpf(p) * abs(_mpf(x)) ** a * mp.exp(d * _mpf(x))
        return v, mp.mpf(10) ** -47 * max(1, mag)
    if not cross:
        return v, mp.mpf(10) ** -26 * max(1, abs(v))
    v2 = _second_quadrature(law, a, b, c, d)
    if abs(v - v2) > mp.mpf(10) ** -24 * max(abs(v2), mp.mpf(10) ** -6):
        raise OracleDisagree(f"{mp.nstr(v, 30)} vs {mp.nstr(v2, 30)}")
    return v2, mp.mpf(10) ** -36 * max(1, abs(v2))


class OracleDisagree(Exception):
    pass


def polar_number(r):
    """value of an expression returned by Polar: Fraction when rational, else mpf (60 digits); raises P.NotANumber / P.Leftover"""
    import sympy
    e = sympy.sympify(r)
    if e.free_symbols:
        raise P.Leftover({s.name for s in e.free_symbols}, str(e)[:120])
    if e.is_Rational:
        return Fraction(int(e.p), int(e.q))
    if e.has(sympy.nan) or e.has(sympy.zoo) or e.has(sympy.oo):
        raise P.NotANumber(str(e)[:100])
    v = sympy.N(e, 60)
    re_, im_ = v.as_real_imag()
    if not (re_.is_Float or re_.is_Rational) or not (im_.is_Float or im_.is_Rational):
        raise P.NotANumber(str(v)[:100])
    if abs(im_) > sympy.Float("1e-45") * max(1, abs(re_)):
        raise P.NotANumber("complex value " + str(v)[:100])
    return mp.mpf(str(re_))


def close(pv, ref, rel_tol, err):
    tol = mp.mpf(rel_tol) * abs(ref) + 10 * err + mp.mpf(10) ** -40
    return abs(_mpf(pv) - ref) <= tol, tol


def law_from_polar_dist(dist):
    """(family, [Fraction params]) read from the attributes of a Polar distribution object (the *argument* of the call under
    observation); None when a parameter is not a rational number"""
    name = type(dist).__name__
    try:
        if name == "Normal":
            ps = [dist.mu, dist.sigma2]
        elif name == "Uniform":
            ps = [dist.a, dist.b]
        elif name == "Exponential":
            name, ps = "DistExp", [dist.lamb]
        elif name == "Gamma":
            ps = [dist.k, dist.theta]
        elif name == "Laplace":
            ps = [dist.mu, dist.b]
        elif name == "Beta":
            ps = [dist.a, dist.b, dist.scale]
        elif name == "TruncNormal":
            ps = [dist.mu, dist.sigma2, dist.a, dist.b]
        elif name == "Bernoulli":
            ps = [dist.p]
        elif name == "DiscreteUniform":
            ps = [dist.values[0], dist.values[-1]]
        elif name == "Categorical":
            ps = list(dist.probabilities)
        else:
            return None
        out = []
        for p in ps:
            if not (p.is_Rational or p.is_Integer):
                return None
            out.append(Fraction(str(p)))
        law = (name,) + tuple(out)
        laws.check_params(law)
        return law
    except Exception:
        return None


# ------------------------------------------------------------------------------------------------ one request
def judge_request(law, a, b, c, d, outcome, exact, cross):
    """outcome = ('value', polar expression) | ('exc', exception).  Returns dict(status, viol, cmp, nontrivial, info)
    status: held | violated | refused | skip"""
    is_mix = (b + c) > 0 and d > 0
    info = {}
    try:
        ref, err = oracle_mixed(law, a, b, c, d, cross=cross)
        exists = True
    except laws.Divergent:
        ref, err, exists = None, None, False
    except OracleDisagree as e:
        return {"status": "skip", "reason": "oracle-precision", "cmp": 0, "nontrivial": False, "info": {"oracle": str(e)[:100]}}
    if outcome[0] == "exc":
        e = outcome[1]
        rej = type(e).__name__ == "FunctionalAssignmentException"
        info["polar"] = "raised " + P.refusal_key(e)
        if not exists:
            # rejected rather than answered (any exception is a rejection; the dedicated one is the intended path)
            return {"status": "held", "cmp": 1, "nontrivial": True, "info": dict(info, truth="does not exist"), "refusal": None if rej else P.refusal_key(e)}
        if is_mix and rej:
            return {"status": "held", "cmp": 1, "nontrivial": False, "info": dict(info, truth=mp.nstr(ref, 25), note="mixed request rejected"), "refusal": None}
        return {"status": "refused", "cmp": 0, "nontrivial": False, "info": info, "refusal": P.refusal_key(e)}
    try:
        pv = polar_number(outcome[1])
    except (P.NotANumber, P.Leftover) as e:
        return {"status": "violated", "cmp": 1, "nontrivial": True, "info": info,
                "viol": {"kind": "func-moment-not-a-number", "key": None,
                         "detail": f"{law} powers Id={a} Sin={b} Cos={c} Exp={d}: Polar returned {str(outcome[1])[:120]} ({e})"}}
    info["polar"] = P.val_str(pv)[:40]
    if not exists:
        return {"status": "violated", "cmp": 1, "nontrivial": True, "info": dict(info, truth="does not exist"),
                "viol": {"kind": "nonexistent-exp-moment-answered",
                         "key": "trig-exp-mix-exp-factor-dropped" if is_mix else "nonexistent-exp-moment-answered",
                         "detail": f"E[X^{a} sin^{b} cos^{c} e^({d}X)] does not exist for {law} but Polar returned {P.val_str(pv)[:40]}"}}
    info["truth"] = mp.nstr(ref, 30)
    # exact mode: 1e-30 against the 75-digit reference (direct sweep); 1e-22 when only the 50-digit primary oracle is used
    rel_tol = (1e-30 if cross else 1e-22) if exact else 1e-17
    if abs(ref) >= mp.mpf(10) ** -30 and 10 * err > mp.mpf(10) ** -12 * abs(ref):
        return {"status": "skip", "reason": "oracle-precision", "cmp": 0, "nontrivial": False, "info": dict(info, err=mp.nstr(err, 3))}
    ok, tol = close(pv, ref, rel_tol, err)
    info["tol"] = mp.nstr(tol, 3)
    if ok:
        return {"status": "held", "cmp": 1, "nontrivial": abs(ref) > mp.mpf(10) ** -30, "info": info}
    # diagnosis
    key = None
    missing = mp.mpf(0)
    if a >= 1 and (b + c) % 2 == 0:
        # constant (frequency-0) term of sin^b cos^c times E[X^a]: the contribution lost when the t = 0 branch of a
        # Piecewise characteristic function is differentiated
        k0 = mp.quad(lambda th: mp.sin(th) ** b * mp.cos(th) ** c, [0, mp.pi / 2, mp.pi, 3 * mp.pi / 2, 2 * mp.pi]) / (2 * mp.pi)
        missing = k0 * _mpf(laws.raw_moment(law, a))
    if d == 0 and abs(missing) > mp.mpf(10) ** -20 and abs((ref - _mpf(pv)) - missing) <= mp.mpf(10) ** -14 * max(1, abs(missing)):
        key = "zero-frequency-term-lost-in-cf-derivative"
    if is_mix:
        try:
            trig_only, e2 = oracle_mixed(law, a, b, c, 0, cross=False)
            if close(pv, trig_only, 1e-15, e2)[0] or (abs(missing) > 0 and close(pv, trig_only - missing, 1e-15, e2)[0]):
                key = "trig-exp-mix-exp-factor-dropped"
        except laws.Divergent:
            pass
    rel = abs(_mpf(pv) - ref) / max(abs(ref), mp.mpf(10) ** -300)
    return {"status": "violated", "cmp": 1, "nontrivial": True, "info": info,
            "viol": {"kind": "wrong-func-moment", "key": key, "rel_err": mp.nstr(rel, 5),
                     "detail": f"E[X^{a} sin^{b}(X) cos^{c}(X) e^({d}X)] for {law} ({'exact' if exact else 'default'} mode): polar={P.val_str(pv)[:45]} truth={mp.nstr(ref, 35)} rel.err={mp.nstr(rel, 3)}"}}


def judge_const(func, arg_str, k, outcome, exact):
    x = _const_value(arg_str)
    f = {"Sin": mp.sin, "Cos": mp.cos, "Exp": mp.exp}[func]
    ref = f(x) ** k
    info = {"truth": mp.nstr(ref, 30)}
    if outcome[0] == "exc":
        return {"status": "refused", "cmp": 0, "nontrivial": False, "info": info, "refusal": P.refusal_key(outcome[1])}
    try:
        pv = polar_number(outcome[1])
    except (P.NotANumber, P.Leftover) as e:
        return {"status": "violated", "cmp": 1, "nontrivial": True, "info": info,
                "viol": {"kind": "const-func-moment-not-a-number", "key": None, "detail": f"{func}({arg_str})**{k}: {e}"}}
    info["polar"] = P.val_str(pv)[:40]
    ok, tol = close(pv, ref, 1e-30 if exact else 1e-17, mp.mpf(10) ** -48 * max(1, abs(ref)))
    if ok:
        return {"status": "held", "cmp": 1, "nontrivial": abs(ref) > mp.mpf(10) ** -30 and ref != 1, "info": info}
    rel = abs(_mpf(pv) - ref) / max(abs(ref), mp.mpf(10) ** -300)
    key = None
    if "." in arg_str and rel < mp.mpf(10) ** -13:
        key = "const-func-decimal-literal-evaluated-in-double"
    return {"status": "violated", "cmp": 1, "nontrivial": True, "info": info,
            "viol": {"kind": "wrong-const-func-moment", "key": key, "rel_err": mp.nstr(rel, 5),
                     "detail": f"{func}({arg_str})**{k} ({'exact' if exact else 'default'} mode): polar={P.val_str(pv)[:45]} truth={mp.nstr(ref, 35)} rel.err={mp.nstr(rel, 3)}"}}


def _const_value(arg_str):
    # a decimal literal denotes the exact decimal number (Polar rationalises decimal literals everywhere else, e.g.
    # Uniform(0.98, 1.02) -> Uniform(49/50, 51/50)); "3/2" and "-2" are exact anyway
    return _mpf(Fraction(str(arg_str)))


# ------------------------------------------------------------------------------------------------ run
def _base(case):
    return {"fingerprint": K.fingerprint({k: v for k, v in case.items() if k not in ("id", "features", "timeout")}),
            "features": case.get("features", []), "events": {}, "violations": [], "comparisons": 0, "refusals": []}


def run_case(case, tier):
    COUNTS.clear()
    res = run_program(case, tier) if case["kind"] == "program" else run_direct(case, tier)
    for k, v in COUNTS.items():
        res["events"][k] = res["events"].get(k, 0) + v
    return res


def run_direct(case, tier):
    from program.assignment import FunctionalAssignment as FA
    from program.distribution import distribution_factory
    res = _base(case)
    exact = bool(case["exact"])
    old = FA.exact_func_moments
    FA.exact_func_moments = exact
    try:
        if case["kind"] == "const":
            try:
                fa = FA("s", case["func"], case["arg"])
                outcome = ("value", fa.get_const_moment(case["k"]))
            except Exception as e:
                outcome = ("exc", e)
            res["events"]["FunctionalAssignment.get_const_moment"] = 1
            j = judge_const(case["func"], case["arg"], case["k"], outcome, exact)
            req = f"{case['func']}({case['arg']})**{case['k']}"
        else:
            law = law_of(case["fam"], case["ps"])
            a, b, c, d = case["a"], case["b"], case["c"], case["d"]
            powers = {}
            if a:
                powers["Id"] = a
            if b:
                powers["Sin"] = b
            if c:
                powers["Cos"] = c
            if d:
                powers["Exp"] = d
            try:
                dist = distribution_factory(case["fam"], list(case["ps"]))
            except Exception as e:
                res.update(verdict="inconclusive", reason="refused", refusal=P.refusal_key(e))
                return res
            if exact and case.get("after_default"):
                # the same request in default (rounded) mode first, in the same process: the exact answer must not be
                # served from anything the rounded one left behind
                FA.exact_func_moments = False
                try:
                    FA.get_func_moment(distribution_factory(case["fam"], list(case["ps"])), dict(powers))
                    res["events"]["same-request-in-default-mode-first"] = 1
                except Exception:
                    pass
                FA.exact_func_moments = True
            try:
                outcome = ("value", FA.get_func_moment(dist, dict(powers)))
            except Exception as e:
                outcome = ("exc", e)
            res["events"]["FunctionalAssignment.get_func_moment"] = 1
            j = judge_request(law, a, b, c, d, outcome, exact, cross=True)
            req = f"{case['fam']}({', '.join(case['ps'])}) {powers}"
    finally:
        FA.exact_func_moments = old
    res["comparisons"] = j["cmp"]
    res["sample"] = dict(j.get("info", {}), request=req, mode="exact" if exact else "default")
    if j.get("refusal"):
        res["refusals"].append(j["refusal"])
    if j["status"] == "held":
        res.update(verdict="held", nontrivial=bool(j["nontrivial"]))
    elif j["status"] == "violated":
        v = j["viol"]
        v["request"] = req
        res["violations"].append(v)
        res.update(verdict="violated", nontrivial=True)
    elif j["status"] == "refused":
        res.update(verdict="inconclusive", reason="refused", refusal=j["refusal"])
    else:
        res.update(verdict="inconclusive", reason=j.get("reason", "oracle-precision"))
    return res


class _Recorder:
    """recording wrappers around FunctionalAssignment.get_func_moment / get_const_moment (class attributes replaced at run
    time inside the worker process only; restored afterwards)"""

    def __init__(self):
        from program.assignment import FunctionalAssignment as FA
        self.FA = FA
        self.calls = []
        self.const_calls = []

    def __enter__(self):
        FA = self.FA
        self._orig_func = FA.__dict__["get_func_moment"]
        self._orig_const = FA.__dict__["get_const_moment"]
        orig_func = self._orig_func.__func__
        orig_const = self._orig_const
        rec = self

        def get_func_moment(cls, dist, func_powers):
            powers = dict(func_powers)
            try:
                r = orig_func(cls, dist, func_powers)
            except Exception as e:
                rec.calls.append((dist, powers, ("exc", e)))
                raise
            rec.calls.append((dist, powers, ("value", r)))
            return r

        def get_const_moment(self_, k):
            try:
                r = orig_const(self_, k)
            except Exception as e:
                rec.const_calls.append((self_.func, str(self_.argument), int(k), ("exc", e)))
                raise
            rec.const_calls.append((self_.func, str(self_.argument), int(k), ("value", r)))
            return r

        FA.get_func_moment = classmethod(get_func_moment)
        FA.get_const_moment = get_const_moment
        return self

    def __exit__(self, *a):
        self.FA.get_func_moment = self._orig_func
        self.FA.get_const_moment = self._orig_const
        return False


def term_scale(eng, dist, monomial):
    """sum over states and terms of p*|coef|*|E[term]|: the magnitude at which the rounding of the individual functional
    moments enters E[monomial] (tolerance scale for default mode)"""
    from ..ref.engine import AP, v_mul, v_pow
    tot = mp.mpf(0)
    for st, p in dist.items():
        val = Fraction(1)
        for v, k in monomial.items():
            val = v_mul(val, v_pow(st[eng.index[v]], Fraction(k)))
        if isinstance(val, AP):
            for m, c in val.t.items():
                e = eng.atoms.expect(AP({m: Fraction(1)})) if m else Fraction(1)
                tot += _mpf(p) * abs(_mpf(c)) * abs(_mpf(e))
        else:
            tot += _mpf(p) * abs(_mpf(val))
    return tot


def _program_structure(program):
    """diagnostic predicates over Polar's normalised program: does a functional variable's *previous* value occur where the
    recurrence builder will still see the variable as a placeholder for the new functional moment?
      (a) a conditioned functional assignment whose default is the variable itself (`if b == 1: s = Sin(x) end`), or
      (b) a statement between the draw of the argument and the functional assignment reads the functional variable."""
    out = {"old_value_visible": False}
    try:
        from program.assignment import FunctionalAssignment as FA
        from program.condition import TrueCond
        for block in (list(program.initial), list(program.loop_body)):
            pos = {str(a.variable): i for i, a in enumerate(block)}
            for i, a in enumerate(block):
                if not isinstance(a, FA):
                    continue
                if not isinstance(a.condition, TrueCond) and str(a.default) == str(a.variable):
                    out["old_value_visible"] = True
                arg = str(a.argument)
                if arg in pos and pos[arg] < i:
                    for b in block[pos[arg] + 1:i]:
                        if str(a.variable) in {str(x) for x in b.get_free_symbols()}:
                            out["old_value_visible"] = True
    except Exception:
        pass
    return out


def run_program(case, tier):
    from ..lang.parser import parse_program
    from ..lang.ast import program_variables
    from ..ref.engine import Engine, Unsupported, CapExceeded, DomainError
    res = _base(case)
    exact = bool(case["exact"])
    N = case["N"]
    goals = case["goals"]
    inits = {k: Fraction(v[0], v[1]) for k, v in case.get("inits", {}).items()}
    try:
        prog = parse_program(case["text"])
        eng = Engine(prog, {}, inits)
        dists = eng.run(N)
    except (Unsupported, CapExceeded, DomainError) as e:
        res.update(verdict="inconclusive", reason="oracle-unsupported", detail=str(e)[:80])
        return res
    table = []   # per goal: list of values, or "divergent"
    scales = []
    for g in goals:
        try:
            table.append([eng.moment(dd, g) for dd in dists])
            scales.append([term_scale(eng, dd, g) for dd in dists])
        except laws.Divergent:
            table.append("divergent")
            scales.append(None)
        except (Unsupported, CapExceeded) as e:
            table.append(None)
            scales.append(None)
    values = {f"{v}0": inits.get(v, Fraction(0)) for v in program_variables(prog)}
    P.set_settings(exact_func_moments=exact)
    from program.assignment import FunctionalAssignment as FA
    old_flag = FA.exact_func_moments
    rec = _Recorder()
    outcomes = []
    program = None
    try:
        with rec:
            try:
                program, rb = P.prepare(case["text"])
                res["events"]["normalize_program"] = 1
            except Exception as e:
                res.update(verdict="inconclusive", reason="refused", refusal=P.refusal_key(e))
                return res
            for g in goals:
                try:
                    cf, is_exact, recs = P.closed_form(program, rb, g)
                    outcomes.append(("value", cf, is_exact, recs))
                    res["events"]["RecurrenceSolver.get"] = res["events"].get("RecurrenceSolver.get", 0) + 1
                except Exception as e:
                    outcomes.append(("exc", e, None, None))
    finally:
        FA.exact_func_moments = old_flag
        P.reset_settings()
    res["events"]["FunctionalAssignment.get_func_moment"] = len(rec.calls)
    res["events"]["FunctionalAssignment.get_const_moment"] = len(rec.const_calls)
    struct = _program_structure(program) if program is not None else {}

    # (1) postcondition of every functional moment the analysis used
    call_keys = set()
    seen = set()
    nontrivial = False
    hook_rows = []
    for dist, powers, outcome in rec.calls:
        law = law_from_polar_dist(dist)
        if law is None:
            continue
        a, b, c, d = powers.get("Id", 0), powers.get("Sin", 0), powers.get("Cos", 0), powers.get("Exp", 0)
        sig = (law, a, b, c, d)
        if sig in seen or len(seen) >= 40:
            continue
        seen.add(sig)
        j = judge_request(law, a, b, c, d, outcome, exact, cross=False)
        res["comparisons"] += j["cmp"]
        if j["status"] == "violated":
            v = dict(j["viol"])
            v["kind"] = "hook:" + v["kind"]
            v["program"] = case["text"]
            res["violations"].append(v)
            call_keys.add(v.get("key"))
        elif j["status"] == "held" and j["nontrivial"]:
            nontrivial = True
        if j.get("refusal"):
            res["refusals"].append(j["refusal"])
        if len(hook_rows) < 3:
            hook_rows.append({"law": str(law), "powers": powers, **{k: str(v)[:40] for k, v in j.get("info", {}).items()}})
    seen_c = set()
    for func, arg, k, outcome in rec.const_calls:
        sig = (func, arg, k)
        if sig in seen_c:
            continue
        seen_c.add(sig)
        try:
            Fraction(arg)
        except Exception:
            continue
        j = judge_const(func, arg, k, outcome, exact)
        res["comparisons"] += j["cmp"]
        if j["status"] == "violated":
            v = dict(j["viol"])
            v["kind"] = "hook:" + v["kind"]
            v["program"] = case["text"]
            res["violations"].append(v)
            call_keys.add(v.get("key"))
        elif j["status"] == "held" and j["nontrivial"]:
            nontrivial = True

    # (2) closed forms against the exact law of the source program
    compared = 0
    rows = []
    for g, ref, sc, out in zip(goals, table, scales, outcomes):
        gs = P.monom_str(g)
        if ref is None:
            continue
        if out[0] == "exc":
            e = out[1]
            if ref == "divergent":
                compared += 1
                res["comparisons"] += 1
                nontrivial = True
                rows.append({"goal": gs, "truth": "does not exist", "polar": "raised " + P.refusal_key(e)})
            else:
                res["refusals"].append(P.refusal_key(e))
            continue
        cf, is_exact = out[1], out[2]
        if ref == "divergent":
            compared += 1
            res["comparisons"] += 1
            nontrivial = True
            key = "nonexistent-exp-moment-answered"
            if "trig-exp-mix-exp-factor-dropped" in call_keys:
                key = "trig-exp-mix-exp-factor-dropped"
            res["violations"].append({"kind": "nonexistent-moment-answered", "key": key, "goal": gs, "program": case["text"],
                                      "detail": f"E({gs}) does not exist (divergent exponential moment) but Polar returned {str(cf)[:160]}"})
            continue
        compared += 1
        bad = None
        for n in range(N + 1):
            try:
                pv = P.eval_at(cf, n, values)
            except P.Leftover as e:
                bad = {"kind": "leftover-symbol", "n": n, "detail": f"E({gs}) at n={n}: symbols {e.names} remain: {e.value}"}
                break
            except P.NotANumber as e:
                bad = {"kind": "not-a-number", "n": n, "detail": f"E({gs}) at n={n} is {e}"}
                break
            res["comparisons"] += 1
            rv = ref[n]
            if isinstance(rv, Fraction) and isinstance(pv, Fraction) and pv == rv:
                continue
            if isinstance(pv, mp.mpc):
                bad = {"kind": "complex-value", "n": n, "detail": f"E({gs}) at n={n} is complex: {pv}"}
                break
            rvm = _mpf(rv)
            S = max(1, abs(rvm), sc[n])
            tol = (mp.mpf(10) ** -22 if exact else mp.mpf(10) ** -15) * S
            if abs(_mpf(pv) - rvm) > tol:
                bad = {"kind": "wrong-moment", "n": n, "polar": P.val_str(pv)[:45], "ref": P.val_str(rv)[:45],
                       "rel": float(abs(_mpf(pv) - rvm) / S),
                       "detail": f"E({gs}) at n={n} ({'exact' if exact else 'default'} mode): polar={P.val_str(pv)[:40]} reference={P.val_str(rv)[:40]} (tolerance {mp.nstr(tol, 3)}); closed form {str(cf)[:200]}"}
                break
            if not isinstance(rv, Fraction) and abs(rvm) > mp.mpf(10) ** -30:
                nontrivial = True
        if bad:
            bad["goal"] = gs
            bad["program"] = case["text"]
            if bad["kind"] == "wrong-moment" and _recurrences_agree_with_reference(out[3], g, ref, sc, values, N, exact):
                # Polar's own recurrences (where the functional moments enter) reproduce the reference when iterated
                # numerically: the discrepancy was introduced by the recurrence solver, not by anything C13 is about
                bad["key"] = "solver-closed-form-differs-from-iterated-recurrences"
            else:
                bad["key"] = _program_key(case, bad, call_keys, struct)
            res["violations"].append(bad)
        if len(rows) < 3:
            rows.append({"goal": gs, "closed_form": str(cf)[:160], "ref_values": [P.val_str(x)[:30] for x in ref[:4]]})
    if compared == 0 and not res["violations"]:
        res.update(verdict="inconclusive", reason="refused", refusal=(res["refusals"] or ["?"])[0])
        return res
    res["nontrivial"] = nontrivial or bool(res["violations"])
    res["verdict"] = "violated" if res["violations"] else "held"
    res["sample"] = {"program": case["text"], "mode": "exact" if exact else "default", "goals": rows, "func_moment_calls": hook_rows}
    return res


def _recurrences_agree_with_reference(recs, goal, ref, sc, values, N, exact):
    """iterate Polar's recurrence system E[M]_{n+1} = sum_j c_j E[M_j]_n numerically from its initial values (own linear
    iteration, no Polar solver involved) and compare E[goal]_n with the reference for n = 0..N"""
    import sympy
    try:
        keys = list(recs.recurrence_dict.keys())
        syms = sorted({x for k in keys for x in k.free_symbols}, key=lambda x: x.name)
        if not syms:
            return False

        def expo(m):
            return tuple(sympy.Poly(m, *syms).monoms()[0])

        def num(x):
            v = P.eval_at(x, None, values)
            return v if isinstance(v, Fraction) else mp.mpf(v)

        def add(x, y):
            if isinstance(x, Fraction) and isinstance(y, Fraction):
                return x + y
            return _mpf(x) + _mpf(y)

        def mul(x, y):
            if isinstance(x, Fraction) and isinstance(y, Fraction):
                return x * y
            return _mpf(x) * _mpf(y)

        rows = {}
        for k in keys:
            poly = sympy.Poly(sympy.expand(recs.recurrence_dict[k]), *syms)
            rows[expo(k)] = [(tuple(mon), num(coef)) for mon, coef in poly.terms()]
        val = {expo(k): num(recs.init_values_dict[k]) for k in keys}
        zero = tuple(0 for _ in syms)
        gkey = expo(sympy.sympify(P.monom_str(goal)))
        for n in range(N + 1):
            if n > 0:
                new = {}
                for k, terms in rows.items():
                    tot = Fraction(0)
                    for mon, coef in terms:
                        tot = add(tot, coef if mon == zero else mul(coef, val[mon]))
                    new[k] = tot
                val = new
            rvm = _mpf(ref[n])
            S = max(1, abs(rvm), sc[n])
            tol = (mp.mpf(10) ** -22 if exact else mp.mpf(10) ** -15) * S
            if abs(_mpf(val[gkey]) - rvm) > tol:
                return False
        return True
    except Exception:
        return False


def _program_key(case, bad, call_keys, struct):
    """mechanism attribution of a wrong closed form by diagnostic predicates"""
    keys = [k for k in call_keys if k]
    if "trig-exp-mix-exp-factor-dropped" in keys:
        return "trig-exp-mix-exp-factor-dropped"
    if "const-func-decimal-literal-evaluated-in-double" in keys and bad.get("kind") == "wrong-moment":
        if bad.get("rel", 1) <= 1e-12:
            return "const-func-decimal-literal-evaluated-in-double"
    if keys:
        return keys[0]
    if struct.get("old_value_visible"):
        return "func-var-placeholder-conflated-with-old-value"
    return None
