"""C20 — results are independent of process history, goal order and hash seed.

Monitor: the semantic summary of an analysis A (closed forms evaluated at n=0..N and at a parameter point,
inferred types, invariants, refusal type) produced by polarmon/c20_runner.py inside ONE interpreter after
different histories: [A], [A, A], [B1..Bm, A] (B's drawn to disturb the process-global state named in the
anchors: unique-name counter, FunctionalAssignment.exact_func_moments, lru caches, settings), permuted goal
order, PYTHONHASHSEED in {0, 1, 2, 3}.  Oracle: the same analysis in a fresh interpreter with empty history
and PYTHONHASHSEED=0.  Equality is up to names of generated auxiliary symbols."""
import json
import os
import random
import re
import subprocess
import sys
from fractions import Fraction

from ..gen import programs as G
from ..lang.ast import Program, program_variables, all_names
from ..lang.printer import program_str
from . import common as K

ID = "C20"
RULE = ("case = one target analysis A (generated program, 2-3 goals, optionally invariants; a fifth with identifiers shaped like "
        "Polar's generated names _t1/_u2/_old3/_r0) run under 6 histories/environments: fresh (reference), repeated [A,A], after 3-5 "
        "other analyses (functional programs, guarded programs, programs with many auxiliaries), permuted goals, PYTHONHASHSEED "
        "1,2,3; non-trivial = the reference analysis produced >= 1 closed form and >= 3 of the alternative runs completed; "
        "distinct = (target text, goals, histories) fingerprint")
ASSUMPTIONS = [
    "the fresh single-analysis interpreter with PYTHONHASHSEED=0 is the reference; histories use the same settings as the target, "
    "as polar.main does for several benchmark files",
    "comparison is semantic: values at n=0..N, types of source variables as sets, auxiliaries as a multiset without names, invariant "
    "bases as sorted expanded strings, refusals by exception type",
]
TIMEOUT = {"quick": 110, "thorough": 600}
DEADLINE = {"quick": 100, "thorough": 1000}
MIN_DECIDING = {"quick": 8, "thorough": 120}
NCASES = {"quick": 16, "thorough": 700}
ROOT = os.path.dirname(os.path.dirname(os.path.dirname(os.path.abspath(__file__))))

FUNC_PROG = "x = 0\ny = 0\nwhile true:\n    u = Normal(0, 1)\n    s = Sin(u)\n    y = y + s*u\n    x = x + u**2\nend\n"
GUARD_PROG = "stop = 0\nsteps = 0\nwhile stop == 0:\n    stop = Bernoulli(1/2)\n    steps = steps + 1\nend\n"
AUX_PROG = ("a = 0\nb = 1\nc = 0\nx = 0\nwhile true:\n    a, b = b, a + b\n    c = Bernoulli(1/3)\n    if c == 1 && a > 2:\n        x = x + 1 {1/2} x - 1\n"
            "    elif c == 0:\n        x = x + c\n    end\n    a = 1\n    b = 0\nend\n")
NLM_PROG = ("while true:\n    s = Bernoulli(1/2)\n    if s == 0:\n        x, y = x + x*y, (1/3)*x + (2/3)*y + (x*y)\n    else:\n"
            "        x, y = x + y + (2/3)*x*y, 2*y + (2/3)*(x*y)\n    end\nend\n")
HOSTILE_NAMES = ["_t0", "_t1", "_t2", "_u0", "_u1", "_old0", "_old1", "_r0", "_r1", "_c0", "_a0", "_b0", "_inv0"]


def make_job(cs, rng, profile=None, hostile=False, invariants=False):
    prog, feats, meta = G.generate(cs, profile or rng.choice(["discrete", "nested", "linear", "multiassign", "guarded", "mixed"]))
    if hostile:
        from .c19 import rename_program
        pv = program_variables(prog)
        old = rng.choice(pv)
        new = rng.choice([h for h in HOSTILE_NAMES if h not in all_names(prog)])
        prog = rename_program(prog, old, new)
        meta["data"] = [new if v == old else v for v in meta["data"]]
        feats = feats + ["hostile-generated-name:" + new]
    params, inits = G.instantiate_params(rng, meta, prog)
    pv = program_variables(prog)
    goals = G.goal_monomials(rng, pv, max_deg=2, count=rng.choice([2, 3]), prefer=meta["data"] or None)
    values = K.symbol_values(params, inits)
    return {"id": f"A-{cs}", "text": program_str(prog), "goals": goals, "settings": {}, "N": 4,
            "values": K.frac_enc(values), "source_vars": pv, "invariants": invariants}, feats


def generate(seed, tier):
    cases = []
    for i in range(NCASES[tier]):
        cs = K.harness_seed(seed, ID, i)
        rng = random.Random(cs)
        hostile = (i % 5 == 4)
        inv = (i % 4 == 1)
        guarded_target = (i % 3 == 0)
        target, feats = make_job(cs, rng, profile=rng.choice(["guarded", "counter", "guarded"]) if guarded_target else None,
                                 hostile=hostile, invariants=inv and not hostile and not guarded_target)
        if guarded_target:
            target["after_loop"] = True
            target["goals"] = target["goals"][:2]
            feats = feats + ["after-loop-target"]
        if inv:
            target["goals"] = [g for g in target["goals"] if sum(g.values()) == 1][:2] or target["goals"][:1]
        others = []
        for j in range(rng.choice([3, 4, 5])):
            kind = rng.choice(["func", "guard", "aux", "gen", "gen", "same-dists", "same-dists"])
            if kind == "func":
                others.append({"id": "B-func", "text": FUNC_PROG, "goals": [{"y": 1}, {"x": 1}], "settings": {}, "N": 2, "values": {}, "source_vars": ["x", "y", "u", "s"]})
            elif kind == "guard":
                others.append({"id": "B-guard", "text": GUARD_PROG, "goals": [{"steps": 1}], "settings": {}, "N": 2, "values": {}, "source_vars": ["stop", "steps"]})
            elif kind == "aux":
                others.append({"id": "B-aux", "text": AUX_PROG, "goals": [{"x": 1}], "settings": {}, "N": 2, "values": {}, "source_vars": ["a", "b", "c", "x"]})
            elif kind == "same-dists" and target.get("after_loop") and re.search(r"(Bernoulli\(|\{)\d+/\d+", target["text"]):
                # the SAME guard text over a loop that stops with a different probability (memoised guard moments would collide)
                b = dict(target)
                b["id"] = "B-same-guard"
                b["text"] = re.sub(r"(Bernoulli\(|\{)(\d+)/(\d+)", lambda m: m.group(1) + "1/7", target["text"], count=1)
                others.append(b)
            elif kind == "same-dists":
                # the same program text with different goals: same finite value tuples / distributions -> lru caches are warm
                b = dict(target)
                b["id"] = "B-same"
                b["goals"] = [{v: 2} for v in target["source_vars"][:2]]
                b["invariants"] = False
                others.append(b)
            else:
                b, _ = make_job(cs + 17 * (j + 1), random.Random(cs + j))
                b["id"] = f"B-{j}"
                others.append(b)
        perm = list(range(len(target["goals"])))
        rng.shuffle(perm)
        cases.append({"id": f"hist-{cs}", "target": target, "others": others, "perm": perm, "features": feats + [f"history:{len(others)}"],
                      "text": target["text"]})
    # invariant synthesis for an unsolvable loop: the ORDER of the reported invariants must not depend on history either
    nsynth = 3 if tier == "quick" else 30
    for j in range(nsynth):
        cs = K.harness_seed(seed, ID + "-synth", j)
        rng = random.Random(cs)
        target = {"id": f"A-synth-{j}", "text": NLM_PROG, "goals": [], "settings": {}, "N": 0, "values": {}, "source_vars": ["x", "y", "s"],
                  "synth": {"cand": ["x", "y"], "deg": 2}}
        others = []
        for _ in range(rng.choice([2, 5, 9, 14])):
            others.append({"id": "B-aux", "text": AUX_PROG, "goals": [{"x": 1}], "settings": {}, "N": 1, "values": {}, "source_vars": ["a", "b", "c", "x"]})
        cases.insert(2 * j + 1, {"id": f"synth-{cs}", "target": target, "others": others, "perm": [], "features": ["synth-inv-order", f"history:{len(others)}"],
                                 "text": NLM_PROG})
    for k, sc in enumerate(scenario_cases(seed, tier)):
        cases.insert(min(len(cases), 3 * k), sc)
    return cases


def run_jobs(jobs, hashseed, timeout):
    env = dict(os.environ)
    env["PYTHONHASHSEED"] = str(hashseed)
    env["PYTHONDONTWRITEBYTECODE"] = "1"
    env["PYTHONPATH"] = ROOT + os.pathsep + os.path.join(ROOT, ".deps") + os.pathsep + env.get("PYTHONPATH", "")
    try:
        p = subprocess.run([sys.executable, "-W", "ignore", "-m", "polarmon.c20_runner"], input=json.dumps(jobs).encode(), cwd=ROOT,
                           env=env, stdout=subprocess.PIPE, stderr=subprocess.PIPE, timeout=timeout)
    except subprocess.TimeoutExpired:
        return None, "timeout"
    if p.returncode != 0:
        return None, "runner-failed:" + p.stderr.decode()[-300:]
    try:
        return json.loads(p.stdout.decode().strip().splitlines()[-1]), None
    except Exception as e:
        return None, "runner-output:" + str(e)


def summary(r):
    return {"goals": r.get("goals"), "types": r.get("types"), "refusal": r.get("refusal"), "invariants": r.get("invariants"),
            "synth": r.get("synth"), "termination": r.get("termination"), "cli_blocks": r.get("cli_blocks")}


def same_ideal(b1, b2):
    """two invariant bases (lists of polynomial strings) generate the same ideal: mutual reduction to 0"""
    if not isinstance(b1, list) or not isinstance(b2, list):
        return b1 == b2
    if not b1 or not b2:
        return not b1 and not b2
    import sympy
    loc = {}
    def parse(t):
        # goal symbols are written E(x): turn them into plain symbols
        import re
        t2 = re.sub(r"E\(([^()]*)\)", lambda m: "E_" + re.sub(r"[^A-Za-z0-9_]", "_", m.group(1)), t)
        return sympy.sympify(t2)
    p1, p2 = [parse(t) for t in b1], [parse(t) for t in b2]
    syms = sorted(set().union(*[p.free_symbols for p in p1 + p2]), key=str)
    try:
        g1 = sympy.groebner(p1, *syms, order="grevlex")
        g2 = sympy.groebner(p2, *syms, order="grevlex")
        return all(g1.reduce(q)[1] == 0 for q in p2) and all(g2.reduce(q)[1] == 0 for q in p1)
    except Exception:
        return False


def diff(ref, alt):
    out = []
    if ref.get("refusal") != alt.get("refusal"):
        out.append(f"refusal {ref.get('refusal')} vs {alt.get('refusal')}")
        return out
    for g, rv in (ref.get("goals") or {}).items():
        av = (alt.get("goals") or {}).get(g)
        if av != rv:
            out.append(f"E({g}): reference {json.dumps(rv)[:160]} vs {json.dumps(av)[:160]}")
    if ref.get("types") != alt.get("types"):
        out.append(f"types: reference {json.dumps(ref.get('types'))[:200]} vs {json.dumps(alt.get('types'))[:200]}")
    if ref.get("termination") != alt.get("termination"):
        out.append(f"moments given termination: reference {json.dumps(ref.get('termination'))[:200]} vs {json.dumps(alt.get('termination'))[:200]}")
    if ref.get("synth") != alt.get("synth"):
        out.append(f"synthesized invariants (order matters): reference {ref.get('synth')} vs {alt.get('synth')}")
    if ref.get("invariants") != alt.get("invariants") and not same_ideal(ref.get("invariants"), alt.get("invariants")):
        out.append(f"invariants: reference {str(ref.get('invariants'))[:200]} vs {str(alt.get('invariants'))[:200]}")
    return out


def scenario_cases(seed, tier):
    """targeted histories for the process-global state named in the property's anchors"""
    out = []
    n = 2 if tier == "quick" else 12
    for j in range(n):
        cs = K.harness_seed(seed, ID + "-scn", j)
        r = random.Random(cs)
        # (i) several benchmark files in ONE CLI invocation that share a goal monomial
        a0, a1, m = r.choice([0, 1, 2]), r.choice([1, 3]), r.choice([2, 3])
        fA = f"x = {a0}\ny = 0\nwhile true:\n    x = x + {a1} {{1/2}} x - 1\n    y = y + x\nend\n"
        fB = f"x = 1\ny = {a0}\nwhile true:\n    x = {m}*x\n    y = y + 1 {{1/3}} y + x\nend\n"
        goals = ["E(x)", "E(y)", "E(x**2)"]
        out.append({"id": f"scn-cli-{cs}", "scenario": {
            "ref": {"jobs": [{"id": "cli-single", "cli": {"files": [fB], "goals": goals, "at_n": 3}}], "pick": ["cli_blocks", 0]},
            "alts": [{"label": "polar.py A.prob B.prob (B is the 2nd benchmark of one invocation)", "hashseed": 0,
                      "jobs": [{"id": "cli-multi", "cli": {"files": [fA, fB], "goals": goals, "at_n": 3}}], "pick": ["cli_blocks", 1]},
                     {"label": "polar.py B.prob A.prob B.prob", "hashseed": 1,
                      "jobs": [{"id": "cli-multi3", "cli": {"files": [fB, fA, fB], "goals": goals, "at_n": 3}}], "pick": ["cli_blocks", 2]}]},
            "features": ["scenario:cli-several-benchmarks"], "text": fB})
        # (ii) the same variable name with different non-binary finite value sets, power >= number of values
        v1 = r.choice([[0, 1, 3], [0, 2, 3], [1, 2, 4]])
        v2 = r.choice([[0, 1, 2], [0, 1, 4], [1, 3, 4]])
        def fin_prog(vals):
            return (f"c = {vals[0]}\nx = 0\nwhile true:\n    c = {vals[0]} {{1/3}} {vals[1]} {{1/3}} {vals[2]}\n    x = x + c**3\nend\n")
        jobA = {"id": "A-fin", "text": fin_prog(v1), "goals": [{"x": 1}, {"c": 3}, {"c": 4}], "settings": {}, "N": 3, "values": {}, "source_vars": ["c", "x"]}
        jobB = {"id": "B-fin", "text": fin_prog(v2), "goals": [{"x": 1}, {"c": 3}, {"c": 4}], "settings": {}, "N": 3, "values": {}, "source_vars": ["c", "x"]}
        out.append({"id": f"scn-fin-{cs}", "scenario": {
            "ref": {"jobs": [jobB], "pick": ["job", 0]},
            "alts": [{"label": f"after a program where c has values {v1}", "hashseed": 0, "jobs": [jobA, jobB], "pick": ["job", 1]},
                     {"label": f"after two programs, PYTHONHASHSEED=2", "hashseed": 2, "jobs": [jobA, jobA, jobB], "pick": ["job", 2]}]},
            "features": ["scenario:same-name-different-finite-type"], "text": jobB["text"]})
        # (iv) the same guard text over a variable that is never reassigned, with different stopping probabilities
        q1, q2 = r.sample(["1/2", "1/4", "3/4", "1/3"], 2)
        def latch_prog(q):
            return f"g = Bernoulli({q})\nx = 1\nwhile g == 1:\n    x = 2*x + 1 {{1/2}} x\nend\n"
        gA = {"id": "A-latch", "text": latch_prog(q1), "goals": [{"x": 1}, {"x": 2}], "settings": {}, "N": 3, "values": {}, "source_vars": ["g", "x"], "after_loop": True}
        gB = {"id": "B-latch", "text": latch_prog(q2), "goals": [{"x": 1}, {"x": 2}], "settings": {}, "N": 3, "values": {}, "source_vars": ["g", "x"], "after_loop": True}
        out.append({"id": f"scn-guard-{cs}", "scenario": {
            "ref": {"jobs": [gB], "pick": ["job", 0]},
            "alts": [{"label": f"after a loop with the same guard text but g = Bernoulli({q1})", "hashseed": 0, "jobs": [gA, gB], "pick": ["job", 1]}]},
            "features": ["scenario:same-guard-different-stopping-probability"], "text": gB["text"]})
        # (iii) exact_func_moments: functional assignment only in the initial block, after a program with one in the loop
        k = r.choice([1, 2, 3])
        fn = r.choice(["Cos", "Sin", "Exp"])
        st = {"exact_func_moments": True}
        jA = {"id": "A-func", "text": FUNC_PROG, "goals": [{"y": 1}], "settings": st, "N": 2, "values": {}, "source_vars": ["x", "y", "u", "s"]}
        jB = {"id": "B-func-init", "text": f"y = {fn}({k})\nx = 0\nwhile true:\n    x = x + y\nend\n", "goals": [{"x": 1}], "settings": st, "N": 3,
              "values": {}, "source_vars": ["x", "y"]}
        jC = {"id": "C-plain", "text": GUARD_PROG, "goals": [{"steps": 1}], "settings": st, "N": 2, "values": {}, "source_vars": ["stop", "steps"]}
        out.append({"id": f"scn-exact-{cs}", "scenario": {
            "ref": {"jobs": [jB], "pick": ["job", 0]},
            "alts": [{"label": "after a program with Sin in the loop body (exact_func_moments on)", "hashseed": 0, "jobs": [jA, jB], "pick": ["job", 1]},
                     {"label": "after a program without functional assignments", "hashseed": 0, "jobs": [jC, jB], "pick": ["job", 1]}]},
            "features": ["scenario:exact-func-moments-flag"], "text": jB["text"]})
        # (v) the same branch condition text over a variable whose finite type differs between the programs
        w1, w2 = r.sample([[0, 1], [0, 1, 2], [1, 2, 3], [0, 1, 3]], 2)
        tv = r.choice(sorted(set(w1) & set(w2)))
        def cond_prog(vals):
            pr = f"1/{len(vals)}"
            ch = " ".join(f"{v} {{{pr}}}" for v in vals[:-1]) + f" {vals[-1]}"
            return f"x = {vals[0]}\ny = 0\nwhile true:\n    x = {ch}\n    if x == {tv}:\n        y = y + 1\n    end\nend\n"
        cA = {"id": "A-cond", "text": cond_prog(w1), "goals": [{"y": 1}, {"x": 1, "y": 1}], "settings": {}, "N": 3, "values": {}, "source_vars": ["x", "y"]}
        cB = {"id": "B-cond", "text": cond_prog(w2), "goals": [{"y": 1}, {"x": 1, "y": 1}], "settings": {}, "N": 3, "values": {}, "source_vars": ["x", "y"]}
        out.append({"id": f"scn-cond-{cs}", "scenario": {
            "ref": {"jobs": [cB], "pick": ["job", 0]},
            "alts": [{"label": f"after a program branching on x == {tv} where x has values {w1}", "hashseed": 0, "jobs": [cA, cB], "pick": ["job", 1]},
                     {"label": "the same, cond2arithm histories, PYTHONHASHSEED=3", "hashseed": 3, "jobs": [dict(cA, settings={"cond2arithm": True}), cA, cB], "pick": ["job", 2]}]},
            "features": ["scenario:same-condition-different-finite-type"], "text": cB["text"]})
        # (vi) the same Sin/Cos/Exp moment requested in rounded mode and in exact mode within one process (both orders)
        fn2 = r.choice(["Cos", "Sin", "Exp"])
        dist = r.choice(["Normal(0, 1)", "Uniform(0, 1)", "Normal(1, 4)"])
        ftext = f"x = 0\ny = 0\ns = 0\nwhile true:\n    x = {dist}\n    y = {fn2}(x)\n    s = s + y\nend\n"
        fE = {"id": "func-exact", "text": ftext, "goals": [{"y": 1}, {"s": 1}], "settings": {"exact_func_moments": True}, "N": 2, "values": {}, "source_vars": ["x", "y", "s"]}
        fR = {"id": "func-rounded", "text": ftext, "goals": [{"y": 1}, {"s": 1}], "settings": {"exact_func_moments": False}, "N": 2, "values": {}, "source_vars": ["x", "y", "s"]}
        out.append({"id": f"scn-funcmode-a-{cs}", "scenario": {
            "ref": {"jobs": [fE], "pick": ["job", 0]},
            "alts": [{"label": "exact mode after the same program in rounded mode", "hashseed": 0, "jobs": [fR, fE], "pick": ["job", 1]}]},
            "features": ["scenario:func-moment-mode-switch"], "text": ftext})
        # (vii) the same distribution with the same parameter NAMES whose (folded) constant values differ between the programs
        fam = r.choice(["Gamma", "Beta", "Normal", "Laplace"])
        (a1, b1), (a2, b2) = r.sample([(2, 3), (1, 6), (3, 2), (2, 1), (4, 3)], 2)
        def named_prog(a_, b_):
            return f"k = {a_}\nth = {b_}\ns = 0\nx = 0\nwhile true:\n    x = {fam}(k, th)\n    s = s + x\nend\n"
        dA = {"id": "A-dist", "text": named_prog(a1, b1), "goals": [{"x": 1}, {"s": 1}, {"x": 2}], "settings": {}, "N": 2, "values": {}, "source_vars": ["x", "s"]}
        dB = {"id": "B-dist", "text": named_prog(a2, b2), "goals": [{"x": 1}, {"s": 1}, {"x": 2}], "settings": {}, "N": 2, "values": {}, "source_vars": ["x", "s"]}
        dS = {"id": "S-dist", "text": f"s = 0\nx = 0\nwhile true:\n    x = {fam}(k, th)\n    s = s + x\nend\n", "goals": [{"x": 1}, {"s": 1}], "settings": {}, "N": 2,
              "values": {}, "source_vars": ["x", "s"]}
        out.append({"id": f"scn-distparams-{cs}", "scenario": {
            "ref": {"jobs": [dB], "pick": ["job", 0]},
            "alts": [{"label": f"after a program drawing {fam}(k, th) with other constant values of k, th", "hashseed": 0, "jobs": [dA, dB], "pick": ["job", 1]},
                     {"label": "after the same draw with symbolic k, th", "hashseed": 1, "jobs": [dS, dB], "pick": ["job", 1]}]},
            "features": ["scenario:same-parameter-names-different-constants"], "text": dB["text"]})
        # (viii) a draw with a default (inside a branch) in an earlier program, the same draw unconditionally in a later one
        lo, hi = r.choice([(0, 2), (1, 3), (0, 3)])
        duA = {"id": "A-du", "text": f"c = 0\nm = {lo}\nw = 0\nwhile true:\n    c = Bernoulli(1/2)\n    if c == 1:\n        m = DiscreteUniform({lo}, {hi})\n    end\n    w = w + m\nend\n",
               "goals": [{"w": 1}], "settings": {}, "N": 2, "values": {}, "source_vars": ["c", "m", "w"]}
        duB = {"id": "B-du", "text": f"y = {lo}\nz = 0\nwhile true:\n    y = DiscreteUniform({lo}, {hi})\n    if y == {hi}:\n        z = z + 1\n    end\nend\n",
               "goals": [{"z": 1}, {"y": 1, "z": 1}], "settings": {}, "N": 3, "values": {}, "source_vars": ["y", "z"]}
        out.append({"id": f"scn-drawdefault-{cs}", "scenario": {
            "ref": {"jobs": [duB], "pick": ["job", 0]},
            "alts": [{"label": "after a program with the same DiscreteUniform draw inside a branch", "hashseed": 0, "jobs": [duA, duB], "pick": ["job", 1]}]},
            "features": ["scenario:conditional-draw-then-same-draw"], "text": duB["text"]})
        # (x) --invariants over several benchmarks in one invocation, one probabilistic (identifier E(x)) and one deterministic (identifier x)
        m1, m2 = r.choice([(2, 6), (3, 5), (2, 4)])
        iA = f"x = 1\ny = 1\nwhile true:\n    x = {m1}*x {{1/2}} {m2}*x\n    y = 2*y\nend\n"
        iB = f"x = 1\ny = 1\nwhile true:\n    x = 2*x\n    y = 4*y\nend\n"
        out.append({"id": f"scn-cliinv-{cs}", "scenario": {
            "ref": {"jobs": [{"id": "cli-inv-single", "cli": {"files": [iB], "goals": ["E(x)", "E(y)"], "invariants": True}}], "pick": ["cli_blocks", 0]},
            "alts": [{"label": "polar.py A.prob B.prob --invariants (A probabilistic, B deterministic)", "hashseed": 0,
                      "jobs": [{"id": "cli-inv-multi", "cli": {"files": [iA, iB], "goals": ["E(x)", "E(y)"], "invariants": True}}], "pick": ["cli_blocks", 1]}]},
            "features": ["scenario:cli-invariants-several-benchmarks"], "text": iB})
        # (ix) two programs that reuse variable names for different roles around functional assignments
        f1 = r.choice(["Sin", "Cos"])
        faA = {"id": "A-fa", "text": f"u = 0\ns = 0\ny = 0\nwhile true:\n    u = Uniform(0, 2)\n    s = {f1}(u)\n    y = y + s\nend\n", "goals": [{"s": 1}, {"y": 1}],
               "settings": {}, "N": 2, "values": {}, "source_vars": ["u", "s", "y"]}
        faB = {"id": "B-fa", "text": f"x = 0\nu = 0\ns = 0\ny = 0\nwhile true:\n    x = Normal(0, 1)\n    u = Uniform(0, 1)\n    s = {f1}(x)\n    y = y + s + u\nend\n",
               "goals": [{"s": 1}, {"s": 2}, {"y": 1}], "settings": {}, "N": 2, "values": {}, "source_vars": ["x", "u", "s", "y"]}
        out.append({"id": f"scn-funcnames-{cs}", "scenario": {
            "ref": {"jobs": [faB], "pick": ["job", 0]},
            "alts": [{"label": "after a program in which s is a function of the draw u", "hashseed": 0, "jobs": [faA, faB], "pick": ["job", 1]}]},
            "features": ["scenario:functional-variable-names-reused"], "text": faB["text"]})
        out.append({"id": f"scn-funcmode-b-{cs}", "scenario": {
            "ref": {"jobs": [fR], "pick": ["job", 0]},
            "alts": [{"label": "rounded mode after the same program in exact mode", "hashseed": 0, "jobs": [fE, fR], "pick": ["job", 1]}]},
            "features": ["scenario:func-moment-mode-switch"], "text": ftext})
    return out


def run_scenario(case, tier):
    sc = case["scenario"]
    res = {"fingerprint": K.fingerprint(case["id"], case["text"]), "features": case["features"], "events": {}, "violations": [],
           "comparisons": 0, "refusals": [], "extra": {}}
    per = 60 if tier == "quick" else 150

    def pick(out, spec):
        if spec[0] == "job":
            return summary(out[spec[1]])
        blocks = out[0].get("cli_blocks")
        if not isinstance(blocks, list) or len(blocks) <= spec[1]:
            return {"cli_blocks": blocks}
        return {"cli_block": blocks[spec[1]]}
    ref_out, err = run_jobs(sc["ref"]["jobs"], 0, per)
    if ref_out is None:
        res.update(verdict="inconclusive", reason="reference-" + err.split(":")[0])
        return res
    ref = pick(ref_out, sc["ref"]["pick"])
    res["events"]["fresh-process-analysis"] = 1
    done = 0
    for alt in sc["alts"]:
        out, err = run_jobs(alt["jobs"], alt.get("hashseed", 0), per * len(alt["jobs"]))
        if out is None:
            res["extra"]["run-" + err.split(":")[0]] = res["extra"].get("run-" + err.split(":")[0], 0) + 1
            continue
        done += 1
        res["events"]["history-run"] = res["events"].get("history-run", 0) + 1
        got = pick(out, alt["pick"])
        res["comparisons"] += 1
        if got != ref:
            res["violations"].append({"kind": "result-depends-on-history", "key": None, "run": alt["label"],
                                      "detail": f"{alt['label']}: fresh single run gives {json.dumps(ref)[:350]} but here {json.dumps(got)[:350]}"})
    if done == 0:
        res.update(verdict="inconclusive", reason="no-history-run-completed")
        return res
    res["nontrivial"] = True
    res["verdict"] = "violated" if res["violations"] else "held"
    res["sample"] = {"scenario": case["features"][0], "target": case["text"], "histories": [a["label"] for a in sc["alts"]], "reference": ref}
    return res


def run_case(case, tier):
    if "scenario" in case:
        return run_scenario(case, tier)
    A = case["target"]
    res = {"fingerprint": K.fingerprint(A["text"], A["goals"], [o["id"] for o in case["others"]]), "features": case["features"],
           "events": {}, "violations": [], "comparisons": 0, "refusals": [], "extra": {}}
    per = 25 if tier == "quick" else 90
    ref, err = run_jobs([A], 0, per)
    if ref is None:
        res.update(verdict="inconclusive", reason="reference-" + err.split(":")[0])
        return res
    ref = ref[0]
    res["events"]["fresh-process-analysis"] = 1
    if ref.get("refusal"):
        res["refusals"].append(ref.get("refusal_where", ref["refusal"]))
    Ap = dict(A)
    Ap["goal_order"] = case["perm"]
    runs = [
        ("repeated [A, A]", [A, A], 0, -1),
        ("after history " + ",".join(o["id"] for o in case["others"]), case["others"] + [A], 0, -1),
        ("goal order " + str(case["perm"]), [Ap], 0, -1),
        ("PYTHONHASHSEED=1", [A], 1, -1),
        ("PYTHONHASHSEED=2 after history", case["others"][:2] + [A], 2, -1),
        ("PYTHONHASHSEED=3", [A], 3, -1),
    ]
    if tier == "quick":
        # fewer interpreters on the quick tier: goal order and hash seed are varied together
        runs = [runs[0], runs[1], ("goal order " + str(case["perm"]) + " with PYTHONHASHSEED=1", [Ap], 1, -1), runs[4]]
    completed = 0
    for label, jobs, hs, idx in runs:
        out, err = run_jobs(jobs, hs, min(per * len(jobs), 60 if tier == "quick" else 400))
        if out is None:
            res["extra"]["run-" + err.split(":")[0]] = res["extra"].get("run-" + err.split(":")[0], 0) + 1
            continue
        completed += 1
        res["events"]["history-run"] = res["events"].get("history-run", 0) + 1
        alt = out[idx]
        res["comparisons"] += 1 + len(ref.get("goals") or {})
        d = diff(summary(ref), summary(alt))
        if d:
            hostile = any(f.startswith("hostile-generated-name") for f in case["features"])
            res["violations"].append({"kind": "result-depends-on-" + ("hash-seed" if label.startswith("PYTHONHASHSEED") and "history" not in label else
                                                                       "goal-order" if label.startswith("goal order") else "history"),
                                      "key": "user-identifier-collides-with-generated-name" if hostile else None, "run": label,
                                      "detail": f"{label}: " + "; ".join(d)[:700] + f" | globals changed by the preceding analyses: {json.dumps([o.get('globals_changed') for o in out[:-1]])[:300]}"})
    if completed == 0:
        res.update(verdict="inconclusive", reason="no-history-run-completed")
        return res
    if ref.get("synth") is not None:
        res["nontrivial"] = isinstance(ref["synth"], list) and len(ref["synth"]) >= 2 and completed >= 3
        res["verdict"] = "violated" if res["violations"] else "held"
        res["sample"] = {"target": "synth_inv(non-lin-markov-1, [x,y], deg 2)", "reference": ref["synth"], "histories": [r[0] for r in runs]}
        return res
    res["nontrivial"] = bool(ref.get("goals")) and any("values" in (v or {}) for v in ref["goals"].values()) and completed >= 3
    res["verdict"] = "violated" if res["violations"] else "held"
    res["sample"] = {"target": A["text"], "goals": A["goals"], "histories": [r[0] for r in runs], "reference": summary(ref)["goals"]}
    return res
