"""Observation of the normalization pipeline: the program after each depth-0 pass of normalize_program,
read into the oracle's AST at the moment the pass returns (passes mutate the program in place)."""
from fractions import Fraction

from .. import polar_api as P
from ..hooks import pass_monitor
from ..ref import ir
from ..ref.engine import Engine, Unsupported, CapExceeded, DomainError, AP
from ..ref import laws


class Stage:
    def __init__(self, index, name, ast, types, error=None, extra=None):
        self.index = index
        self.name = name
        self.ast = ast
        self.types = types
        self.error = error
        self.extra = extra or {}


def snapshot(index, name, program):
    try:
        ast = ir.conv_program(program)
        err = None
    except Unsupported as e:
        ast, err = None, str(e)
    try:
        types = ir.read_types(program)
    except Exception as e:  # reading data attributes must not fail; if it does the stage is unusable
        types = {}
        err = err or f"types unreadable: {e}"
    extra = {}
    try:
        extra["abstracted"] = {str(k): ir.conv_cond(v) for k, v in getattr(program, "abstracted_const_store", {}).items()}
    except Unsupported:
        extra["abstracted"] = None
    extra["original_variables"] = sorted(str(v) for v in getattr(program, "original_variables", []))
    return Stage(index, name, ast, types, err, extra)


def collect_stages(text, settings=None, counts=None):
    """returns (stages, program_or_None, refusal_or_None).  stage 0 = the parsed program."""
    P.set_settings(**(settings or {}))
    stages = []
    try:
        program = P.parse_string(text)
    except Exception as e:
        return stages, None, P.refusal_key(e)
    stages.append(snapshot(0, "Parser", program))

    def cb(i, name, prog):
        stages.append(snapshot(i, name, prog))

    try:
        with pass_monitor(cb, counts):
            program = P.normalize(program)
    except Exception as e:
        return stages, None, P.refusal_key(e)
    return stages, program, None


def aux_inits(stage_ast, source_vars, inits, salt=0):
    """initial values for a stage program: the source variables keep the case's values, auxiliaries get arbitrary ones"""
    from ..lang.ast import program_variables
    out = dict(inits)
    for j, v in enumerate(program_variables(stage_ast)):
        if v not in source_vars:
            out[v] = Fraction(101 + 7 * j + 13 * salt, 17)
    return out


def make_scrambler(source_vars, salt=1):
    """scramble hook for Engine: overwrite every non-source variable with arbitrary values at each boundary"""
    def scramble(eng, dist):
        idx = [(i, v) for v, i in eng.index.items() if v not in source_vars]
        if not idx:
            return dist
        out = {}
        for st, p in dist.items():
            l = list(st)
            for i, v in idx:
                l[i] = Fraction(1009 + 31 * i + 7 * eng.iteration + salt, 19)
            t = tuple(l)
            out[t] = out.get(t, 0) + p
        return out
    return scramble


def run_engine(ast, params, inits, N, max_states, scramble=None, on_value=None):
    eng = Engine(ast, params, inits, max_states=max_states, scramble=scramble, on_value=on_value)
    dists = eng.run(N)
    return eng, dists


def abstraction_params(stage, source_eng_factory):
    """values for _prob symbols of abstracted conditions: not supported yet (returns None => stage inconclusive)"""
    return None
