"""C11 — central moments, cumulants, tail bounds and expansions match the exact law.

Three case kinds:
  conv  raw_moments_to_centrals / raw_moments_to_cumulants / comb on exact raw moments of random finite laws
        (oracle: central moments by definition, cumulants by the set-partition formula, math.comb)
  prog  small probabilistic loop programs through GoalsAction.handle_central_moment_goal / handle_cumulant_goal /
        handle_tail_bound_upper_goal / handle_tail_bound_lower_goal (return values + printed blocks) and through the
        real CLI (polar.main --goals ... --at_n k); oracle: the exact joint law from the reference engine
  exp   GramCharlierExpansion(cumulants)() (integral and raw moments by exact Gaussian integration) and
        CornishFisherExpansion(cumulants)() (unique formal expansion derived from its defining property +
        the published Abramowitz-Stegun 26.2.49-51 polynomials)
"""
import io
import math
import os
import re
import tempfile
from contextlib import redirect_stdout
from fractions import Fraction as F

from .. import polar_api as P
from ..gen import cumulants as CG
from . import common as K

ID = "C11"
RULE = ("cases = (conv) random finite laws with rational probabilities -> exact raw moments -> Polar's raw->central / "
        "raw->cumulant conversions at orders 1..10 (two-point laws up to order 70) and comb(n,k) for n<=80; (prog) 24 program "
        "templates with random constants + generated discrete/guarded programs, one monomial, goals c_k, k_k (k<=4 quick, "
        "<=6 thorough), 'P(M >= a) <= ?' with 1..4 Markov moments, 'P(M > a) >= ?', evaluated at every n=0..N via the real "
        "goal handlers / printed CLI blocks; (exp) random rational cumulant vectors of length 0..6 (8 thorough) for "
        "Gram-Charlier and Cornish-Fisher.  non-trivial = a non-degenerate law (>= 2 support points) / a probabilistic "
        "program with >= 1 goal compared / a cumulant vector with a non-zero cumulant of order >= 3; distinct = distinct "
        "(kind, inputs) fingerprints")
ASSUMPTIONS = [
    "language semantics as implemented in polarmon/ref/engine.py (exact forward propagation, rational arithmetic)",
    "central moments are E[(X-mu)^k] (so the first central moment is 0); cumulants are given by the set-partition "
    "(Moebius inversion) formula kappa_n = sum_pi (-1)^(|pi|-1) (|pi|-1)! prod_B m_|B|",
    "tail bounds are only checked at iterations n where the printed assumption (M >= 0, resp. M - a >= 0) holds on the "
    "whole reachable support at n; a lower bound that evaluates to nan because M = a almost surely is skipped",
    "Gram-Charlier: the returned expression divided by the N(kappa1, kappa2) density is a polynomial; integrals over R "
    "are computed from Gaussian moments",
    "'the standard' Cornish-Fisher expansion for L cumulants = the unique polynomial w(z) = z + sum_{k<=L-2} xi_k(z) "
    "(xi_k of adjustment order k, i.e. of weight eps^k when kappa_r = eps^(r-2) g_r sigma^r) such that the cumulants of "
    "mu + sigma*w(Z) agree with the given ones modulo eps^(L-1); equals Abramowitz-Stegun 26.2.49 for L <= 6",
    "sympy evaluates Polar's returned expressions correctly at integer n / substitutes erfinv(2p-1) -> z/sqrt(2) correctly",
]
TIMEOUT = {"quick": 60, "thorough": 150}
DEADLINE = {"quick": 100, "thorough": 1000}
MIN_DECIDING = {"quick": 120, "thorough": 1200}
NCASES = {"quick": (150, 46, 30), "thorough": (3000, 360, 600)}   # conv, prog, exp


# =================================================================== generation
def generate(seed, tier):
    n_conv, n_prog, n_exp = NCASES[tier]
    cases = []
    cases += CG.conversion_cases(lambda i: K.harness_seed(seed, ID, i), n_conv, tier)
    for i in range(n_prog):
        cs = K.harness_seed(seed, ID, 100000 + i)
        n_tpl = len(CG.TEMPLATES)
        if i < n_tpl or i % 3 != 2:
            cases.append(CG.template_case(cs, tier, i))
        else:
            cases.append(CG.generated_case(cs, tier, i))
    cases += CG.expansion_cases(lambda i: K.harness_seed(seed, ID, 200000 + i), n_exp, tier)
    # interleave the kinds so that a deadline cut keeps the mix
    count, seen, keyed = {}, {}, []
    for c in cases:
        count[c["kind"]] = count.get(c["kind"], 0) + 1
    for j, c in enumerate(cases):
        i = seen.get(c["kind"], 0)
        seen[c["kind"]] = i + 1
        keyed.append((F(i, count[c["kind"]]), j))
    keyed.sort()
    return [cases[j] for _, j in keyed]


def worker_init(tier):
    P.load()


# =================================================================== independent maths (oracle side)
def int_partitions(n, max_part=None):
    """integer partitions of n as non-increasing lists"""
    if max_part is None or max_part > n:
        max_part = n
    if n == 0:
        yield []
        return
    for first in range(max_part, 0, -1):
        for rest in int_partitions(n - first, first):
            yield [first] + rest


def n_set_partitions(parts):
    """number of set partitions of {1..n} whose block sizes are the multiset `parts`"""
    n = sum(parts)
    c = math.factorial(n)
    for s in parts:
        c //= math.factorial(s)
    mult = {}
    for s in parts:
        mult[s] = mult.get(s, 0) + 1
    for m in mult.values():
        c //= math.factorial(m)
    return c


def cumulants_from_moments(m, one=F(1)):
    """m: dict j -> E[X^j] for j=1..K (elements of a commutative ring with Fraction scalars).  Set-partition formula."""
    Kmax = len(m)
    out = {}
    for n in range(1, Kmax + 1):
        tot = None
        for parts in int_partitions(n):
            b = len(parts)
            coef = F((-1) ** (b - 1) * math.factorial(b - 1) * n_set_partitions(parts))
            prod = one
            for s in parts:
                prod = prod * m[s]
            term = prod * coef
            tot = term if tot is None else tot + term
        out[n] = tot
    return out


def moments_from_cumulants(kap, upto=None):
    """kap: dict r -> kappa_r (r=1..L); returns dict j -> E[X^j] for j=0..upto (cumulants beyond L never needed for j<=L)"""
    L = len(kap)
    upto = L if upto is None else upto
    out = {0: F(1)}
    for n in range(1, upto + 1):
        tot = F(0)
        for parts in int_partitions(n):
            prod = F(n_set_partitions(parts))
            for s in parts:
                prod *= kap[s]
            tot += prod
        out[n] = tot
    return out


def law_raw_moment(law, j):
    return sum((p * v ** j for v, p in law), F(0))


def law_central_moment(law, k):
    mu = law_raw_moment(law, 1)
    return sum((p * (v - mu) ** k for v, p in law), F(0))


def centrals_from_raw(m, k):
    """E[(X-mu)^k] from raw moments by binomial expansion (used only when the law is not available as a finite table)"""
    mu = m[1]
    tot = 0
    for j in range(k + 1):
        mj = m[j] if j > 0 else 1
        tot = tot + math.comb(k, j) * mj * (-mu) ** (k - j)
    return tot


def bernoulli_cumulant_polys(upto):
    """cumulants of Bernoulli(p) as polynomials in p (coefficient lists), via kappa_{n+1} = p(1-p) d kappa_n / dp"""
    polys = {1: [F(0), F(1)]}
    for n in range(1, upto):
        c = polys[n]
        d = [c[i] * i for i in range(1, len(c))] or [F(0)]
        # multiply by p - p^2
        res = [F(0)] * (len(d) + 2)
        for i, a in enumerate(d):
            res[i + 1] += a
            res[i + 2] -= a
        polys[n + 1] = res
    return polys


def poly_eval(coeffs, x):
    tot = F(0)
    for c in reversed(coeffs):
        tot = tot * x + c
    return tot


def gauss_moment(m):
    """E[Z^m], Z standard normal"""
    if m % 2:
        return 0
    r = 1
    for i in range(m - 1, 0, -2):
        r *= i
    return r


def hermite_he(m):
    """probabilists' Hermite polynomial He_m as dict power -> int"""
    a, b = {0: 1}, {1: 1}
    if m == 0:
        return a
    for k in range(1, m):
        # He_{k+1} = z He_k - k He_{k-1}
        nxt = {}
        for pw, c in b.items():
            nxt[pw + 1] = nxt.get(pw + 1, 0) + c
        for pw, c in a.items():
            nxt[pw] = nxt.get(pw, 0) - k * c
        a, b = b, {pw: c for pw, c in nxt.items() if c}
    return b


def normal_raw_moment(mu, s2, m):
    """E[X^m], X ~ N(mu, s2): only even powers of sigma occur"""
    tot = F(0)
    for i in range(0, m // 2 + 1):
        tot += math.comb(m, 2 * i) * mu ** (m - 2 * i) * s2 ** i * gauss_moment(2 * i)
    return tot


class Ser:
    """truncated power series in eps with Fraction coefficients"""
    __slots__ = ("c",)

    def __init__(self, c):
        self.c = list(c)

    def __add__(self, o):
        return Ser([a + b for a, b in zip(self.c, o.c)])

    def __mul__(self, o):
        T = len(self.c)
        if isinstance(o, Ser):
            r = [F(0)] * T
            for i, a in enumerate(self.c):
                if a:
                    for j in range(T - i):
                        if o.c[j]:
                            r[i + j] += a * o.c[j]
            return Ser(r)
        return Ser([a * o for a in self.c])


def bp_mul(a, b, T):
    """product of polynomials in (eps, z) given as dict (i, j) -> Fraction, truncated at eps^T"""
    r = {}
    for (i1, j1), c1 in a.items():
        for (i2, j2), c2 in b.items():
            if i1 + i2 < T:
                key = (i1 + i2, j1 + j2)
                r[key] = r.get(key, 0) + c1 * c2
    return {k: v for k, v in r.items() if v}


def gaussian_poly_cumulants(w, upto, T):
    """cumulants 1..upto of w(Z) (w a dict (i,j)->coef in eps^i z^j, Z ~ N(0,1)) as Ser truncated at eps^T"""
    moms = {}
    cur = {(0, 0): F(1)}
    for j in range(1, upto + 1):
        cur = bp_mul(cur, w, T)
        s = [F(0)] * T
        for (i, pw), c in cur.items():
            s[i] += c * gauss_moment(pw)
        moms[j] = Ser(s)
    one = Ser([F(1)] + [F(0)] * (T - 1))
    return cumulants_from_moments(moms, one=one)


def cornish_fisher_standard(g, L):
    """The formal Cornish-Fisher expansion for standardized cumulants g[r] (r=3..L) with kappa_r = eps^(r-2) g_r:
    returns w as dict (i, j) -> Fraction (coefficient of eps^i z^j), i <= L-2, built order by order from the defining
    property  kappa_r(w(Z)) = [r==2] + eps^(r-2) g_r  (mod eps^(L-1)),  r = 1..L.
    The order-k term xi_k = sum_m b_m He_m(z) changes kappa_r at order eps^k by r! b_{r-1}."""
    T = max(L - 1, 1)
    w = {(0, 1): F(1)}
    for k in range(1, L - 1):
        kap = gaussian_poly_cumulants(w, k + 2, T)
        for r in range(1, k + 3):
            target = g[r] if r - 2 == k else F(0)
            b = (target - kap[r].c[k]) / math.factorial(r)
            if b:
                for pw, c in hermite_he(r - 1).items():
                    w[(k, pw)] = w.get((k, pw), 0) + b * c
        w = {kk: v for kk, v in w.items() if v}
    return w


# Abramowitz & Stegun 26.2.49-51 in Hermite form: (exponents of gamma1..gamma4) -> {m: coefficient of He_m}
AS_TABLE = {
    (1, 0, 0, 0): {2: F(1, 6)},
    (0, 1, 0, 0): {3: F(1, 24)},
    (2, 0, 0, 0): {3: F(-2, 36), 1: F(-1, 36)},
    (0, 0, 1, 0): {4: F(1, 120)},
    (1, 1, 0, 0): {4: F(-1, 24), 2: F(-1, 24)},
    (3, 0, 0, 0): {4: F(12, 324), 2: F(19, 324)},
    (0, 0, 0, 1): {5: F(1, 720)},
    (0, 2, 0, 0): {5: F(-3, 384), 3: F(-6, 384), 1: F(-2, 384)},
    (1, 0, 1, 0): {5: F(-2, 180), 3: F(-3, 180)},
    (2, 1, 0, 0): {5: F(14, 288), 3: F(37, 288), 1: F(8, 288)},
    (4, 0, 0, 0): {5: F(-252, 7776), 3: F(-832, 7776), 1: F(-227, 7776)},
}


def cornish_fisher_table(g, L):
    """w(z) as dict power -> Fraction from the published polynomials, adjustment orders <= L-2 (L <= 6)"""
    gam = [g.get(3, F(0)), g.get(4, F(0)), g.get(5, F(0)), g.get(6, F(0))]
    w = {1: F(1)}
    for exps, herm in AS_TABLE.items():
        order = sum((i + 1) * e for i, e in enumerate(exps))
        if order > L - 2:
            continue
        coef = F(1)
        for gi, e in zip(gam, exps):
            coef *= gi ** e
        for m, c in herm.items():
            for pw, hc in hermite_he(m).items():
                w[pw] = w.get(pw, 0) + coef * c * hc
    return {k: v for k, v in w.items() if v}


# =================================================================== helpers
SOFT_BUDGET = {"quick": 30, "thorough": 90}   # seconds per program case (below the watchdog, keeps the worker alive)


class _SoftTimeout(BaseException):
    pass


class _soft_budget:
    """SIGALRM based budget (main thread only; silently inactive elsewhere)"""

    def __init__(self, seconds):
        self.seconds = seconds
        self.active = False

    def __enter__(self):
        import signal
        import threading
        if threading.current_thread() is threading.main_thread() and hasattr(signal, "setitimer"):
            def handler(signum, frame):
                raise _SoftTimeout()
            self.old = signal.signal(signal.SIGALRM, handler)
            signal.setitimer(signal.ITIMER_REAL, self.seconds)
            self.active = True
        return self

    def __exit__(self, *exc):
        if self.active:
            import signal
            signal.setitimer(signal.ITIMER_REAL, 0)
            signal.signal(signal.SIGALRM, self.old)
        return False


def to_sym(x):
    import sympy
    x = F(x)
    return sympy.Rational(x.numerator, x.denominator)


def sym_to_frac(v):
    """exact Fraction of a sympy/symengine number, or None"""
    import sympy
    v = sympy.sympify(v)
    if v.is_Rational:
        return F(int(v.p), int(v.q))
    v = sympy.nsimplify(sympy.expand(v)) if v.is_number and not v.has(sympy.Float) else v
    if v.is_Rational:
        return F(int(v.p), int(v.q))
    return None


def _base(case):
    return {"fingerprint": case["id"], "features": [], "events": {}, "violations": [], "comparisons": 0, "refusals": [],
            "nontrivial": False}


def _ev(res, name, k=1):
    res["events"][name] = res["events"].get(name, 0) + k


def _finish(res):
    res["verdict"] = "violated" if res["violations"] else "held"
    return res


def run_case(case, tier):
    kind = case["kind"]
    if kind == "conv":
        return run_conv(case, tier)
    if kind == "prog":
        from ..ref.engine import CapExceeded
        try:
            with _soft_budget(SOFT_BUDGET[tier]):
                return run_prog(case, tier)
        except CapExceeded as e:     # the reference engine gave up while computing a high moment
            res = _base(case)
            res.update(verdict="inconclusive", reason="oracle-cap", detail=str(e)[:80], features=list(case.get("features", [])))
            return res
        except _SoftTimeout:
            P.reset_settings()
            res = _base(case)
            res.update(verdict="inconclusive", reason="timeout", detail=f"soft budget {SOFT_BUDGET[tier]} s",
                       features=list(case.get("features", [])))
            return res
    if kind == "exp":
        return run_exp(case, tier)
    raise ValueError(kind)


# =================================================================== kind 1: conversion functions
def run_conv(case, tier):
    import sympy
    from utils import statistics as S
    res = _base(case)
    sub = case["sub"]
    res["features"].append("conv-" + sub)
    if sub == "comb":
        rows = []
        for n, k in case["pairs"]:
            try:
                got = S.comb(n, k)
                _ev(res, "utils.statistics.comb")
            except Exception as e:
                res["refusals"].append(P.refusal_key(e))
                continue
            want = math.comb(n, k)
            res["comparisons"] += 1
            if 0 < k < n:
                res["nontrivial"] = True
            if got != want or isinstance(got, bool) or not isinstance(got, int):
                key = None
                if want > 2 ** 53 and abs(got - want) * 2 ** 52 <= want:
                    key = "comb-float-division-inexact"
                res["violations"].append({"kind": "wrong-binomial", "key": key, "n": n, "k": k,
                                          "detail": f"comb({n},{k}) = {got}, exact binomial = {want} (diff {got - want})"})
            rows.append(f"comb({n},{k})={got}")
        res["fingerprint"] = K.fingerprint("comb", case["pairs"])
        res["sample"] = {"kind": "comb", "rows": rows[:6]}
        if not res["comparisons"]:
            res.update(verdict="inconclusive", reason="refused")
            return res
        return _finish(res)

    if sub == "highorder":
        order = case["order"]
        p, a, b = CG.fd(case["p"]), CG.fd(case["a"]), CG.fd(case["b"])
        law = [(a, 1 - p), (a + b, p)]
        what = case["what"]
    else:
        order = case["order"]
        law = [(CG.fd(v), CG.fd(pr)) for v, pr in case["law"]]
        what = sub
    raw = {j: law_raw_moment(law, j) for j in range(1, order + 1)}
    moments = {j: to_sym(raw[j]) for j in range(1, order + 1)}
    tsym = None
    if case.get("symbolic"):
        # moments as sympy expressions in a symbol (value substituted afterwards): m_j * t**j is the j-th moment of t*X
        tsym = sympy.Symbol("t")
        moments = {j: moments[j] * tsym ** j for j in moments}
        res["features"].append("conv-symbolic-scale")
    res["fingerprint"] = K.fingerprint(sub, case.get("law"), case.get("order"), case.get("p"), case.get("a"), case.get("b"),
                                       case.get("what"), bool(tsym))
    try:
        if what == "centrals":
            got = S.raw_moments_to_centrals(dict(moments))
            _ev(res, "raw_moments_to_centrals")
        else:
            got = S.raw_moments_to_cumulants(dict(moments))
            _ev(res, "raw_moments_to_cumulants")
    except Exception as e:
        res.update(verdict="inconclusive", reason="refused", refusal=P.refusal_key(e))
        return res
    # oracle
    if what == "centrals":
        want = {k: law_central_moment(law, k) for k in range(1, order + 1)}
    elif sub == "highorder":
        polys = bernoulli_cumulant_polys(order)
        want = {1: a + b * p}
        for k in range(2, order + 1):
            want[k] = b ** k * poly_eval(polys[k], p)
    else:
        want = cumulants_from_moments(raw)
    if set(got.keys()) != set(range(1, order + 1)):
        res["violations"].append({"kind": "missing-orders", "key": None,
                                  "detail": f"returned orders {sorted(got.keys())}, expected 1..{order}"})
    mean = raw[1]
    tval = F(3, 2)
    rows = []
    for k in sorted(got.keys()):
        if k not in want:
            continue
        gv = sympy.sympify(got[k])
        scale = F(1)
        if tsym is not None:
            gv = gv.subs(tsym, to_sym(tval))
            scale = tval ** k
        gf = sym_to_frac(gv)
        if gf is None:
            res["violations"].append({"kind": "not-a-rational", "key": None, "k": k, "detail": f"order {k}: {gv}"})
            continue
        res["comparisons"] += 1
        wv = want[k] * scale
        if gf != wv:
            key = None
            kindv = "wrong-central-moment" if what == "centrals" else "wrong-cumulant"
            if what == "centrals" and k == 1 and gf == mean * scale and mean != 0:
                key = "central-moment-1-is-mean"
            elif k >= 2 and any(S.comb(i, j) != math.comb(i, j) for i in range(k + 1) for j in range(i + 1)):
                key = "comb-float-division-inexact"
            res["violations"].append({"kind": kindv, "key": key, "k": k,
                                      "detail": f"{what}[{k}] of law {law_str(law)}: polar={gf} exact={wv}"})
            if len(res["violations"]) >= 4:
                break
        if len(rows) < 4:
            rows.append({"k": k, "polar": str(gf), "exact": str(wv)})
    res["nontrivial"] = len(law) >= 2 and order >= 2
    res["sample"] = {"kind": what, "law": law_str(law), "order": order, "rows": rows}
    return _finish(res)


def law_str(law):
    return "{" + ", ".join(f"{v}:{p}" for v, p in law[:8]) + "}"


# =================================================================== kind 2: program level
_ANSI = re.compile(r"\x1b\[[0-9;]*m")
_RE_CK_AT = re.compile(r"^(?P<t>[ck])(?P<k>\d+)\((?P<m>.*) \| n=(?P<n>\d+)\) = (?P<v>.*) ≅ (?P<f>.*)$")
_RE_CK = re.compile(r"^(?P<t>[ck])(?P<k>\d+)\((?P<m>.*)\) = (?P<v>.*)$")
_RE_UP_AT_MIN = re.compile(r"^P\((?P<m>.*) >= (?P<a>.*) \| n=(?P<n>\d+)\) <= minimum of$")
_RE_UP_AT = re.compile(r"^P\((?P<m>.*) >= (?P<a>.*) \| n=(?P<n>\d+)\) <= (?P<v>.*) ≅ (?P<f>.*)$")
_RE_UP = re.compile(r"^P\((?P<m>.*) >= (?P<a>.*)\) <= minimum of$")
_RE_LO_AT = re.compile(r"^P\((?P<m>.*) > (?P<a>.*) \| n=(?P<n>\d+)\) >= (?P<v>.*) ≅ (?P<f>.*)$")
_RE_LO = re.compile(r"^P\((?P<m>.*) > (?P<a>.*)\) >= (?P<v>.*)$")
_RE_ITEM = re.compile(r"^\s+\((?P<i>\d+)\) (?P<v>.*)$")
_RE_ASSUME = re.compile(r"^Assuming (?P<e>.*) is non-negative\.$")


def parse_blocks(text):
    """goal blocks printed by GoalsAction (central/cumulant/upper/lower), in order of appearance"""
    blocks = []
    cur = None
    mode = None
    assume = None
    for raw in text.splitlines():
        line = _ANSI.sub("", raw).rstrip()
        if not line.strip():
            continue
        m = _RE_ASSUME.match(line)
        if m:
            assume = m.group("e")
            continue
        m = _RE_CK_AT.match(line)
        if m and cur is not None and cur["type"] in ("central", "cumulant"):
            cur["at_n"] = (int(m.group("n")), m.group("v"), m.group("f"))
            continue
        m = _RE_CK.match(line)
        if m and " | n=" not in m.group("m"):
            cur = {"type": "central" if m.group("t") == "c" else "cumulant", "k": int(m.group("k")), "monom": m.group("m"),
                   "formula": m.group("v"), "is_exact": None}
            blocks.append(cur)
            mode = None
            continue
        m = _RE_UP_AT_MIN.match(line)
        if m and cur is not None and cur["type"] == "upper":
            cur["at_n_list"] = (int(m.group("n")), [])
            mode = "at"
            continue
        m = _RE_UP_AT.match(line)
        if m and cur is not None and cur["type"] == "upper":
            cur["at_n"] = (int(m.group("n")), m.group("v"), m.group("f"))
            continue
        m = _RE_UP.match(line)
        if m:
            cur = {"type": "upper", "monom": m.group("m"), "a": m.group("a"), "bounds": [], "is_exact": None, "assume": assume}
            blocks.append(cur)
            mode = "bounds"
            assume = None
            continue
        m = _RE_LO_AT.match(line)
        if m and cur is not None and cur["type"] == "lower":
            cur["at_n"] = (int(m.group("n")), m.group("v"), m.group("f"))
            continue
        m = _RE_LO.match(line)
        if m and " | n=" not in m.group("m"):
            cur = {"type": "lower", "monom": m.group("m"), "a": m.group("a"), "formula": m.group("v"), "is_exact": None,
                   "assume": assume}
            blocks.append(cur)
            mode = None
            assume = None
            continue
        m = _RE_ITEM.match(line)
        if m and cur is not None and cur["type"] == "upper":
            if mode == "bounds":
                cur["bounds"].append(m.group("v"))
            elif mode == "at":
                cur["at_n_list"][1].append(m.group("v").split(" ≅ ")[0])
            continue
        if line.strip() == "Solution is exact" and cur is not None:
            cur["is_exact"] = True
            continue
        if line.strip() == "Solution is rounded" and cur is not None:
            cur["is_exact"] = False
            continue
    return blocks


class Formula:
    """'v0; v1; ...; general' as printed by cli.common.prettify_piecewise"""

    def __init__(self, text):
        import sympy
        self.text = text
        nsym = sympy.Symbol("n", integer=True)
        parts = [p.strip() for p in text.split(";")]
        self.parts = [sympy.sympify(p, locals={"n": nsym}) for p in parts]

    def at(self, n, values):
        ex = self.parts[n] if n < len(self.parts) - 1 else self.parts[-1]
        return P.eval_at(ex, n, values)


def goal_string(goal, mstr, compact=False):
    t = goal["type"]
    if t == "central":
        return f"c{goal['k']}({mstr})"
    if t == "cumulant":
        return f"k{goal['k']}({mstr})"
    a = CG.fs(CG.fd(goal["a"]))
    if t == "upper":
        return f"P({mstr}>={a})<=?" if compact else f"P({mstr} >= {a}) <= ?"
    return f"P({mstr}>{a})>=?" if compact else f"P({mstr} > {a}) >= ?"


class ProgOracle:
    """exact law of the monomial M at n = 0..N"""

    def __init__(self, case, tier):
        from ..lang.ast import Program
        from ..lang.parser import parse_program
        from ..ref.engine import Engine
        self.case = case
        self.prog = Program.from_json(case["ast"]) if case.get("ast") else parse_program(case["text"])
        self.params = {k: CG.fd(v) for k, v in case["params"].items()}
        self.inits = {k: CG.fd(v) for k, v in case["inits"].items()}
        self.N = case["N"]
        self.monom = case["monom"]
        self.eng = Engine(self.prog, self.params, self.inits, max_states=20000 if tier == "quick" else 100000)
        self.dists = self.eng.run(self.N)
        self.discrete = all(self.eng.is_discrete_dist(d) for d in self.dists)
        self.laws = None
        if self.discrete:
            self.laws = []
            for d in self.dists:
                law = {}
                for st, pr in d.items():
                    v = F(1)
                    for var, pw in self.monom.items():
                        v *= st[self.eng.index[var]] ** pw
                    law[v] = law.get(v, 0) + pr
                self.laws.append(sorted(law.items()))
        self._raw = {}

    def raw(self, n, j):
        if (n, j) not in self._raw:
            if self.laws is not None:
                self._raw[(n, j)] = law_raw_moment(self.laws[n], j)
            else:
                self._raw[(n, j)] = self.eng.moment(self.dists[n], {v: pw * j for v, pw in self.monom.items()})
        return self._raw[(n, j)]

    def central(self, n, k):
        if self.laws is not None:
            return law_central_moment(self.laws[n], k)
        return centrals_from_raw({j: self.raw(n, j) for j in range(1, k + 1)}, k)

    def cumulant(self, n, k):
        return cumulants_from_moments({j: self.raw(n, j) for j in range(1, k + 1)})[k]

    def scale(self, n, k):
        """size of the largest product of raw moments of total order k (the terms that cancel in c_k / kappa_k)"""
        return max(abs(float(self.raw(n, j))) ** (k / j) for j in range(1, k + 1))

    def p_ge(self, n, a):
        return sum((p for v, p in self.laws[n] if v >= a), F(0))

    def p_gt(self, n, a):
        return sum((p for v, p in self.laws[n] if v > a), F(0))

    def min_value(self, n):
        return self.laws[n][0][0]


def run_prog(case, tier):
    import sympy
    res = _base(case)
    res["features"] = list(case.get("features", [])) + ["prog-" + case["src"]] + (["prog-cli"] if case.get("cli") else [])
    res["fingerprint"] = K.fingerprint(case["text"], case["monom"], case["goals"], case["params"], case["inits"], case.get("cli"))
    from ..ref.engine import Unsupported, CapExceeded, DomainError
    from ..ref import laws as RL
    from ..lang.parser import ParseError
    try:
        orc = ProgOracle(case, tier)
    except Unsupported as e:
        res.update(verdict="inconclusive", reason="oracle-unsupported", detail=str(e)[:80])
        return res
    except CapExceeded as e:
        res.update(verdict="inconclusive", reason="oracle-cap", detail=str(e)[:80])
        return res
    except (DomainError, RL.Divergent) as e:
        res.update(verdict="inconclusive", reason="program-ill-defined", detail=str(e)[:80])
        return res
    values = K.symbol_values(orc.params, orc.inits)
    mstr = P.monom_str(case["monom"])
    goals = case["goals"]
    gstrs = [goal_string(g, mstr, case.get("compact", False)) for g in goals]
    N = case["N"]
    P.reset_settings()

    observations = []   # (goal index, block dict, extra) from either path
    direct_exprs = {}
    if case.get("cli"):
        upper = [g for g in goals if g["type"] == "upper"]
        Kmom = upper[0]["K"] if upper else 2
        with tempfile.NamedTemporaryFile("w", suffix=".prob", delete=False, dir=tempfile.gettempdir()) as f:
            f.write(case["text"])
            path = f.name
        try:
            argv = [path, "--goals"] + gstrs + ["--at_n", str(case["at_n"]), "--tail_bound_moments", str(Kmom)]
            try:
                out = P.run_cli(argv)
                _ev(res, "polar.main")
            except SystemExit:
                res.update(verdict="inconclusive", reason="refused", refusal="SystemExit@cli")
                return res
            except Exception as e:
                res.update(verdict="inconclusive", reason="refused", refusal="cli:" + P.refusal_key(e))
                return res
        finally:
            os.unlink(path)
            P.reset_settings()
        blocks = parse_blocks(out)
        if len(blocks) != len(goals) or any(b["type"] != g["type"] for b, g in zip(blocks, goals)):
            raise RuntimeError(f"could not match printed blocks to goals: {[b['type'] for b in blocks]} vs {[g['type'] for g in goals]}\n{out[-1500:]}")
        for i, b in enumerate(blocks):
            observations.append((i, b))
    else:
        from cli import ArgumentParser
        from cli.actions.goals_action import GoalsAction
        from inputparser import GoalParser
        try:
            program, rb = P.prepare(case["text"])
            _ev(res, "normalize_program")
        except Exception as e:
            res.update(verdict="inconclusive", reason="refused", refusal=P.refusal_key(e))
            return res
        args = ArgumentParser().get_defaults()
        P.reset_settings()
        act = GoalsAction(args)
        act.initialize_program(program, rb)
        for i, (g, gs) in enumerate(zip(goals, gstrs)):
            try:
                gtype, gdata = GoalParser.parse(gs)
                _ev(res, "GoalParser.parse")
            except Exception as e:
                res["refusals"].append(P.refusal_key(e))
                continue
            buf = io.StringIO()
            try:
                if g["type"] == "central":
                    expr, is_exact = act.handle_central_moment_goal(gdata)
                    _ev(res, "handle_central_moment_goal")
                    direct_exprs[i] = (expr, is_exact)
                    with redirect_stdout(buf):
                        act.print_central_moment_goal(gdata[0], gdata[1], expr, is_exact)
                elif g["type"] == "cumulant":
                    expr, is_exact = act.handle_cumulant_goal(gdata)
                    _ev(res, "handle_cumulant_goal")
                    direct_exprs[i] = (expr, is_exact)
                    with redirect_stdout(buf):
                        act.print_cumulant_goal(gdata[0], gdata[1], expr, is_exact)
                elif g["type"] == "upper":
                    args.tail_bound_moments = g["K"]
                    with redirect_stdout(buf):
                        act.handle_tail_bound_upper_goal(gdata)
                    _ev(res, "handle_tail_bound_upper_goal")
                else:
                    with redirect_stdout(buf):
                        act.handle_tail_bound_lower_goal(gdata)
                    _ev(res, "handle_tail_bound_lower_goal")
            except Exception as e:
                res["refusals"].append(P.refusal_key(e))
                continue
            bl = parse_blocks(buf.getvalue())
            if len(bl) != 1 or bl[0]["type"] != g["type"]:
                raise RuntimeError(f"unexpected printed block for {gs}: {buf.getvalue()[:600]}")
            observations.append((i, bl[0]))

    compared_goals = 0
    rounded = 0
    rows = []
    skipped_assumption = 0
    degenerate = 0
    for i, b in observations:
        g = goals[i]
        gs = gstrs[i]
        if b.get("is_exact") is False:
            rounded += 1
            continue
        before = res["comparisons"]
        if g["type"] in ("central", "cumulant"):
            k = g["k"]
            if b["k"] != k:
                raise RuntimeError(f"block order {b['k']} != goal order {k}")
            if case.get("cli"):
                _ev(res, "printed c/k block")
            ref = [orc.central(n, k) if g["type"] == "central" else orc.cumulant(n, k) for n in range(N + 1)]
            scales = [None if isinstance(ref[n], F) else orc.scale(n, k) for n in range(N + 1)]
            sources = [("printed", Formula(b["formula"]).at)]
            if i in direct_exprs:
                ex = direct_exprs[i][0]
                sources.insert(0, ("returned", lambda n, vals, ex=ex: P.eval_at(ex, n, vals)))
            bad = False
            for sname, fn in sources:
                for n in range(N + 1):
                    v = _safe_eval(fn, n, values, res, g, gs, sname)
                    if v is None:
                        bad = True
                        break
                    res["comparisons"] += 1
                    if not _num_equal(v, ref[n], scales[n]):
                        res["violations"].append(_ck_violation(g, gs, n, v, ref[n], orc, sname, case, values, res))
                        bad = True
                        break
                if bad:
                    break
            if "at_n" in b:
                n_at, vtxt, _ = b["at_n"]
                v = _safe_eval(lambda n, vals: P.eval_at(sympy.sympify(vtxt), None, vals), n_at, values, res, g, gs, "at_n")
                if v is not None:
                    res["comparisons"] += 1
                    if not _num_equal(v, ref[n_at], scales[n_at]) and not bad:
                        res["violations"].append(_ck_violation(g, gs, n_at, v, ref[n_at], orc, "at_n line", case, values, res))
            if len(rows) < 3:
                rows.append({"goal": gs, "printed": b["formula"][:160], "exact_values": [P.val_str(x) for x in ref[:4]]})
        elif g["type"] == "upper":
            if not orc.discrete:
                continue
            a = CG.fd(g["a"])
            if case.get("cli"):
                _ev(res, "printed tail-bound block")
            forms = [Formula(t) for t in b["bounds"]]
            if len(forms) != g["K"]:
                res["violations"].append({"kind": "wrong-number-of-bounds", "key": None, "goal": gs,
                                          "detail": f"{len(forms)} bounds printed, --tail_bound_moments {g['K']}"})
            for n in range(N + 1):
                if orc.min_value(n) < 0:
                    skipped_assumption += 1
                    continue
                pe = orc.p_ge(n, a)
                for j, fm in enumerate(forms):
                    v = _safe_eval(fm.at, n, values, res, g, gs, f"bound ({j + 1})")
                    if v is None:
                        continue
                    res["comparisons"] += 1
                    if _num_less(v, pe):
                        res["violations"].append({"kind": "upper-bound-below-probability", "key": None, "goal": gs, "n": n,
                                                  "detail": f"{gs}: bound ({j + 1}) '{fm.text[:120]}' = {P.val_str(v)} at n={n} "
                                                            f"but exact P(M >= a) = {pe} (M >= 0 holds on the support)"})
            at = b.get("at_n")
            if at is not None and orc.min_value(at[0]) >= 0:
                v = _safe_eval(lambda n, vals: P.eval_at(sympy.sympify(at[1]), None, vals), at[0], values, res, g, gs, "at_n")
                if v is not None:
                    res["comparisons"] += 1
                    pe = orc.p_ge(at[0], a)
                    if _num_less(v, pe):
                        res["violations"].append({"kind": "upper-bound-below-probability", "key": None, "goal": gs, "n": at[0],
                                                  "detail": f"{gs}: printed minimum at n={at[0]} is {P.val_str(v)} < exact {pe}"})
            atl = b.get("at_n_list")
            if atl is not None and orc.min_value(atl[0]) >= 0:
                pe = orc.p_ge(atl[0], a)
                for vt in atl[1]:
                    v = _safe_eval(lambda n, vals: P.eval_at(sympy.sympify(vt), None, vals), atl[0], values, res, g, gs, "at_n")
                    if v is not None:
                        res["comparisons"] += 1
                        if _num_less(v, pe):
                            res["violations"].append({"kind": "upper-bound-below-probability", "key": None, "goal": gs, "n": atl[0],
                                                      "detail": f"{gs}: printed bound at n={atl[0]} is {P.val_str(v)} < exact {pe}"})
            if len(rows) < 3:
                rows.append({"goal": gs, "printed_bounds": [t[:100] for t in b["bounds"]],
                             "exact_P_ge": [str(orc.p_ge(n, a)) for n in range(min(N, 3) + 1)]})
        else:
            if not orc.discrete:
                continue
            a = CG.fd(g["a"])
            if case.get("cli"):
                _ev(res, "printed tail-bound block")
            fm = Formula(b["formula"])
            pts = [(n, fm.at) for n in range(N + 1)]
            if "at_n" in b:
                vt = b["at_n"][1]
                pts.append((b["at_n"][0], lambda n, vals: P.eval_at(sympy.sympify(vt), None, vals)))
            for n, fn in pts:
                if orc.min_value(n) < a:
                    skipped_assumption += 1
                    continue
                pe = orc.p_gt(n, a)
                second = sum((p * (v - a) ** 2 for v, p in orc.laws[n]), F(0))
                try:
                    v = fn(n, values)
                except P.NotANumber as e:
                    if second == 0:
                        degenerate += 1      # M = a almost surely: 0/0
                        continue
                    res["violations"].append({"kind": "not-a-number", "key": None, "goal": gs, "n": n,
                                              "detail": f"{gs}: lower bound at n={n} is {e} although E[(M-a)^2] = {second} != 0"})
                    continue
                except P.Leftover as e:
                    res["violations"].append({"kind": "leftover-symbol", "key": None, "goal": gs, "n": n, "detail": str(e)})
                    break
                res["comparisons"] += 1
                if _num_less(pe, v):
                    res["violations"].append({"kind": "lower-bound-above-probability", "key": None, "goal": gs, "n": n,
                                              "detail": f"{gs}: bound '{fm.text[:160]}' = {P.val_str(v)} at n={n} but exact "
                                                        f"P(M > a) = {pe} (M - a >= 0 holds on the support)"})
            if len(rows) < 3:
                rows.append({"goal": gs, "printed": b["formula"][:160], "exact_P_gt": [str(orc.p_gt(n, a)) for n in range(min(N, 3) + 1)]})
        if res["comparisons"] > before:
            compared_goals += 1

    # the cumulant vector fed to the expansions (cli.common.get_all_cumulants at --at_n)
    if case.get("cli") and compared_goals:
        try:
            _check_all_cumulants(case, orc, values, res)
        except _Refused as e:
            res["refusals"].append(e.key)

    res["extra"] = {"tail_points_skipped_assumption_fails": skipped_assumption, "lower_bound_degenerate_nan": degenerate,
                    "goals_rounded": rounded}
    if compared_goals == 0:
        reason = "rounded" if rounded else ("refused" if res["refusals"] else "nothing-comparable")
        res.update(verdict="inconclusive", reason=reason, refusal=(res["refusals"] or [None])[0])
        return res
    res["nontrivial"] = K.has_draw_or_choice(orc.prog) and any(len(l) > 1 for l in (orc.laws or [[0, 1]]))
    res["sample"] = {"program": case["text"], "monomial": mstr, "values": {k: str(v) for k, v in values.items()}, "goals": rows}
    return _finish(res)


class _Refused(Exception):
    def __init__(self, key):
        super().__init__(key)
        self.key = key


def _check_all_cumulants(case, orc, values, res):
    """cli.common.get_all_cumulants(program, monom, order, args(at_n)) is what the expansion actions feed to the expansions"""
    from cli import ArgumentParser
    from cli.common import get_all_cumulants
    from symengine.lib.symengine_wrapper import sympify as se_sympify
    order = 3
    n_at = case["at_n"]
    try:
        program, rb = P.prepare(case["text"])
        args = ArgumentParser().get_defaults()
        P.reset_settings()
        args.at_n = n_at
        cums = get_all_cumulants(program, se_sympify(P.monom_str(case["monom"])), order, args)
        _ev(res, "get_all_cumulants")
    except Exception as e:
        raise _Refused(P.refusal_key(e))
    for r in range(1, order + 1):
        try:
            v = P.eval_at(cums[r], None, values)
        except (P.Leftover, P.NotANumber) as e:
            res["violations"].append({"kind": "not-a-number", "key": None, "detail": f"get_all_cumulants[{r}] at n={n_at}: {e}"})
            continue
        res["comparisons"] += 1
        ref = orc.cumulant(n_at, r)
        if not _num_equal(v, ref, None if isinstance(ref, F) else orc.scale(n_at, r)):
            res["violations"].append({"kind": "wrong-cumulant", "key": _raw_key(case, orc, values, r, n_at), "k": r, "n": n_at,
                                      "detail": f"get_all_cumulants(..)[{r}] at n={n_at} = {P.val_str(v)}, exact cumulant {P.val_str(ref)}"})


def _safe_eval(fn, n, values, res, g, gs, what):
    try:
        return fn(n, values)
    except P.Leftover as e:
        res["violations"].append({"kind": "leftover-symbol", "key": None, "goal": gs, "n": n,
                                  "detail": f"{gs} ({what}) at n={n}: symbols {e.names} remain: {e.value}"})
    except P.NotANumber as e:
        res["violations"].append({"kind": "not-a-number", "key": None, "goal": gs, "n": n,
                                  "detail": f"{gs} ({what}) at n={n} evaluates to {e}"})
    return None


def _num_equal(v, ref, scale=None):
    """exact when both sides are rationals; when the reference itself is numeric (quadrature inside the reference
    engine, ~20 digits on each raw moment) an absolute tolerance relative to the size of the terms that cancel"""
    if isinstance(v, F) and isinstance(ref, F):
        return v == ref
    if isinstance(ref, F):
        return P.values_equal(v, ref, rel_tol=1e-25)
    import mpmath as mp
    with mp.workdps(60):
        a = mp.mpf(v.numerator) / v.denominator if isinstance(v, F) else v
        sc = max(1, abs(ref), scale or 1)
        return abs(a - ref) <= mp.mpf(10) ** -10 * sc


def _num_less(a, b):
    """a < b strictly (beyond numeric noise when either side is not an exact rational)"""
    if isinstance(a, F) and isinstance(b, F):
        return a < b
    import mpmath as mp
    with mp.workdps(60):
        fa = mp.mpf(a.numerator) / a.denominator if isinstance(a, F) else a
        fb = mp.mpf(b.numerator) / b.denominator if isinstance(b, F) else b
        if isinstance(fa, mp.mpc) or isinstance(fb, mp.mpc):
            return True
        return fa < fb - mp.mpf(10) ** -30 * max(1, abs(fb))


def _raw_key(case, orc, values, k, n):
    """diagnostic predicate: are Polar's raw moments E[M^j], j <= k, already wrong at this n (a closed-form defect that
    belongs to C01) ?"""
    try:
        program, rb = P.prepare(case["text"])
        for j in range(1, k + 1):
            cf, is_exact, _ = P.closed_form(program, rb, {v: pw * j for v, pw in case["monom"].items()})
            if not _num_equal(P.eval_at(cf, n, values), orc.raw(n, j)):
                return "c01-raw-moment-closed-form-wrong"
    except Exception:
        return None
    return None


def _ck_violation(g, gs, n, v, ref, orc, source, case, values, res):
    key = None
    kind = "wrong-central-moment" if g["type"] == "central" else "wrong-cumulant"
    if g["type"] == "central" and g["k"] == 1:
        mean = orc.raw(n, 1)
        if _num_equal(v, mean) and mean != 0:
            key = "central-moment-1-is-mean"
    if key is None:
        key = _raw_key(case, orc, values, g["k"], n)
    return {"kind": kind, "key": key, "goal": gs, "n": n, "k": g["k"],
            "detail": f"{gs} ({source}) at n={n}: polar={P.val_str(v)} exact={P.val_str(ref)}"}


# =================================================================== kind 3: expansions
def run_exp(case, tier):
    res = _base(case)
    sub = case["sub"]
    res["features"].append("exp-" + sub)
    L = case["L"]
    kap = {r + 1: CG.fd(v) for r, v in enumerate(case["cumulants"])}
    res["fingerprint"] = K.fingerprint(sub, case["cumulants"])
    res["features"].append(f"exp-{sub}-L{L}")
    res["nontrivial"] = any(kap[r] != 0 for r in range(3, L + 1))
    if sub == "gc":
        return run_gc(case, kap, L, res)
    return run_cf(case, kap, L, res, symbolic_eps=(sub == "cf-eps"))


def run_gc(case, kap, L, res):
    import sympy
    from expansions import GramCharlierExpansion
    x = sympy.Symbol("x")
    cum = {r: to_sym(v) for r, v in kap.items()}
    try:
        dens = GramCharlierExpansion(dict(cum))()
        _ev(res, "GramCharlierExpansion.__call__")
    except Exception as e:
        res.update(verdict="inconclusive", reason="refused", refusal=P.refusal_key(e))
        return res
    dens = sympy.sympify(dens)
    mu = kap.get(1, F(0))
    s2 = kap.get(2, F(1))
    if dens.free_symbols - {x}:
        res["violations"].append({"kind": "unexpected-symbols", "key": None, "detail": f"density has symbols {dens.free_symbols}"})
        return _finish(res)
    # q(x) = density / phi_{mu, s2}(x) must be a polynomial
    inv_phi = sympy.sqrt(2 * sympy.pi * to_sym(s2)) * sympy.exp((x - to_sym(mu)) ** 2 / (2 * to_sym(s2)))
    q = sympy.expand(sympy.powsimp(sympy.expand(dens * inv_phi)))
    if not q.is_polynomial(x):
        q = sympy.expand(sympy.simplify(dens * inv_phi))
    coeffs = None
    if q.is_polynomial(x):
        cs = sympy.Poly(q, x).all_coeffs()[::-1]
        cf = [sym_to_frac(c) for c in cs]
        if all(c is not None for c in cf):
            coeffs = cf
    want = moments_from_cumulants(kap, L) if L >= 1 else {0: F(1)}
    if L == 1:
        want = {0: F(1), 1: kap[1]}
    rows = []
    for j in range(0, L + 1):
        if coeffs is not None:
            got = sum((c * normal_raw_moment(mu, s2, m + j) for m, c in enumerate(coeffs)), F(0))
            _ev(res, "gaussian-moment integration")
        else:
            val = sympy.integrate(x ** j * dens, (x, -sympy.oo, sympy.oo))
            got = sym_to_frac(sympy.simplify(val))
            _ev(res, "sympy integration")
            if got is None:
                res.update(verdict="inconclusive", reason="oracle-limit", detail=f"integral not rational: {val}")
                return res
        res["comparisons"] += 1
        if got != want[j]:
            what = "integral" if j == 0 else f"raw moment {j}"
            res["violations"].append({"kind": "gram-charlier-wrong-" + ("integral" if j == 0 else "moment"), "key": None, "j": j,
                                      "detail": f"cumulants {[str(kap[r]) for r in sorted(kap)]}: {what} of the returned density = {got}, "
                                                f"implied by the cumulants = {want[j]}"})
        if len(rows) < 5:
            rows.append({"j": j, "integral_x^j_density": str(got), "implied_by_cumulants": str(want[j])})
    res["sample"] = {"kind": "gram-charlier", "cumulants": [str(kap[r]) for r in sorted(kap)], "density": str(dens)[:300], "rows": rows}
    return _finish(res)


def run_cf(case, kap, L, res, symbolic_eps):
    import sympy
    from expansions import CornishFisherExpansion
    z = sympy.Symbol("z")
    p = sympy.Symbol("p")
    eps = sympy.Symbol("eps")
    sigma = CG.fd(case["sigma"])
    mu = kap.get(1, F(0))
    g = {r: kap[r] / sigma ** r for r in range(3, L + 1)}      # standardized cumulants
    if symbolic_eps:
        cum = {r: to_sym(kap[r]) * (eps ** (r - 2) if r >= 3 else 1) for r in kap}
        res["features"].append("cf-formal-parameter")
    else:
        cum = {r: to_sym(kap[r]) for r in kap}
    try:
        quant = CornishFisherExpansion(dict(cum))()
        _ev(res, "CornishFisherExpansion.__call__")
    except Exception as e:
        res.update(verdict="inconclusive", reason="refused", refusal=P.refusal_key(e))
        return res
    quant = sympy.sympify(quant)
    allowed = {p, eps} if symbolic_eps else {p}
    if quant.free_symbols - allowed:
        res["violations"].append({"kind": "unexpected-symbols", "key": None, "detail": f"quantile function has symbols {quant.free_symbols}"})
        return _finish(res)
    # the returned function of p is poly(z) at z = sqrt(2)*erfinv(2p-1) = Phi^{-1}(p)
    wz = sympy.expand(quant.subs(sympy.erfinv(2 * p - 1), z / sympy.sqrt(2)))
    if wz.has(sympy.erfinv) or not wz.is_polynomial(z, eps):
        raise RuntimeError(f"cannot read the quantile function as a polynomial in z: {wz}")
    poly = sympy.Poly(wz, eps, z)
    got = {}
    for (i, j), c in poly.terms():
        cf = sym_to_frac(c)
        if cf is None:
            raise RuntimeError(f"non-rational coefficient {c}")
        got[(i, j)] = cf
    # standardize: w = (x - mu)/sigma
    wgot = {}
    for (i, j), c in got.items():
        if i == 0 and j == 0:
            c = c - mu
        if c:
            wgot[(i, j)] = c / sigma
    T = max(L - 1, 1)
    std = cornish_fisher_standard(g, L)
    _ev(res, "defining-property construction")
    rows = []
    if symbolic_eps:
        # (a) defining property directly on Polar's output
        if any(i >= T for (i, j) in wgot):
            # terms beyond the claimed order: only the part below eps^(L-1) is determined
            res["features"].append("cf-higher-order-terms-present")
        wtr = {kk: v for kk, v in wgot.items() if kk[0] < T}
        kc = gaussian_poly_cumulants(wtr, max(L, 2), T)
        for r in range(1, max(L, 2) + 1):
            target = [F(0)] * T
            if r == 2:
                target[0] = F(1)
            if r >= 3 and r - 2 < T:
                target[r - 2] = g[r]
            res["comparisons"] += 1
            if kc[r].c != target:
                res["violations"].append({"kind": "cornish-fisher-cumulant-mismatch", "key": None, "r": r,
                                          "detail": f"cumulant {r} of w(Z) as eps-series {[str(c) for c in kc[r].c]} != target "
                                                    f"{[str(c) for c in target]} (mod eps^{T}); standardized cumulants {[str(g[r]) for r in sorted(g)]}"})
            if len(rows) < 4:
                rows.append({"cumulant": r, "series_of_polar_w(Z)": [str(c) for c in kc[r].c], "target": [str(c) for c in target]})
        # (b) order by order against the unique standard expansion
        res["comparisons"] += 1
        if wtr != std:
            res["violations"].append({"kind": "cornish-fisher-not-standard", "key": None,
                                      "detail": f"polar w = {_bp_str(wtr)}; standard = {_bp_str(std)}"})
        if any(i >= T for (i, j) in wgot):
            res["violations"].append({"kind": "cornish-fisher-extra-orders", "key": None,
                                      "detail": f"terms of adjustment order >= {T} present with {L} cumulants: {_bp_str({k: v for k, v in wgot.items() if k[0] >= T})}"})
    else:
        flat_got = {}
        for (i, j), c in wgot.items():
            flat_got[j] = flat_got.get(j, 0) + c
        flat_std = {}
        for (i, j), c in std.items():
            flat_std[j] = flat_std.get(j, 0) + c
        flat_got = {k: v for k, v in flat_got.items() if v}
        flat_std = {k: v for k, v in flat_std.items() if v}
        res["comparisons"] += 1
        if flat_got != flat_std:
            res["violations"].append({"kind": "cornish-fisher-not-standard", "key": None,
                                      "detail": f"cumulants {[str(kap[r]) for r in sorted(kap)]}: polar w(z) = {_p_str(flat_got)}; standard = {_p_str(flat_std)}"})
        if L <= 6:
            tab = cornish_fisher_table(g, L)
            _ev(res, "Abramowitz-Stegun table")
            res["comparisons"] += 1
            if flat_got != tab:
                res["violations"].append({"kind": "cornish-fisher-differs-from-published", "key": None,
                                          "detail": f"polar w(z) = {_p_str(flat_got)}; A&S 26.2.49 = {_p_str(tab)}"})
        rows.append({"polar_w(z)": _p_str(flat_got), "standard_w(z)": _p_str(flat_std)})
    res["sample"] = {"kind": "cornish-fisher", "cumulants": [str(kap[r]) for r in sorted(kap)], "quantile": str(quant)[:300], "rows": rows}
    return _finish(res)


def _p_str(d):
    return " + ".join(f"({c})*z^{j}" for j, c in sorted(d.items())) or "0"


def _bp_str(d):
    return " + ".join(f"({c})*eps^{i}*z^{j}" for (i, j), c in sorted(d.items())) or "0"
