"""C16 - exponent-lattice bases consist of, and generate, all multiplicative relations.

Monitor: the list returned by the real `ExponentLattice(bases).compute_basis()` (bases are sympy Rationals /
algebraic expressions, as InvariantIdeal passes them).  Oracle (polarmon/gen/algnums.py, no sympy, no Polar):
  rational lists : own factorisation -> prime-exponent matrix + sign parity -> integer kernel by gcd row
                   operations = the FULL relation lattice; (i) exact product with Fractions, (ii) rank,
                   (iii) lattice equality both ways (membership in a Z-span by echelon reduction);
  algebraic lists: own exact arithmetic in Q[x_j]/(x_j^n_j - m_j); (i) exact product == 1, (ii) rank,
                   (iii) box enumeration of all |e_i| <= B (float log/arg pre-filter, exact confirmation) and,
                   for lists built from the atoms (torsion generator, fundamental unit, non-associate primes)
                   of a class-number-one field, the full lattice from unique factorisation; every solution must
                   be an integer combination of the returned vectors.
"""
import itertools
import math
from fractions import Fraction

from .. import polar_api as P
from ..gen import algnums as A
from . import common as K

ID = "C16"
RULE = ("cases = lists of 1-5 non-zero rationals (fixed witnesses + seeded profiles: powers of a common base with "
        "different multiplicities, shared primes, negative bases/+-1/parity, pairwise coprime (shortcut path), repetitions "
        "and inverses, random fractions) and lists of 1-4 algebraic numbers in quadratic/biquadratic/pure cubic fields "
        "(fixed lists: sqrt, golden ratio, i, 1+i, roots of unity, units, non-UFD Q(sqrt-5); seeded lists built from "
        "torsion*unit*prime atoms; random small elements; presented expanded, factored or as CRootOf); a case is "
        "non-trivial when the true lattice (oracle) or the returned basis is non-zero; distinct = distinct base lists")
ASSUMPTIONS = [
    "unique factorisation of rationals into sign and primes (own trial division), integer kernel by unimodular gcd row operations",
    "the generator tuples (sqrt2, sqrt3, sqrt5, sqrt7, i, sqrt-2, sqrt-3, sqrt-5, 2^(1/3) and the pairs (sqrt2,i), (sqrt2,sqrt3), (sqrt3,i)) "
    "generate fields of full degree, so equality in Q[x_j]/(x_j^n_j-m_j) is equality of the complex numbers",
    "atom tables: Z[i], Z[w], Z[sqrt2], Z[sqrt3], Z[(1+sqrt5)/2], Z[2^(1/3)], Z[zeta_8] are UFDs with the stated torsion, fundamental "
    "unit and pairwise non-associate primes (cross-checked at run time: every box solution must lie in the atom lattice and every "
    "atom-lattice generator must satisfy the relation exactly, otherwise the case is an oracle error)",
    "for algebraic lists without atom table completeness is only tested for exponent vectors inside the box |e_i| <= B",
    "sympy.sympify of the generated text denotes the number the field element denotes (checked numerically to 30 digits per base)",
]
TIMEOUT = {"quick": 30, "thorough": 150}
DEADLINE = {"quick": 80, "thorough": 1000}
MIN_DECIDING = {"quick": 100, "thorough": 3000}

HOOKS = {}


def generate(seed, tier):
    return A.generate(lambda i: K.harness_seed(seed, ID, i), tier)


# ------------------------------------------------------------------------------------------------ monitor hooks
def _count(name, fn):
    def wrapper(*a, **kw):
        HOOKS[name] = HOOKS.get(name, 0) + 1
        return fn(*a, **kw)
    wrapper.__wrapped__ = fn
    wrapper.__name__ = getattr(fn, "__name__", name)
    return wrapper


_installed = False


def worker_init(tier):
    global _installed
    P.load()
    if _installed:
        return
    import invariants.exponent_lattice as EL
    cls = EL.ExponentLattice
    for m in ("compute_basis", "is_trivially_empty", "compute_basis_rational", "compute_basis_kauers", "_all_in_lattice"):
        setattr(cls, m, _count("ExponentLattice." + m, getattr(cls, m)))
    for f in ("faccin_bound", "are_coprime", "algebraic_number_equals_const"):
        setattr(EL, f, _count(f, getattr(EL, f)))
    _installed = True


def call_polar(bases):
    import invariants.exponent_lattice as EL
    HOOKS.clear()
    try:
        out = EL.ExponentLattice(list(bases)).compute_basis()
    finally:
        ev = dict(HOOKS)
    return out, ev


def well_formed(basis, k):
    if not isinstance(basis, list):
        return False
    for v in basis:
        if not isinstance(v, list) or len(v) != k:
            return False
        for x in v:
            if isinstance(x, bool) or not isinstance(x, int):
                return False
    return True


def _pairwise_coprime(ns):
    return all(math.gcd(ns[i], ns[j]) == 1 for i in range(len(ns)) for j in range(i + 1, len(ns)))


# ------------------------------------------------------------------------------------------------ rational lists
def rational_relation_holds(qs, e):
    """exact: prod q_i^e_i == 1 with Fractions"""
    p = Fraction(1)
    for q, x in zip(qs, e):
        if x:
            p *= q ** x
    return p == 1


def diagnose_rational(qs, returned, Arows, s):
    """mechanism predicates over the witness (names a mechanism or None)"""
    k = len(qs)
    has_one = any(q == 1 for q in qs)
    nums = [q.numerator for q in qs if q.numerator != 1]
    dens = [q.denominator for q in qs if q.denominator != 1]
    shortcut = all(abs(n) > 1 for n in nums) and _pairwise_coprime(nums + dens)
    if returned == [] and shortcut and has_one:
        return "lattice-trivial-shortcut-ignores-base-one"
    rows = [list(r) for r in Arows]
    ncols = k
    if any(s):
        rows = [r + [0] for r in rows] + [list(s) + [2]]
        ncols = k + 1
    if not rows:
        return None
    ns = [v[:k] for v in A.rref_nullspace(rows, ncols)]
    nonint = any(x.denominator != 1 for v in ns for x in v)
    trunc = [[int(x) for x in v] for v in ns]
    if nonint and returned == trunc:
        return "lattice-rational-nullspace-not-integral"
    return None


def run_rational(case, tier):
    import sympy
    qs = [Fraction(b) for b in case["bases"]]
    k = len(qs)
    res = {"fingerprint": "rat:" + ",".join(case["bases"]), "features": case.get("features", []), "events": {}, "violations": [],
           "comparisons": 0, "refusals": []}
    L, primes, Arows, s = A.rational_lattice(qs)
    for g in L:  # oracle self-check: the oracle's generators are relations
        if not rational_relation_holds(qs, g):
            raise AssertionError(f"oracle generator {g} is not a relation of {qs}")
    bases = [sympy.Rational(q.numerator, q.denominator) for q in qs]
    try:
        basis, ev = call_polar(bases)
    except Exception as e:
        res.update(verdict="inconclusive", reason="refused", refusal=P.refusal_key(e))
        return res
    res["events"] = ev
    if not well_formed(basis, k):
        res["violations"].append({"kind": "malformed-basis", "key": None, "detail": f"bases {case['bases']}: returned {basis!r}"})
        res.update(verdict="violated", nontrivial=True)
        return res
    viol = []
    # (i) every returned vector is a relation
    for v in basis:
        by_exponents = all(sum(a * x for a, x in zip(row, v)) == 0 for row in Arows) and sum(a * x for a, x in zip(s, v)) % 2 == 0
        if max((abs(x) for x in v), default=0) <= 300:
            by_product = rational_relation_holds(qs, v)
            if by_product != by_exponents:
                raise AssertionError("oracle disagreement product vs exponents")
        res["comparisons"] += 1
        if not by_exponents:
            val = None
            if max(abs(x) for x in v) <= 40:
                p = Fraction(1)
                for q, x in zip(qs, v):
                    p *= q ** x
                val = str(p)
            viol.append({"kind": "not-a-relation", "vector": v,
                         "detail": f"bases {case['bases']}: returned vector {v} gives product {val} != 1 (returned basis {basis}, true lattice basis {L})"})
    # (ii) independence
    ech = A.echelon(basis, k)
    res["comparisons"] += 1
    if len(ech) != len(basis):
        viol.append({"kind": "dependent", "detail": f"bases {case['bases']}: returned vectors {basis} have rank {len(ech)}"})
    # (iii) every relation is an integer combination of the returned vectors
    missing = []
    for g in L:
        res["comparisons"] += 1
        if not A.in_span(ech, g):
            missing.append(g)
    if missing:
        viol.append({"kind": "incomplete", "vector": missing[0],
                     "detail": f"bases {case['bases']}: relation {missing[0]} (product exactly 1) is not an integer combination of the returned basis {basis}; true lattice basis {L}"})
    if viol:
        key = diagnose_rational(qs, basis, Arows, s)
        for v in viol:
            v["key"] = key
    res["violations"] = viol
    res["nontrivial"] = bool(L) or bool(basis)
    res["verdict"] = "violated" if viol else "held"
    res["extra"] = {"rational_lists": 1, "true_rank_%d" % len(L): 1,
                    "path_shortcut" if "ExponentLattice.compute_basis_rational" not in ev and "ExponentLattice.compute_basis_kauers" not in ev else "path_rational": 1}
    res["sample"] = {"bases": case["bases"], "polar_basis": basis, "oracle_lattice_basis": L, "primes": primes}
    return res


# ------------------------------------------------------------------------------------------------ algebraic lists
def sympy_base(F, elem, text, form, mp):
    """the sympy object handed to Polar; its numeric value is compared with the field element's embedding"""
    import sympy
    expr = sympy.sympify(text, rational=True)
    used = "expanded"
    if form == "factored":
        e2 = sympy.factor_terms(expr)
        if e2 != expr:
            expr, used = e2, "factored"
    elif form == "crootof" and F.dim == 2 and not F.is_rational(elem):
        a = elem.get(F.zero_exp, Fraction(0))
        b = elem.get((1,), Fraction(0))
        m = F.ms[0]
        c1, c0 = -2 * a, a * a - m * b * b          # x^2 + c1 x + c0
        den = (c1.denominator * c0.denominator) // math.gcd(c1.denominator, c0.denominator)
        x = sympy.Symbol("x")
        poly = den * x ** 2 + sympy.Integer(int(c1 * den)) * x + sympy.Integer(int(c0 * den))
        target = F.embed(elem, mp)
        for idx in (0, 1):
            r = sympy.CRootOf(poly, idx)
            z = complex(sympy.N(r, 30))
            if abs(z - complex(target)) < 1e-12 * max(1, abs(complex(target))):
                expr, used = r, "crootof"
                break
    # numeric identity check (harness sanity, not a verdict about Polar)
    z = sympy.N(expr, max(40, mp.dps - 20))
    re_, im_ = z.as_real_imag()
    zz = mp.mpc(mp.mpf(str(re_)), mp.mpf(str(im_)))
    t = F.embed(elem, mp)
    if abs(zz - t) > mp.mpf(10) ** -30 * max(1, abs(t)):
        raise AssertionError(f"sympy object {expr} does not denote the field element {text}")
    return expr, used


def box_bound(k, tier):
    if tier == "quick":
        return {1: 24, 2: 12, 3: 6, 4: 3}.get(k, 2)
    return {1: 60, 2: 30, 3: 10, 4: 5}.get(k, 3)


def box_solutions(F, elems, B, mp):
    """all integer vectors with |e_i| <= B (first non-zero coordinate positive) whose product is exactly 1"""
    k = len(elems)
    zs = [F.embed(x, mp) for x in elems]
    logs = [float(mp.log(abs(z))) for z in zs]
    args = [float(mp.arg(z)) for z in zs]
    pw = []
    for x in elems:
        d = {0: F.one()}
        inv = F.inv(x)
        for j in range(1, B + 1):
            d[j] = F.mul(d[j - 1], x)
            d[-j] = F.mul(d[-j + 1], inv)
        pw.append(d)
    sols = []
    tested = 0
    exact = 0
    two_pi = 2 * math.pi
    scale = 1e-9 * (1 + B * k)
    for e in itertools.product(range(-B, B + 1), repeat=k):
        nz = next((x for x in e if x), 0)
        if nz <= 0:
            continue
        tested += 1
        sl = 0.0
        sa = 0.0
        for x, l, a in zip(e, logs, args):
            sl += x * l
            sa += x * a
        if abs(sl) > scale * (1 + max(map(abs, logs))):
            continue
        r = sa / two_pi
        if abs(r - round(r)) > 1e-9 * (1 + B * k):
            continue
        exact += 1
        prod = F.one()
        for i, x in enumerate(e):
            if x:
                prod = F.mul(prod, pw[i][x])
        if F.is_one(prod):
            sols.append(list(e))
    return sols, tested, exact


def run_algebraic(case, tier):
    import mpmath
    mp = mpmath.mp.clone()
    F = A.FIELDS[case["field"]]
    elems = [F.dec(js) for js in case["elems"]]
    # working precision follows the size of the coefficients: a large power of a unit such as (1 - sqrt2)**200 is a tiny number
    # written as the difference of two 150-digit terms
    mag = max([len(str(abs(c.numerator))) + len(str(c.denominator)) for x in elems for c in x.values()] or [1])
    mp.dps = 60 + 2 * mag
    k = len(elems)
    res = {"fingerprint": "alg:" + case["field"] + ":" + "|".join(case["bases"]) + ":" + case.get("form", ""),
           "features": list(case.get("features", [])), "events": {}, "violations": [], "comparisons": 0, "refusals": []}
    # ---- oracle
    L_atoms = None
    if case.get("atoms"):
        info = A.ATOMS[case["field"]]
        w = info["torsion"][1]
        ts, rows = case["atoms"]["t"], case["atoms"]["rows"]
        for x, t, row in zip(elems, ts, rows):
            if A.atom_element(case["field"], t, row) != x:
                raise AssertionError("atom representation does not reproduce the element")
        na = len(info["atoms"])
        exp_rows = [[rows[i][a] for i in range(k)] for a in range(na)]
        exp_rows = [r for r in exp_rows if any(r)]
        L_atoms = A.relation_lattice(exp_rows, ts, w, k)
        for g in L_atoms:
            if max(abs(x) for x in g) <= 400 and not F.is_one(F.product(elems, g)):
                raise AssertionError(f"atom-lattice generator {g} is not a relation")
    B = box_bound(k, tier)
    sols, tested, exact = box_solutions(F, elems, B, mp)
    if L_atoms is not None:
        for sv in sols:
            if not A.in_span(L_atoms, sv):
                raise AssertionError(f"box solution {sv} outside the atom lattice {L_atoms}")
    box_lattice = A.echelon(sols, k)
    # ---- the sympy objects
    bases = []
    used_forms = set()
    for x, text in zip(elems, case["bases"]):
        b, used = sympy_base(F, x, text, case.get("form", "expanded"), mp)
        bases.append(b)
        used_forms.add(used)
    res["features"] += ["presented:" + u for u in sorted(used_forms)]
    try:
        basis, ev = call_polar(bases)
    except Exception as e:
        res.update(verdict="inconclusive", reason="refused", refusal=P.refusal_key(e))
        res["sample"] = {"bases": [str(b) for b in bases]}
        return res
    res["events"] = ev
    if not well_formed(basis, k):
        res["violations"].append({"kind": "malformed-basis", "key": None, "detail": f"bases {[str(b) for b in bases]}: returned {basis!r}"})
        res.update(verdict="violated", nontrivial=True)
        return res
    names = [str(b) for b in bases]
    viol = []
    undecided = 0
    # (i)
    for v in basis:
        m = max((abs(x) for x in v), default=0)
        if L_atoms is not None:
            holds = A.in_span(L_atoms, v)
            if m <= 400 and holds != F.is_one(F.product(elems, v)):
                raise AssertionError("oracle disagreement atom lattice vs exact product")
        elif m <= 2000:
            holds = F.is_one(F.product(elems, v))
        else:
            undecided += 1
            continue
        if m <= 200:  # numeric cross-check of the exact arithmetic under the standard embedding
            z = mp.mpc(1)
            for x, e in zip(elems, v):
                if e:
                    z *= F.embed(x, mp) ** e
            near = abs(z - 1) < mp.mpf(10) ** -25
            if near != holds:
                raise AssertionError("oracle disagreement exact vs numeric product")
        res["comparisons"] += 1
        if not holds:
            viol.append({"kind": "not-a-relation", "vector": v, "key": None,
                         "detail": f"bases {names}: returned vector {v} does not give product 1 (returned basis {basis})"})
    # (ii)
    ech = A.echelon(basis, k)
    res["comparisons"] += 1
    if len(ech) != len(basis):
        viol.append({"kind": "dependent", "key": None, "detail": f"bases {names}: returned vectors {basis} have rank {len(ech)}"})
    # (iii)
    truth = L_atoms if L_atoms is not None else box_lattice
    missing = []
    for g in (L_atoms or []) + box_lattice:
        res["comparisons"] += 1
        if not A.in_span(ech, g):
            missing.append(g)
    # relations stated with the (fixed) case: confirmed by exact arithmetic here, then required like the box solutions
    for g in case.get("known_relations", []):
        if not F.is_one(F.product(elems, g)):
            raise AssertionError(f"stated relation {g} does not hold exactly")
        res["comparisons"] += 1
        if not A.in_span(ech, g):
            missing.append(g)
    if missing:
        viol.append({"kind": "incomplete", "vector": missing[0], "key": None,
                     "detail": f"bases {names}: relation {missing[0]} (product exactly 1) is not an integer combination of the returned basis {basis}; "
                               f"{'full lattice (unique factorisation)' if L_atoms is not None else 'box solutions'} {truth}"})
    if viol and all(F.is_rational(x) for x in elems):   # an all-rational list: attribute like the rational workload
        qs = [x.get(F.zero_exp, Fraction(0)) for x in elems]
        _, _, Arows, s = A.rational_lattice(qs)
        key = diagnose_rational(qs, basis, Arows, s)
        for v in viol:
            v["key"] = key
    res["violations"] = viol
    if undecided and not viol:
        res.update(verdict="inconclusive", reason="oracle-limit-large-exponents")
        return res
    res["nontrivial"] = bool(truth) or bool(basis) or bool(case.get("known_relations"))
    res["verdict"] = "violated" if viol else "held"
    res["extra"] = {"algebraic_lists": 1, "stated_relations": len(case.get("known_relations", [])), "box_vectors_tested": tested, "box_exact_products": exact, "box_solutions": len(sols),
                    "full_lattice_oracle" if L_atoms is not None else "box_only_oracle": 1}
    res["sample"] = {"bases": names, "polar_basis": basis, "oracle": "atoms+box" if L_atoms is not None else "box",
                     "oracle_lattice_basis": truth, "box": B, "box_solutions": len(sols)}
    return res


def run_case(case, tier):
    if not _installed:
        worker_init(tier)
    if case["kind"] == "rational":
        return run_rational(case, tier)
    return run_algebraic(case, tier)
