"""C18 — loops within the documented restrictions are accepted and analysable.

Monitor: exception events (type, innermost repo function) of Parser.parse_string / normalize_program /
RecBuilder.get_recurrences / RecurrenceSolver.get for monomials over variables classified effective.
Class membership is decided by the oracle, not by Polar: (1) every variable occurring in a branch condition
or the guard has a finite reachable value set (reference engine, state set must stop growing); (2) probabilities
and distribution parameters are constants; (3) the generator's dependency structure has no cycle through a
non-linear edge (levels); (4) all variables are initialised.  A refusal of such a program is the deciding event.
Everything that is returned is also compared with the oracle (a refusal must not take the form of a wrong result)."""
import random
from fractions import Fraction

from .. import polar_api as P
from ..gen import programs as G
from ..lang.ast import Program, program_variables, cond_vars, walk_stmts, assigned_vars, num
from ..lang.printer import program_str
from ..ref.engine import Engine, Unsupported, CapExceeded, DomainError, AP
from ..ref import laws
from . import common as K
from .c01 import compare_closed_form
from .. import diagnose

ID = "C18"
RULE = ("cases = generated programs of the documented class (all variables initialised, constant probabilities/parameters, "
        "levelled non-linear dependencies, condition/guard variables with a finite reachable value set confirmed by the "
        "reference engine reaching a fixpoint of the projected state set), goals over variables Polar classifies effective; "
        "non-trivial = program has a branch condition or guard and was either refused (violation) or fully analysed and "
        "compared; distinct = (program text, goals) fingerprint")
ASSUMPTIONS = [
    "the documented class is README 'Loop Restrictions' as spelled out in the property; membership of each case is established by the oracle",
    "finite reachability of condition variables is established within 12 iterations (projected value sets stop growing for 4 iterations)",
    "a watchdog expiry is inconclusive, not a refusal",
]
TIMEOUT = {"quick": 25, "thorough": 120}
DEADLINE = {"quick": 70, "thorough": 1500}
MIN_DECIDING = {"quick": 40, "thorough": 300}
NCASES = {"quick": 170, "thorough": 3000}


def generate(seed, tier):
    cases = []
    for i in range(NCASES[tier]):
        cs = K.harness_seed(seed, ID, i)
        rng = random.Random(cs)
        profile = rng.choice(["discrete", "mixed", "nested", "nested", "guarded", "multiassign", "continuous", "linear", "delay", "counter"])
        prog, feats, meta = G.generate(cs, profile)
        # (4) all variables initialised
        init_assigned = set(assigned_vars(prog.init))
        extra = [("assign", v, ("poly", num(rng.choice([0, 1, 2])))) for v in program_variables(prog) if v not in init_assigned]
        prog.init = extra + prog.init
        params, inits = G.instantiate_params(rng, meta, prog)
        pv = program_variables(prog)
        goals = G.goal_monomials(rng, pv, max_deg=2, count=2, prefer=meta["data"] or None)
        cont = bool(meta["draws"])
        cases.append({"id": f"gen-{cs}", "text": program_str(prog), "ast": prog.to_json(), "params": K.frac_enc(params),
                      "inits": K.frac_enc(inits), "goals": goals, "N": 3 if cont else 5, "features": feats})
    return cases


def worker_init(tier):
    P.load()


def condition_variables(prog):
    vs = set(cond_vars(prog.guard))
    for blk in (prog.init, prog.body):
        for s in walk_stmts(blk):
            if s[0] == "if":
                for c, _ in s[1]:
                    cond_vars(c, vs)
    return vs


def in_documented_class(prog, params, inits):
    """(ok, reason).  Only membership conditions that need the oracle are checked here; the generator guarantees the rest."""
    cvars = sorted(condition_variables(prog))
    if not cvars:
        return True, "no-conditions"
    try:
        eng = Engine(prog, params, inits, max_states=30000)
        seen = {v: set() for v in cvars if v in eng.index}
        sizes = []

        def on_value(var, val, it):
            if var in seen:
                seen[var].add(val)
        eng.on_value = on_value
        d = eng.initial()
        for n in range(12):
            for st in d:
                for v in seen:
                    seen[v].add(st[eng.index[v]])
            sizes.append(sum(len(s) for s in seen.values()))
            d = eng.step(d)
        if K.declared_types_violated(prog, eng, [d]):
            return False, "declared-type-false"
    except (Unsupported, CapExceeded, DomainError, laws.Divergent) as e:
        return False, "oracle-" + type(e).__name__
    if any(isinstance(x, AP) for s in seen.values() for x in s):
        return False, "condition-on-continuous-value"
    if len(sizes) < 6 or sizes[-1] != sizes[-5]:
        return False, "condition-variable-values-still-growing"
    return True, "finite"


def run_case(case, tier):
    prog = Program.from_json(case["ast"])
    params = K.frac_dec(case["params"])
    inits = K.frac_dec(case["inits"])
    goals, N = case["goals"], case["N"]
    res = {"fingerprint": K.fingerprint(case["text"], goals), "features": case.get("features", []), "events": {}, "violations": [],
           "comparisons": 0, "refusals": [], "extra": {}}
    ok, why = in_documented_class(prog, params, inits)
    if not ok:
        res.update(verdict="inconclusive", reason="not-in-class:" + why)
        return res
    has_cond = bool(condition_variables(prog))
    values = K.symbol_values(params, inits)
    P.reset_settings()
    try:
        program, rb = P.prepare(case["text"])
        res["events"]["normalize_program"] = 1
    except Exception as e:
        key = P.refusal_key(e)
        res["refusals"].append(key)
        res["violations"].append({"kind": "documented-class-program-refused", "stage": "normalize", "refusal": key,
                                  "key": diagnose.classify_refusal(case, key, str(e)),
                                  "detail": f"normalize_program refused a program of the documented class: {key}: {str(e)[:200]}"})
        res.update(verdict="violated", nontrivial=has_cond)
        return res
    effective = {str(v) for v in program.effective_variables}
    av = K.abstraction_values(program, prog, params)
    if av is None:
        res.update(verdict="inconclusive", reason="abstraction-outside-oracle")
        return res
    values.update(av)
    try:
        table = K.oracle_moments(prog, params, inits, goals, N)
    except K.OracleSkip:
        table = None
    analysed = 0
    for gi, g in enumerate(goals):
        if any(v not in effective for v in g):
            res["extra"]["goal-not-effective"] = res["extra"].get("goal-not-effective", 0) + 1
            continue
        try:
            cf, is_exact, recs = P.closed_form(program, rb, g)
            res["events"]["RecurrenceSolver.get"] = res["events"].get("RecurrenceSolver.get", 0) + 1
        except Exception as e:
            key = P.refusal_key(e)
            res["refusals"].append(key)
            res["violations"].append({"kind": "effective-goal-refused", "stage": "solve", "refusal": key, "goal": P.monom_str(g),
                                      "key": diagnose.classify_refusal(case, key, str(e)),
                                      "detail": f"E({P.monom_str(g)}) over effective variables refused: {key}: {str(e)[:200]}"})
            continue
        analysed += 1
        if table is not None:
            bad = compare_closed_form(cf, is_exact, table[gi], values, N, res, g)
            for v in bad:
                v["goal"] = P.monom_str(g)
                v["kind"] = "wrong-or-partial-result:" + v["kind"]
                v["key"] = diagnose.classify_moment_violation(case, v, recs, program)
            res["violations"] += bad
    P.reset_settings()
    if analysed == 0 and not res["violations"]:
        res.update(verdict="inconclusive", reason="no-effective-goal")
        return res
    res["nontrivial"] = has_cond
    res["verdict"] = "violated" if res["violations"] else "held"
    res["sample"] = {"program": case["text"], "goals": [P.monom_str(g) for g in goals], "class_check": why,
                     "effective_variables": sorted(effective)}
    return res
