"""C18 — loops within the documented restrictions are accepted and analysable.

Monitor: exception events (type, innermost repo function) of Parser.parse_string / normalize_program /
RecBuilder.get_recurrences / RecurrenceSolver.get for monomials over variables classified effective.
Class membership is decided by the oracle, not by Polar: (1) every variable occurring in a branch condition
or the guard has a finite reachable value set (reference engine, state set must stop growing); (2) probabilities
and distribution parameters are constants; (3) the generator's dependency structure has no cycle through a
non-linear edge (levels); (4) all variables are initialised.  A refusal of such a program is the deciding event.
Everything that is returned is also compared with the oracle (a refusal must not take the form of a wrong result)."""
import random
from fractions import Fraction

from .. import polar_api as P
from ..gen import programs as G
from ..lang.ast import Program, program_variables, cond_vars, walk_stmts, assigned_vars, num
from ..lang.printer import program_str
from ..ref.engine import Engine, Unsupported, CapExceeded, DomainError, AP
from ..ref import laws
from . import common as K
from .c01 import compare_closed_form
from .. import diagnose

ID = "C18"
RULE = ("cases = generated programs of the documented class (all variables initialised, constant probabilities/parameters, "
        "levelled non-linear dependencies, condition/guard variables with a finite reachable value set confirmed by the "
        "reference engine reaching a fixpoint of the projected state set), goals over variables Polar classifies effective; "
        "non-trivial = program has a branch condition or guard and was either refused (violation) or fully analysed and "
        "compared; distinct = (program text, goals) fingerprint")
ASSUMPTIONS = [
    "the documented class is README 'Loop Restrictions' as spelled out in the property; membership of each case is established by the oracle",
    "finite reachability of condition variables is established within 12 iterations (projected value sets stop growing for 4 iterations)",
    "a watchdog expiry is inconclusive, not a refusal",
]
UNINIT_COUNTERFACTUAL = True   # worker: unattributed violations are re-run with explicit initial assignments (diagnose.attribute_uninit)
TIMEOUT = {"quick": 15, "thorough": 120}
DEADLINE = {"quick": 80, "thorough": 1000}
MIN_DECIDING = {"quick": 40, "thorough": 300}
NCASES = {"quick": 130, "thorough": 3000}


def generate(seed, tier):
    cases = []
    for i in range(NCASES[tier]):
        cs = K.harness_seed(seed, ID, i)
        rng = random.Random(cs)
        profile = rng.choice(["discrete", "mixed", "nested", "nested", "guarded", "multiassign", "continuous", "linear", "delay", "counter"])
        prog, feats, meta = G.generate(cs, profile)
        # (4) all variables initialised
        init_assigned = set(assigned_vars(prog.init))
        extra = [("assign", v, ("poly", num(rng.choice([0, 1, 2])))) for v in program_variables(prog) if v not in init_assigned]
        prog.init = extra + prog.init
        params, inits = G.instantiate_params(rng, meta, prog)
        pv = program_variables(prog)
        goals = G.goal_monomials(rng, pv, max_deg=2, count=2, prefer=meta["data"] or None)
        cont = bool(meta["draws"])
        cases.append({"id": f"gen-{cs}", "text": program_str(prog), "ast": prog.to_json(), "params": K.frac_enc(params),
                      "inits": K.frac_enc(inits), "goals": goals, "N": 3 if cont else 5, "features": feats})
    cl = classification_cases(seed, tier)
    # interleave the cheap classification cases
    out = []
    step = max(1, len(cases) // max(1, len(cl)))
    for i, c in enumerate(cases):
        out.append(c)
        if i % step == 0 and cl:
            out.append(cl.pop(0))
    return out + cl


# ---------------------------------------------------------------- classification cases (effective / defective variables)
def classification_cases(seed, tier):
    """small polynomial loops with and without non-linear dependency cycles; the same dependency appears both linearly and
    non-linearly, in every order of terms / branches, so that the 'strongest edge wins' rule is exercised"""
    from ..lang.ast import Program, num, var, binop
    out = []
    n = 30 if tier == "quick" else 400
    for i in range(n):
        cs = K.harness_seed(seed, ID + "-classify", i)
        rng = random.Random(cs)
        nv = rng.choice([1, 2, 2, 3])
        vs = rng.choice([["x", "y", "z"], ["u", "v", "w"], ["v", "u", "x"]])[:nv]
        body = []
        for v in vs:
            terms = []
            for _ in range(rng.choice([1, 2, 3])):
                w = rng.choice(vs)
                k = rng.random()
                if k < 0.35:
                    terms.append(binop("**", var(w), num(rng.choice([2, 2, 3]))))
                elif k < 0.55 and nv >= 2:
                    w2 = rng.choice(vs)
                    terms.append(binop("*", var(w), var(w2)))
                else:
                    terms.append(binop("*", num(rng.choice([1, 2, Fraction(1, 2)])), var(w)))
            if rng.random() < 0.5:
                terms.append(num(rng.choice([1, -1, 2])))
            rng.shuffle(terms)
            if len(terms) >= 2 and rng.random() < 0.4:
                # probabilistic choice between the terms (each alternative is its own polynomial)
                k2 = min(len(terms), 3)
                alts = terms[:k2]
                ps = [Fraction(1, k2)] * k2
                rhs = ("choice", [(a, num(p)) for a, p in zip(alts, ps)])
            else:
                e = terms[0]
                for t in terms[1:]:
                    e = binop("+", e, t)
                rhs = ("poly", e)
            body.append(("assign", v, rhs))
        rng.shuffle(body)
        init = [("assign", v, ("poly", num(rng.choice([2, 3, Fraction(1, 2), 5])))) for v in vs]
        feats = ["classification"]
        if rng.random() < 0.3:
            # a finite (Bernoulli, redrawn every iteration) factor in front of a non-linear power of an unbounded variable: the
            # power of the UNBOUNDED variable decides linearity, whatever the order in which the variables are enumerated
            bn = rng.choice([n_ for n_ in ["d", "z", "b"] if n_ not in vs])
            tgt = rng.randrange(len(body))
            w = rng.choice(vs)
            v_, rhs_ = body[tgt][1], body[tgt][2]
            extra_t = binop("*", var(bn), binop("**", var(w), num(rng.choice([2, 2, 3]))))
            if rhs_[0] == "poly":
                body[tgt] = ("assign", v_, ("poly", binop("+", rhs_[1], extra_t)))
            else:
                body[tgt] = ("assign", v_, ("choice", [(binop("+", rhs_[1][0][0], extra_t), rhs_[1][0][1])] + list(rhs_[1][1:])))
            body.insert(rng.randrange(len(body) + 1), ("assign", bn, ("draw", "Bernoulli", [num(Fraction(1, 2))])))
            init.append(("assign", bn, ("poly", num(0))))
            feats.append("classification:finite-factor-times-nonlinear-power")
        elif rng.random() < 0.25:
            # a loop constant with a continuous random initial value (drawn once before the loop, never assigned in the body) as a
            # factor: x = k*x is NOT linear - E(x_n) = x0*E(k**n) - although k never changes
            fam = rng.choice([("Normal", [num(0), num(1)]), ("Uniform", [num(0), num(2)]), ("Laplace", [num(1), num(1)])])
            init.append(("assign", "k", ("draw", fam[0], fam[1])))
            tgt = rng.randrange(len(body))
            w = rng.choice(vs)
            v_, rhs_ = body[tgt][1], body[tgt][2]
            extra_t = binop("*", var("k"), var(w))
            if rhs_[0] == "poly":
                body[tgt] = ("assign", v_, ("poly", binop("+", rhs_[1], extra_t)))
            else:
                body[tgt] = ("assign", v_, ("choice", [(binop("+", rhs_[1][0][0], extra_t), rhs_[1][0][1])] + list(rhs_[1][1:])))
            feats.append("classification:continuous-random-loop-constant-factor")
        prog = Program([], init, ("true",), body)
        out.append({"id": f"classify-{cs}", "kind": "classify", "text": program_str(prog), "ast": prog.to_json(), "features": feats})
    # the ONLY non-linear dependency is a finite factor times a power of an unbounded variable, for several name pairs (the order in
    # which the variables of a monomial are enumerated must not matter)
    pairs = [("z", "u"), ("d", "v"), ("b", "x"), ("d", "u"), ("z", "v"), ("a1", "y"), ("c", "w")]
    for i in range(len(pairs) if tier == "quick" else 4 * len(pairs)):
        cs = K.harness_seed(seed, ID + "-classify-finfactor", i)
        rng = random.Random(cs)
        bn, un = pairs[i % len(pairs)]
        pw = rng.choice([2, 2, 3])
        upd = rng.choice([binop("+", var(un), binop("*", num(Fraction(1, 2)), binop("*", var(bn), binop("**", var(un), num(pw))))),
                          binop("+", binop("*", var(bn), binop("**", var(un), num(pw))), num(1)),
                          binop("+", binop("*", num(Fraction(1, 2)), var(un)), binop("*", binop("**", var(un), num(pw)), var(bn)))])
        body = [("assign", bn, ("draw", "Bernoulli", [num(Fraction(1, 2))])), ("assign", un, ("poly", upd))]
        if rng.random() < 0.5:
            body.append(("assign", "s", ("poly", binop("+", var("s"), var(bn)))))
        init = [("assign", bn, ("poly", num(0))), ("assign", un, ("poly", num(rng.choice([Fraction(1, 2), 2, 3])))), ("assign", "s", ("poly", num(0)))]
        prog = Program([], init, ("true",), body)
        out.append({"id": f"classify-ff-{cs}", "kind": "classify", "text": program_str(prog), "ast": prog.to_json(),
                    "features": ["classification", "classification:only-nonlinearity-has-finite-factor"]})
    return out


def true_defective(prog):
    """independent classification on the source AST: variable dependency graph with linear / non-linear edges (every variable of
    these cases is unbounded); defective = on a cycle containing a non-linear edge, or depending on such a variable"""
    from ..ref.engine import AP, eval_expr
    vs = program_variables(prog)
    lin = {v: set() for v in vs}     # v depends on w (any edge)
    nonlin = {v: set() for v in vs}  # v depends non-linearly on w
    # loop constants: every alternative of every assignment is the variable itself (y = 1*y); they keep their initial value
    # and count as numbers (x = y*x is linear then) - least fixed point
    inits = {st[1]: eval_expr(st[2][1], {}) for st in prog.init if st[0] == "assign" and st[2][0] == "poly"}
    consts = {}
    # finitely valued variables of these cases: (re)drawn from Bernoulli in the body; a finite factor does not make a term non-linear
    finite = {st[1] for st in prog.body if st[2][0] == "draw" and st[2][1] == "Bernoulli"}
    changed = True
    while changed:
        changed = False
        for v in vs:
            if v in consts or v not in inits or v in finite:
                continue
            alts = []
            for st in prog.body:
                if st[1] == v:
                    alts += [st[2][1]] if st[2][0] == "poly" else [e for e, _ in st[2][1]]
            env0 = {w: (consts[w] if w in consts else AP.gen(("v", w))) for w in vs}
            if all(eval_expr(e, env0) == AP.gen(("v", v)) for e in alts):
                consts[v] = inits[v]
                changed = True
    for st in prog.body:
        v, rhs = st[1], st[2]
        if v in consts or rhs[0] == "draw":
            continue
        polys = [rhs[1]] if rhs[0] == "poly" else [e for e, _ in rhs[1]]
        for e in polys:
            val = eval_expr(e, {w: (consts[w] if w in consts else AP.gen(("v", w))) for w in vs})
            if not isinstance(val, AP):
                continue
            for mono in val.t:
                deg = sum(p for (aid_, _k), p in mono if aid_[1] not in finite)
                for (aid, _kind), p in mono:
                    w = aid[1]
                    lin[v].add(w)
                    if deg >= 2:
                        nonlin[v].add(w)

    def reach(src):
        seen, todo = set(), [src]
        while todo:
            a = todo.pop()
            for b in lin[a]:
                if b not in seen:
                    seen.add(b)
                    todo.append(b)
        return seen
    on_cycle = set()
    for v in vs:
        for w in nonlin[v]:
            # edge v <- w is non-linear; it lies on a cycle iff w depends (transitively) on v, or w == v
            if w == v or v in reach(w):
                on_cycle.add(v)
                on_cycle.add(w)
    defective = set(on_cycle)
    for v in vs:
        if reach(v) & on_cycle:
            defective.add(v)
    return defective


def run_classify(case, tier):
    prog = Program.from_json(case["ast"])
    res = {"fingerprint": K.fingerprint(case["text"]), "features": case["features"], "events": {}, "violations": [], "comparisons": 0,
           "refusals": [], "extra": {}}
    truth = true_defective(prog)
    # the structural classification assumes unbounded variables: a variable whose reachable value set stops growing
    # (fixed points such as x = x**2 from 1) is finitely valued and legitimately effective -> such cases decide nothing
    try:
        eng = Engine(prog, {}, {}, max_states=20000)
        seen = {v: set() for v in truth}
        sizes = []
        d = eng.initial()
        for n in range(5):
            for st in d:
                for v in truth:
                    seen[v].add(st[eng.index[v]])
            sizes.append({v: len(seen[v]) for v in truth})
            d = eng.step(d)
        if any(sizes[-1][v] == sizes[-3][v] for v in truth):
            res.update(verdict="inconclusive", reason="degenerate-finite-values")
            return res
    except (Unsupported, CapExceeded, DomainError):
        res.update(verdict="inconclusive", reason="oracle-cap")
        return res
    P.reset_settings()
    try:
        program, rb = P.prepare(case["text"])
        res["events"]["SolvabilityChecker.get_variables"] = 1
    except Exception as e:
        res.update(verdict="inconclusive", reason="refused", refusal=P.refusal_key(e))
        return res
    eff = {str(v) for v in program.effective_variables}
    res["comparisons"] = len(truth) + 1
    wrong = sorted(v for v in truth if v in eff)
    if wrong:
        res["violations"].append({"kind": "defective-variable-classified-effective", "key": None,
                                  "detail": f"variables {wrong} lie on (or depend on) a non-linear dependency cycle but are classified effective: their moment systems are infinite\n{case['text']}"})
    # the same classification with type inference switched off (these loops have no finite variables, so nothing has to be declared):
    # the dependency information must be computed whether or not types are inferred
    try:
        P.set_settings(disable_type_inference=True)
        program2, _rb2 = P.prepare(case["text"])
        eff2 = {str(v) for v in program2.effective_variables}
        dfc2 = {str(v) for v in getattr(program2, "defective_variables", [])}
        res["events"]["SolvabilityChecker.get_variables(disable_type_inference)"] = 1
        res["comparisons"] += len(truth) + 1
        wrong2 = sorted(v for v in truth if v in eff2 or v not in dfc2)
        if wrong2:
            res["violations"].append({"kind": "defective-variable-not-classified-defective", "key": None,
                                      "detail": f"with --disable_type_inference the variables {wrong2} (on / depending on a non-linear cycle) are not reported defective "
                                                f"(effective={sorted(eff2)}, defective={sorted(dfc2)})\n{case['text']}"})
    except Exception as e:
        res["refusals"].append("disable_type_inference:" + P.refusal_key(e))
    finally:
        P.reset_settings()
    res["nontrivial"] = bool(truth)
    res["verdict"] = "violated" if res["violations"] else "held"
    res["sample"] = {"program": case["text"], "truly_defective": sorted(truth), "classified_effective": sorted(eff)}
    return res


def worker_init(tier):
    P.load()


def condition_variables(prog):
    vs = set(cond_vars(prog.guard))
    for blk in (prog.init, prog.body):
        for s in walk_stmts(blk):
            if s[0] == "if":
                for c, _ in s[1]:
                    cond_vars(c, vs)
    return vs


def in_documented_class(prog, params, inits):
    """(ok, reason).  Only membership conditions that need the oracle are checked here; the generator guarantees the rest."""
    cvars = sorted(condition_variables(prog))
    if not cvars:
        return True, "no-conditions"
    try:
        eng = Engine(prog, params, inits, max_states=30000)
        seen = {v: set() for v in cvars if v in eng.index}
        sizes = []

        def on_value(var, val, it):
            if var in seen:
                seen[var].add(val)
        eng.on_value = on_value
        d = eng.initial()
        for n in range(12):
            for st in d:
                for v in seen:
                    seen[v].add(st[eng.index[v]])
            sizes.append(sum(len(s) for s in seen.values()))
            d = eng.step(d)
        if K.declared_types_violated(prog, eng, [d]):
            return False, "declared-type-false"
    except (Unsupported, CapExceeded, DomainError, laws.Divergent) as e:
        return False, "oracle-" + type(e).__name__
    if any(isinstance(x, AP) for s in seen.values() for x in s):
        return False, "condition-on-continuous-value"
    if len(sizes) < 6 or sizes[-1] != sizes[-5]:
        return False, "condition-variable-values-still-growing"
    return True, "finite"


def run_case(case, tier):
    if case.get("kind") == "classify":
        return run_classify(case, tier)
    prog = Program.from_json(case["ast"])
    params = K.frac_dec(case["params"])
    inits = K.frac_dec(case["inits"])
    goals, N = case["goals"], case["N"]
    res = {"fingerprint": K.fingerprint(case["text"], goals), "features": case.get("features", []), "events": {}, "violations": [],
           "comparisons": 0, "refusals": [], "extra": {}}
    ok, why = in_documented_class(prog, params, inits)
    if not ok:
        res.update(verdict="inconclusive", reason="not-in-class:" + why)
        return res
    has_cond = bool(condition_variables(prog))
    values = K.symbol_values(params, inits)
    P.reset_settings()
    try:
        program, rb = P.prepare(case["text"])
        res["events"]["normalize_program"] = 1
    except Exception as e:
        key = P.refusal_key(e)
        res["refusals"].append(key)
        res["violations"].append({"kind": "documented-class-program-refused", "stage": "normalize", "refusal": key,
                                  "key": diagnose.classify_refusal(case, key, str(e)),
                                  "detail": f"normalize_program refused a program of the documented class: {key}: {str(e)[:200]}"})
        res.update(verdict="violated", nontrivial=has_cond)
        return res
    effective = {str(v) for v in program.effective_variables}
    av = K.abstraction_values(program, prog, params)
    if av is None:
        res.update(verdict="inconclusive", reason="abstraction-outside-oracle")
        return res
    values.update(av)
    try:
        table = K.oracle_moments(prog, params, inits, goals, N)
    except K.OracleSkip:
        table = None
    analysed = 0
    for gi, g in enumerate(goals):
        if any(v not in effective for v in g):
            res["extra"]["goal-not-effective"] = res["extra"].get("goal-not-effective", 0) + 1
            continue
        try:
            cf, is_exact, recs = P.closed_form(program, rb, g)
            res["events"]["RecurrenceSolver.get"] = res["events"].get("RecurrenceSolver.get", 0) + 1
        except Exception as e:
            key = P.refusal_key(e)
            res["refusals"].append(key)
            res["violations"].append({"kind": "effective-goal-refused", "stage": "solve", "refusal": key, "goal": P.monom_str(g),
                                      "key": diagnose.classify_refusal(case, key, str(e)),
                                      "detail": f"E({P.monom_str(g)}) over effective variables refused: {key}: {str(e)[:200]}"})
            continue
        analysed += 1
        if table is not None:
            bad = compare_closed_form(cf, is_exact, table[gi], values, N, res, g)
            for v in bad:
                v["goal"] = P.monom_str(g)
                v["kind"] = "wrong-or-partial-result:" + v["kind"]
                v["key"] = diagnose.classify_moment_violation(case, v, recs, program)
            res["violations"] += bad
    P.reset_settings()
    if analysed == 0 and not res["violations"]:
        res.update(verdict="inconclusive", reason="no-effective-goal")
        return res
    res["nontrivial"] = has_cond
    res["verdict"] = "violated" if res["violations"] else "held"
    res["sample"] = {"program": case["text"], "goals": [P.monom_str(g) for g in goals], "class_check": why,
                     "effective_variables": sorted(effective)}
    return res
