"""C17 — strategy and representation options do not change any reported result.

Monitor: closed forms and is_exact returned by the analysis of the same (program, goal) under the product of
cond2arithm x transform_categoricals x {dispatch default, force_cyclic_solver} x {inferred types,
disable_type_inference + explicit types block with the oracle's reachable value sets}; settings are written
into the settings module exactly as cli/argument_parser._set_settings does.  All successful results are
compared with the exact oracle values (hence pairwise with each other).  Numeric-root options on program-derived
systems: a result that is not exactly right must be flagged rounded, and deviate only within the precision."""
import itertools
import random
from fractions import Fraction

from .. import polar_api as P
from ..gen import programs as G
from ..lang.ast import Program, program_variables, num
from ..lang.printer import program_str
from ..ref.engine import Engine, Unsupported, CapExceeded, DomainError, AP
from ..ref import laws
from . import common as K
from .. import diagnose
from .c01 import compare_closed_form

ID = "C17"
RULE = ("cases = generated programs (discrete/mixed/nested/guarded/linear/multiassign) x goals; each analysed under up to 12 "
        "settings combinations (cond2arithm, transform_categoricals, force_cyclic_solver, explicit types instead of inference, "
        "numeric_roots/numeric_croots with eps in {1e-6,1e-10,1e-20}); non-trivial = >= 3 settings succeeded for a goal of a "
        "program with a condition or random construct and were compared at n=0..N; distinct = (program, goals, values) fingerprint")
ASSUMPTIONS = [
    "two settings agree iff both equal the exact oracle value at every n in 0..N (the oracle value is available, so 'both wrong in the same way' is seen as well)",
    "explicit types: the value sets observed by the reference engine within 12 iterations are declared for the finite variables the generator designed",
    "numeric options: deviation bound 1e4 * eps * (n+1) * max(1,|value|) relative - generous for a correct implementation, O(1) errors fire",
]
UNINIT_COUNTERFACTUAL = True   # worker: unattributed violations are re-run with explicit initial assignments (diagnose.attribute_uninit)
TIMEOUT = {"quick": 30, "thorough": 240}
DEADLINE = {"quick": 80, "thorough": 1000}
MIN_DECIDING = {"quick": 15, "thorough": 150}
NCASES = {"quick": 48, "thorough": 900}


SPECTRA = [
    # (name, simultaneous update over x, y, z[, w])  - characteristic polynomials with roots that are radicals / CRootOf / complex
    ("3real-below-rational-1", "x, y, z = y/2, x/2 + z/4, y/4 + z/4 + 1"),     # (t-1)(16t^3-4t^2-5t+1): three real CRootOf, then 1
    ("3real-then-2", "x, y, z, w = y, z, 3*y - x, 2*w + x"),                   # t^3-3t+1 and the rational root 2 sorted last
    ("plastic", "x, y, z = y, z, x + y"),                                       # t^3-t-1: one real CRootOf + complex pair
    ("fib-plus-1", "x, y, z = y, x + y, z + x"),                                # radicals and 1
    ("rotation", "x, y, z = x - y, x + y, z + 1"),                              # complex pair
    ("3real-half", "x, y, z = y/2, z/2, 3/2*y - x/2 + 1"),                      # scaled casus irreducibilis + inhomogeneous part
    ("double-one-times-fib", "x, y, z = x + y, x, z + x + 1"),                  # (t-1)**2 * (t**2-t-1): square-free factors of different multiplicity
    ("double-two-times-sqrt2", "x, y, z, w = 2*y, x, 2*z + w, 2*w + x"),        # (t-2)**2 * (t**2-2)
]


def designed_cases(seed, tier):
    """linear loops whose recurrence matrix has irrational / CRootOf / complex eigenvalues, all numeric-root settings on:
    a numeric option may change a result only within the precision and must then flag it as rounded"""
    from ..lang.parser import parse_program
    out = []
    reps = 1 if tier == "quick" else 6
    for j, (name, upd) in enumerate(SPECTRA * reps):
        cs = K.harness_seed(seed, ID + "-spectra", j)
        r = random.Random(cs)
        noise = r.choice(["", "", "    x = x + Bernoulli(1/2)\n", "    z = z {1/2} z + 1\n"]) if j >= len(SPECTRA) else ""
        init = "\n".join(f"{v} = {r.randint(0, 4)}" for v in ("x", "y", "z", "w"))
        text = f"{init}\nwhile true:\n    {upd}\n{noise}end\n"
        prog = parse_program(text)
        goals = [{"x": 1}, {"z": 1}] if (r.random() < 0.5 or name.startswith("double")) else [{"y": 1}, {"x": 1}]
        out.append({"id": f"spectra-{name}-{cs}", "text": text, "ast": prog.to_json(), "params": K.frac_enc({}), "inits": K.frac_enc({}),
                    "goals": goals, "N": 6, "fin": [], "numeric": True, "features": ["designed:irrational-spectrum", "spectrum:" + name]})
    return out


def generate(seed, tier):
    cases = designed_cases(seed, tier)
    for i in range(NCASES[tier]):
        cs = K.harness_seed(seed, ID, i)
        rng = random.Random(cs)
        profile = rng.choice(["discrete", "discrete", "mixed", "nested", "guarded", "linear", "linear", "multiassign", "delay", "counter", "abstract"])
        prog, feats, meta = G.generate(cs, profile)
        params, inits = G.instantiate_params(rng, meta, prog)
        pv = program_variables(prog)
        goals = G.goal_monomials(rng, pv, max_deg=2, count=2, prefer=meta["data"] or None)
        cont = bool(meta["draws"])
        cases.append({"id": f"gen-{cs}", "text": program_str(prog), "ast": prog.to_json(), "params": K.frac_enc(params),
                      "inits": K.frac_enc(inits), "goals": goals, "N": 3 if cont else 5, "fin": sorted(meta["fin"]),
                      "numeric": profile == "linear" or rng.random() < 0.3, "features": feats})
    return cases


def worker_init(tier):
    P.load()


def explicit_types_text(prog, fin, params, inits):
    """program text with a types block declaring the reachable value sets of the designed finite variables"""
    eng = Engine(prog, params, inits, max_states=20000)
    seen = {v: set() for v in fin if v in eng.index}

    def on_value(var, val, it):
        if var in seen:
            seen[var].add(val)
    eng.on_value = on_value
    dists = eng.run(12)
    for d in dists:
        for st in d:
            for v in seen:
                seen[v].add(st[eng.index[v]])
    declared = {v for v, _, _ in prog.typedefs}
    tds = list(prog.typedefs)
    for v, vals in seen.items():
        if v in declared:
            continue
        if any(isinstance(x, AP) for x in vals) or len(vals) > 20:
            return None
        tds.append((v, "Finite", [num(x) for x in sorted(vals)]))
    p2 = Program(tds, prog.init, prog.guard, prog.body)
    return program_str(p2)


def run_case(case, tier):
    prog = Program.from_json(case["ast"])
    params = K.frac_dec(case["params"])
    inits = K.frac_dec(case["inits"])
    goals, N = case["goals"], case["N"]
    res = {"fingerprint": K.fingerprint(case["text"], goals, case["params"], case["inits"]), "features": case.get("features", []),
           "events": {}, "violations": [], "comparisons": 0, "refusals": [], "extra": {}}
    try:
        with K.soft_timeout(TIMEOUT[tier] * 0.3):
            table = K.oracle_moments(prog, params, inits, goals, N)
            typed_text = explicit_types_text(prog, case["fin"], params, inits) if case["fin"] else None
    except K.SoftTimeout:
        res.update(verdict="inconclusive", reason="oracle-cap", detail="reference engine time box")
        return res
    except K.OracleSkip as e:
        res.update(verdict="inconclusive", reason=e.reason.split(":")[0], detail=e.reason)
        return res
    except (Unsupported, CapExceeded, DomainError):
        typed_text = None
    values = K.symbol_values(params, inits)
    configs = []
    for c2a, tc in itertools.product([False, True], [False, True]):
        for cyc in (False, True):
            configs.append(({"cond2arithm": c2a, "transform_categoricals": tc}, {"force_cyclic_solver": cyc}, case["text"], "inferred"))
    if typed_text:
        configs.append(({"disable_type_inference": True}, {}, typed_text, "explicit-types"))
        configs.append(({"disable_type_inference": True, "cond2arithm": True}, {"force_cyclic_solver": True}, typed_text, "explicit-types"))
    numeric_cfgs = []
    if case.get("numeric"):
        for nr, ncr, eps in [(True, False, 1e-6), (True, False, 1e-20), (False, True, 1e-10), (True, True, 1e-10)]:
            numeric_cfgs.append(({}, {"force_cyclic_solver": True, "numeric_roots": nr, "numeric_croots": ncr, "numeric_eps": eps}, case["text"], "numeric"))
    succeeded = {i: 0 for i in range(len(goals))}
    outcomes = {i: [] for i in range(len(goals))}
    import time
    lf = K.load_factor()
    t_start = time.time()
    budget = TIMEOUT[tier] * 0.85   # nominal seconds; settings that do not fit the per-case time box are skipped
    # explicit-types and numeric configurations first in every other case, so that the time box does not always cut the same ones
    allcfg = configs + numeric_cfgs
    if int(case["id"].split("-")[-1] or 0) % 2:
        allcfg = allcfg[8:] + allcfg[:8]
    for st, solver_kw, text, tag in allcfg:
        label = tag + ":" + ",".join(f"{k}={v}" for k, v in sorted({**st, **solver_kw}.items()) if v not in (False,))
        left = budget - (time.time() - t_start) / lf
        if left < 2:
            res["events"]["settings-skipped-time-box"] = res["events"].get("settings-skipped-time-box", 0) + 1
            continue
        P.set_settings(**st)
        try:
            try:
                with K.soft_timeout(left):
                    program, rb = P.prepare(text)
            except K.SoftTimeout:
                res["events"]["settings-skipped-time-box"] = res["events"].get("settings-skipped-time-box", 0) + 1
                continue
            except Exception as e:
                res["refusals"].append(f"[{label}] " + P.refusal_key(e))
                continue
            av = K.abstraction_values(program, prog, params)
            if av is None:
                continue
            values.update(av)
            for gi, (g, ref) in enumerate(zip(goals, table)):
                left = budget - (time.time() - t_start) / lf
                if left < 1.5:
                    res["events"]["settings-skipped-time-box"] = res["events"].get("settings-skipped-time-box", 0) + 1
                    break
                try:
                    with K.soft_timeout(left):
                        cf, is_exact, recs = P.closed_form(program, rb, g, **solver_kw)
                    res["events"]["RecurrenceSolver.get"] = res["events"].get("RecurrenceSolver.get", 0) + 1
                except K.SoftTimeout:
                    res["events"]["settings-skipped-time-box"] = res["events"].get("settings-skipped-time-box", 0) + 1
                    break
                except Exception as e:
                    res["refusals"].append(f"[{label}] " + P.refusal_key(e))
                    continue
                if tag == "numeric":
                    bad = check_numeric(cf, is_exact, ref, values, N, res, solver_kw["numeric_eps"])
                else:
                    bad = compare_closed_form(cf, is_exact, ref, values, N, res, g)
                succeeded[gi] += 1
                outcomes[gi].append((label, not bad))
                for v in bad:
                    v["settings"] = label
                    v["goal"] = P.monom_str(g)
                    # every setting runs the same condition abstraction: a value that is wrong because the abstracted event is
                    # decorrelated from its own variables is the known finding, whatever the setting
                    v["key"] = diagnose.classify_moment_violation(case, v, recs, program)
                    v["detail"] = f"[{label}] E({P.monom_str(g)}): " + v["detail"]
                    res["violations"].append(v)
        finally:
            P.reset_settings()
    # classify: a violation is C17-specific iff some other setting got the same goal right
    final = []
    for v in res["violations"]:
        gi = [P.monom_str(g) for g in goals].index(v["goal"])
        others_ok = [l for l, ok in outcomes[gi] if ok]
        v["kind"] = ("setting-changes-result:" if others_ok else "all-settings-wrong:") + v["kind"]
        if others_ok:
            v["detail"] += f"  (correct under: {others_ok[:3]})"
        final.append(v)
    res["violations"] = final
    tot = sum(succeeded.values())
    if tot == 0:
        res.update(verdict="inconclusive", reason="refused")
        return res
    res["extra"]["analyses"] = tot
    res["nontrivial"] = max(succeeded.values()) >= 3 and (K.has_draw_or_choice(prog) or "if" in case["text"])
    res["verdict"] = "violated" if res["violations"] else "held"
    res["sample"] = {"program": case["text"], "goals": [P.monom_str(g) for g in goals],
                     "settings_succeeded": {P.monom_str(g): [l for l, _ in outcomes[i]] for i, g in enumerate(goals)}}
    return res


def check_numeric(cf, is_exact, ref, values, N, res, eps):
    out = []
    for n in range(N + 1):
        try:
            pv = P.eval_at(cf, n, values)
        except (P.Leftover, P.NotANumber) as e:
            out.append({"kind": "numeric-result-not-a-number", "n": n, "detail": f"n={n}: {e}"})
            break
        res["comparisons"] += 1
        rv = ref[n]
        exact_equal = P.values_equal(pv, rv) if isinstance(rv, Fraction) else P.values_equal(pv, rv, rel_tol=1e-15)
        if exact_equal:
            continue
        if is_exact:
            out.append({"kind": "inexact-result-flagged-exact", "n": n,
                        "detail": f"n={n}: numeric-root result {P.val_str(pv)} differs from the exact value {P.val_str(rv)} but is_exact is True"})
            break
        tol = max(1e4 * eps * (n + 1), 1e-13)
        if not P.values_equal(pv, rv, rel_tol=tol):
            out.append({"kind": "rounded-result-off-beyond-precision", "n": n,
                        "detail": f"n={n}: rounded result {P.val_str(pv)} vs exact {P.val_str(rv)} (eps={eps}, allowed relative deviation {tol})"})
            break
    return out
