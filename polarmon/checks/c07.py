"""C07 — the reported invariant basis generates all polynomial relations among the goals.

Monitor: the set returned by InvariantIdeal(closed_forms).compute_basis() (direct workload) / the polynomials printed by
the real CLI `--invariants` (end-to-end workload), used as generators of an ideal.
Oracle: candidate relations = rational null space (own integer Gaussian elimination) of the evaluation matrix of all
monomials of degree <= D in the goal symbols at L = #monomials + 10 consecutive n past the special cases; a candidate
counts only after it is CONFIRMED to vanish identically (goal symbols replaced by the closed forms in the ring of
exponential polynomials: all coefficients of the n^j b^n terms must be 0).  Every confirmed relation must reduce to 0
modulo a grevlex Groebner basis of Polar's basis (sympy.groebner / reduce); when Polar reports no invariants, no confirmed
non-zero relation may exist."""
import random
from fractions import Fraction as F

from .. import polar_api as P
from ..gen import closedforms as CF
from . import common as K

ID = "C07"
RULE = ("cases = (a) seeded tuples of 2-4 exponential polynomials sum c*n^j*b^n (quick: rational coefficients/bases; thorough "
        "also one quadratic field) with multiplicatively dependent / independent bases, derived sequences (products, squares, "
        "linear combinations), constants, pure polynomials, in several syntactic forms, given to InvariantIdeal.compute_basis; "
        "(b) seeded small loop programs and documentation loops through the CLI --invariants (goal sequences from the "
        "reference engine); a case is non-trivial when >= 1 confirmed non-zero relation of degree <= D was tested for "
        "membership, or Polar reported an empty basis for non-constant sequences and the null space was empty; distinct = "
        "distinct (closed-form tuple | program + goals) fingerprints")
ASSUMPTIONS = [
    "relations are decided up to total degree D (3 quick, 4 thorough; 2-3 for >= 4 goals) per instance",
    "own exact arithmetic in Q / Q(sqrt d), own integer Gaussian elimination; n^j*b^n with distinct (b, j) are linearly independent",
    "sympy.groebner (grevlex) and GroebnerBasis.reduce decide ideal membership correctly (Polar uses groebner only for elimination)",
    "end-to-end cases: reference engine semantics; Polar's printed closed forms are used for the symbolic confirmation only after they "
    "agree with the reference engine at all L sampled n; parametric programs are skipped (relations at one parameter value need not be generic)",
]
TIMEOUT = {"quick": 45, "thorough": 120}
DEADLINE = {"quick": 75, "thorough": 1000}
MIN_DECIDING = {"quick": 60, "thorough": 600}
NDIRECT = {"quick": 300, "thorough": 2600}
NCLI = {"quick": 30, "thorough": 400}
MAX_REPORT = 3


def degree_bound(k, tier):
    if tier == "quick":
        return 3
    return 4


def generate(seed, tier):
    cases = list(CF.fixed_direct_cases())
    if tier == "quick":
        cases = [c for c in cases if c["d"] == 0]
    for i in range(NDIRECT[tier]):
        cs = K.harness_seed(seed, ID, i)
        cases.append(CF.gen_direct(cs, tier, allow_alg=(tier != "quick"), rational_share=0.6))
    cli = CF.gen_cli(lambda i: K.harness_seed(seed, ID, i), NCLI[tier], tier)
    for c in cases:      # per-case watchdog: sympy's (EX-domain) groebner inside Polar may run for minutes
        if c["d"] != 0:
            c["timeout"] = 40 if tier == "quick" else 60
        elif tier == "quick":
            c["timeout"] = 30
    out = CF.order_cases(cases, cli, tier)
    sc = symconst_cases(seed, tier)
    step = max(1, len(out) // (len(sc) + 1))
    for j, c in enumerate(sc):
        out.insert(min(len(out), (j + 1) * step), c)
    return out


SYMCONST_TEMPLATES = [
    # (text with the symbolic constant a, goals or None)
    ("x = a\ny = a\nz = a\nwhile true:\n    x = x + 1\n    y = y + 2\n    z = z + 3\nend\n", None),
    ("x = a\ny = 2*a\nwhile true:\n    x = 2*x\n    y = 4*y\nend\n", None),
    ("x = a\ny = 1\nz = 0\nwhile true:\n    x = x + y\n    y = y + 1\n    z = z + a\nend\n", None),
    ("x = 0\ny = a\nwhile true:\n    x = x + 1 {1/2} x - 1\n    y = y + a\nend\n", ["E(x)", "E(y)", "E(x**2)"]),
    ("x = a\ny = a*a\nz = 1\nwhile true:\n    x = 3*x\n    y = 9*y\n    z = 3*z\nend\n", None),
]


def symconst_cases(seed, tier):
    """loops with a SYMBOLIC constant a (initial value / increment): the closed forms and the basis elements live over Q(a); the
    relations among the goals that do not mention a (x - 2*y + z = 0 for x = a+n, y = a+2n, z = a+3n) must still be generated"""
    out = []
    reps = 1 if tier == "quick" else 4
    for j, (text, goals) in enumerate(SYMCONST_TEMPLATES * reps):
        cs = K.harness_seed(seed, ID + "-symconst", j)
        rng = random.Random(cs)
        t = text
        if j >= len(SYMCONST_TEMPLATES):
            t = t.replace("+ 1\n", f"+ {rng.choice([1, 2, 5])}\n", 1).replace("+ 3\n", f"+ {rng.choice([3, 4, 7])}\n", 1)
        out.append({"id": f"symconst-{j}-{cs}", "kind": "symconst", "text": t, "goals": goals, "params": {}, "sym": "a",
                    "features": ["cli", "cli:symbolic-constant"]})
    return out


def run_symconst_case(case, tier):
    """generic (parameter-free, rational-coefficient) relations among the goal sequences are computed from the reference engine at three
    rational values of the constant (one stacked exact nullspace, confirmed at a fourth value); each must reduce to 0 modulo the printed
    basis over the coefficient field Q(a)"""
    import re
    import sympy as sp
    res = {"fingerprint": K.fingerprint(case["text"], case.get("goals")), "features": list(case.get("features", [])), "events": {},
           "violations": [], "comparisons": 0, "refusals": []}
    try:
        ctx = CF.run_polar_cli(case)
    except P.CliRefused as e:
        res.update(verdict="inconclusive", reason="refused", refusal="cli:" + e.key)
        return res
    except CF.CliSkip as e:
        res.update(verdict="inconclusive", reason=e.reason, detail=e.detail)
        return res
    res["events"] = dict(CF.LOG["events"])
    res["events"]["polar.main(--invariants)"] = 1
    gids = ctx["goal_ids"]
    k = len(gids)
    specs = [CF.parse_goal_id(g) for g in gids]
    D = 2
    monos = CF.monomials_upto(k, D)
    L = len(monos) + 6
    a = sp.Symbol(case["sym"])
    vals = [F(3, 7), F(-5, 11), F(13, 4), F(8, 9)]
    rows_all, rows_confirm = [], []
    for vi, v in enumerate(vals):
        text_v = re.sub(r"\b%s\b" % case["sym"], f"({v.numerator}/{v.denominator})", case["text"])
        try:
            table = CF.oracle_goal_table(text_v, {}, specs, L + 2, max_states=4000)
        except CF.CliSkip as e:
            res.update(verdict="inconclusive", reason=e.reason, detail=e.detail)
            return res
        for n in range(2, L + 2):
            row = []
            for m in monos:
                val = F(1)
                for gi, e in enumerate(m):
                    val *= table[gi][n] ** e
                row.append(val)
            (rows_all if vi < 3 else rows_confirm).append(row)
    M = sp.Matrix([[sp.Rational(x.numerator, x.denominator) for x in r] for r in rows_all])
    null = M.nullspace()
    Mc = sp.Matrix([[sp.Rational(x.numerator, x.denominator) for x in r] for r in rows_confirm])
    gsyms = [sp.Symbol(f"g{i}") for i in range(k)]
    rel_polys = []
    for vec in null:
        if any(x != 0 for x in (Mc * vec)):
            continue   # holds at three values only by coincidence: not generic
        poly = sum(c * sp.Mul(*[gs ** e for gs, e in zip(gsyms, m)]) for c, m in zip(vec, monos))
        rel_polys.append(sp.expand(poly))
    res["comparisons"] += len(rows_all) + len(rows_confirm)
    # the printed basis over Q(a)
    basis = []
    for q in ctx["printed"]:
        expr = sp.sympify(q)
        sub = {}
        for gid, gs in zip(gids, gsyms):
            for cand in expr.free_symbols | expr.atoms(sp.Function):
                if str(cand) == gid:
                    sub[cand] = gs
        expr = expr.xreplace(sub)
        if (expr.free_symbols - set(gsyms) - {a}) or expr.atoms(sp.Function):
            res.update(verdict="inconclusive", reason="oracle-unsupported", detail=f"basis element {q} not over the goal symbols")
            return res
        basis.append(expr)
    viol = []
    if rel_polys:
        if not basis:
            viol.append({"kind": "relation-exists-but-none-reported", "key": None,
                         "detail": f"goals {gids} of\n{case['text']}satisfy the parameter-free relation {rel_polys[0]} (g_i = goals in order) for every value of {a}, but no invariants are reported"})
        else:
            G = sp.groebner(basis, *gsyms, domain=sp.QQ.frac_field(a), order="grevlex")
            for rp in rel_polys:
                res["comparisons"] += 1
                _, rem = G.reduce(rp)
                if rem != 0:
                    viol.append({"kind": "relation-not-generated", "key": None,
                                 "detail": f"goals {gids} of\n{case['text']}satisfy {rp} = 0 (g_i = goals in order) for every value of {a}; it does not reduce to 0 modulo the printed basis {ctx['printed']} over Q({a}) (remainder {rem})"})
                    break
    res["violations"] = viol
    res["nontrivial"] = bool(rel_polys)
    res["verdict"] = "violated" if viol else "held"
    res["sample"] = {"program": case["text"], "goals": gids, "generic_relations": [str(r_) for r_ in rel_polys][:3], "printed_invariants": [str(b) for b in ctx["printed"]][:4]}
    return res


def worker_init(tier):
    P.load()
    CF.install_hooks()


def run_case(case, tier):
    if case["kind"] == "symconst":
        return run_symconst_case(case, tier)
    if case["kind"] == "cli":
        return run_cli_case(case, tier)
    return run_direct_case(case, tier)


def relation_space(fld, monos, value_rows, eps, res):
    """confirmed relations (polys) of degree <= D; candidates from the evaluation matrix, confirmed in the EP ring"""
    rows = CF.evaluation_rows(fld, monos, value_rows)
    cands = CF.nullspace(rows, len(monos))
    res["comparisons"] += len(rows)
    confirmed = []
    unconfirmed = 0
    for v in cands:
        q = CF.vec_to_poly(fld, monos, v)
        res["comparisons"] += 1
        if CF.poly_eval_ep(fld, q, eps).is_zero():
            confirmed.append(q)
        else:
            unconfirmed += 1
    if unconfirmed:
        # some candidate vanished on the L sample points only: take the exact relation space instead (null space of the
        # coefficient matrix of the monomials' expansions), every vector of which is an identity by construction
        res["features"].append("candidates:accidental")
        confirmed = []
        for v in CF.nullspace(CF.symbolic_rows(fld, monos, eps), len(monos)):
            q = CF.vec_to_poly(fld, monos, v)
            if not CF.poly_eval_ep(fld, q, eps).is_zero():
                raise RuntimeError("symbolic null space vector is not an identity")
            confirmed.append(q)
    return confirmed, len(cands)


def membership_violations(confirmed, basis_polys, basis_exprs, names, fld, res, describe):
    q_exprs = [CF.poly_to_sympy(q, names, fld) for q in confirmed]
    inside, _G = CF.ideal_membership(q_exprs, basis_polys, names, fld)
    res["comparisons"] += len(q_exprs)
    missing = [(q, e) for q, e, ok in zip(confirmed, q_exprs, inside) if not ok]
    if not missing:
        return
    missing.sort(key=lambda t: (max(sum(m) for m, _ in t[0]), len(t[0])))
    key, diag, fixed = CF.diagnose_and_key(
        names, lambda rec: all(CF.ideal_membership([e for _, e in missing[:MAX_REPORT]],
                                                    [q for q, _ in CF.basis_to_polys(rec, names, fld)], names, fld)[0]))
    for q, e in missing[:MAX_REPORT]:
        res["violations"].append({
            "kind": "relation-not-generated" if basis_exprs else "relation-exists-but-none-reported", "key": key,
            "detail": (f"relation {e} = 0 holds identically for {describe} but does not reduce to 0 modulo Polar's basis "
                       f"{[str(b) for b in basis_exprs]} ({len(missing)} of {len(confirmed)} confirmed relations of degree <= D missing)"
                       " | " + CF.diag_text(diag, fixed)),
            "relation": str(e), "polar_basis": [str(b) for b in basis_exprs], "lattice": diag["lattice"],
            "bad_vectors": diag["bad_vectors"],
        })


def run_direct_case(case, tier):
    fld, names, eps, s = CF.case_setup(case)
    k = len(names)
    res = {"fingerprint": K.fingerprint(case["d"], [(g["name"], g["terms"], g["wrap"], g["specials"]) for g in case["goals"]]),
           "features": list(case.get("features", [])), "events": {}, "violations": [], "comparisons": 0, "refusals": []}
    try:
        basis, cfs = CF.run_polar_direct(case)
    except Exception as e:
        res["events"] = dict(CF.LOG["events"])
        res.update(verdict="inconclusive", reason="refused", refusal=P.refusal_key(e), detail=str(e)[:200])
        return res
    res["events"] = dict(CF.LOG["events"])
    try:
        polys = CF.basis_to_polys(basis, names, fld)     # validates that the basis is polynomial in the goals over fld
    except ValueError as e:
        res.update(verdict="inconclusive", reason="oracle-unsupported", detail=str(e)[:200])
        return res
    basis_exprs = [e for _, e in polys]
    D = degree_bound(k, tier)
    monos = CF.monomials_upto(k, D)
    L = len(monos) + 10
    value_rows = [[ep.eval(n) for ep in eps] for n in range(s + 1, s + 1 + L)]
    confirmed, ncand = relation_space(fld, monos, value_rows, eps, res)
    describe = "; ".join(f"{nm} = {ep.show()}" for nm, ep in zip(names, eps))
    if confirmed:
        membership_violations(confirmed, [q for q, _ in polys], basis_exprs, names, fld, res, describe)
    nonconst = sum(1 for ep in eps if not ep.is_constant())
    res["nontrivial"] = bool(confirmed) or (not basis_exprs and nonconst >= 2)
    res["verdict"] = "violated" if res["violations"] else "held"
    res["features"].append(f"D={D}")
    res["features"].append("relations:some" if confirmed else "relations:none<=D")
    res["features"].append("basis:nonempty" if basis_exprs else "basis:empty")
    res["sample"] = {"closed_forms": {nm: str(cfs[nm])[:160] for nm in names}, "degree_bound": D, "sample_points": L,
                     "confirmed_relations": len(confirmed), "example_relation": CF.poly_str(fld, confirmed[0], names)[:200] if confirmed else None,
                     "polar_basis": [str(b)[:160] for b in basis_exprs][:4]}
    return res


def run_cli_case(case, tier):
    import sympy as sp
    res = {"fingerprint": K.fingerprint(case["text"], case.get("goals"), case.get("params")),
           "features": list(case.get("features", [])), "events": {}, "violations": [], "comparisons": 0, "refusals": []}
    if case.get("params"):
        res.update(verdict="inconclusive", reason="parametric-program")
        return res
    try:
        ctx = CF.run_polar_cli(case)
    except P.CliRefused as e:
        res["events"] = dict(CF.LOG["events"])
        res.update(verdict="inconclusive", reason="refused", refusal="cli:" + e.key)
        return res
    except CF.CliSkip as e:
        res["events"] = dict(CF.LOG["events"])
        res.update(verdict="inconclusive", reason=e.reason, detail=e.detail)
        return res
    res["events"] = dict(CF.LOG["events"])
    res["events"]["polar.main(--invariants)"] = 1
    gids = ctx["goal_ids"]
    k = len(gids)
    try:
        specs = [CF.parse_goal_id(g) for g in gids]
        gens = {g: CF.general_branch(cf) for g, cf in ctx["closed_forms"].items()}
        s = max([v[1] for v in gens.values()] + [-1])
        if any(v[0].free_symbols - {CF.sym_n()} for v in gens.values()):
            raise ValueError("symbolic constants in the closed forms")
        d = CF.detect_field([v[0] for v in gens.values()])
        if d is None:
            raise ValueError("closed forms outside Q / one quadratic field")
        fld = CF.Fld(d)
        eps = [CF.sympy_to_ep(gens[g][0], fld) for g in gids]
        polys = CF.basis_to_polys(ctx["printed"], gids, fld)
    except (ValueError, ZeroDivisionError) as e:
        res.update(verdict="inconclusive", reason="oracle-unsupported", detail=str(e)[:200])
        return res
    if len(ctx["printed"]) != len(ctx["returned"]):
        res.update(verdict="inconclusive", reason="cli-parse-mismatch")
        return res
    basis_exprs = [e for _, e in polys]
    D = degree_bound(k, tier) if k <= 3 else (degree_bound(k, tier) - 1 if k == 4 else 2)
    monos = CF.monomials_upto(k, D)
    L = len(monos) + 10
    n0 = s + 1
    N = n0 + L - 1
    try:
        table = CF.oracle_goal_table(case["text"], {}, specs, N, max_states=4000 if tier == "quick" else 40000)
    except CF.CliSkip as e:
        res.update(verdict="inconclusive", reason=e.reason, detail=e.detail)
        return res
    # the printed closed forms may serve for the symbolic confirmation only if they reproduce the reference sequences
    for gi, g in enumerate(gids):
        for n in range(n0, N + 1):
            res["comparisons"] += 1
            if eps[gi].eval(n) != (table[gi][n], F(0)):
                res.update(verdict="inconclusive", reason="closed-form-disagrees-with-reference",
                           detail=f"{g}: closed form gives {fld.show(eps[gi].eval(n))} at n={n}, reference {table[gi][n]}")
                return res
    value_rows = [[(table[gi][n], F(0)) for gi in range(k)] for n in range(n0, N + 1)]
    confirmed, ncand = relation_space(fld, monos, value_rows, eps, res)
    describe = "program goals " + "; ".join(f"{g} = {ep.show()}" for g, ep in zip(gids, eps))
    if confirmed:
        membership_violations(confirmed, [q for q, _ in polys], basis_exprs, gids, fld, res, describe)
    nonconst = sum(1 for ep in eps if not ep.is_constant())
    res["nontrivial"] = bool(confirmed) or (not basis_exprs and nonconst >= 2)
    res["verdict"] = "violated" if res["violations"] else "held"
    res["features"] += [f"D={D}", "relations:some" if confirmed else "relations:none<=D", "basis:nonempty" if basis_exprs else "basis:empty"]
    res["sample"] = {"program": case["text"], "goals": gids, "degree_bound": D, "sample_points": L, "confirmed_relations": len(confirmed),
                     "example_relation": CF.poly_str(fld, confirmed[0], gids)[:200] if confirmed else None,
                     "printed_invariants": [str(b)[:160] for b in basis_exprs][:4]}
    return res
