"""C10 — reported sensitivities are the parameter derivatives of the exact moments.

Monitor: the lines printed by the real CLI (polar.main in-process) for `-sens p` (sensitivity recurrences,
DiffRecBuilder) and `-sens_diff p` (differentiated closed form), and DiffRecBuilder(program, p) solved directly.
Oracle: for every n the exact moment E_n[M] is a polynomial in p (the generator only lets p enter polynomially:
choice probabilities, Bernoulli/Normal/Uniform parameters, coefficients, constants, initial values); the reference
engine evaluates it at D+2 rational values of p, the polynomial is recovered by exact interpolation (one extra
point confirms the degree bound), differentiated exactly and evaluated at the test values of p."""
import os
import random
import re
import tempfile
from fractions import Fraction

from .. import polar_api as P
from ..gen import programs as G
from ..lang.ast import Program, program_variables, program_symbols, num
from ..lang.printer import program_str
from ..ref.engine import Engine, Unsupported, CapExceeded, DomainError
from ..ref import laws
from . import common as K

ID = "C10"
RULE = ("cases = generated programs of profile 'symbolic' (p enters through choice probabilities, Bernoulli/Normal/Uniform "
        "parameters, coefficients, constant terms and initial values, several at once) with one parameter kept symbolic, goals of "
        "degree <= 2; non-trivial = the exact derivative is not identically zero on the compared range and at least one method "
        "returned a result that was compared at n=0..N for 2 values of p; distinct = (program, parameter, goals) fingerprint")
ASSUMPTIONS = [
    "E_n[M] is a polynomial in the parameter (by construction of the generator); the interpolation degree is confirmed by an extra evaluation point, otherwise the case is inconclusive",
    "reference engine and laws as in C01; N = 3..4 iterations",
]
TIMEOUT = {"quick": 25, "thorough": 240}
DEADLINE = {"quick": 80, "thorough": 1000}
MIN_DECIDING = {"quick": 15, "thorough": 150}
NCASES = {"quick": 56, "thorough": 1000}


def subst_expr(e, m):
    k = e[0]
    if k == "var" and e[1] in m:
        return ("num", m[e[1]])
    if k == "neg":
        return ("neg", subst_expr(e[1], m))
    if k == "bin":
        return ("bin", e[1], subst_expr(e[2], m), subst_expr(e[3], m))
    return e


def subst_any(x, m):
    if isinstance(x, tuple):
        if x and x[0] in ("num", "var", "neg", "bin") and (x[0] != "var" or len(x) == 2):
            try:
                return subst_expr(x, m)
            except Exception:
                pass
        return tuple(subst_any(y, m) for y in x)
    if isinstance(x, list):
        return [subst_any(y, m) for y in x]
    return x


K_SENS_ABS = "sensitivity-ignores-parameter-inside-abstracted-condition"


def designed_cases(seed, tier):
    """the parameter reaches a variable only through a chain of initial assignments; that variable's loop update mentions
    neither the parameter nor any other parameter-dependent variable"""
    from ..lang.parser import parse_program
    out = []
    n = 6 if tier == "quick" else 60
    for j in range(n):
        cs = K.harness_seed(seed, ID + "-chain", j)
        r = random.Random(cs)
        chain = r.choice(["y = x**2", "y = 2*x + 1", "y = x*x + x", "w = 3*x\ny = w**2"])
        upd_y = r.choice(["y = 1/2*y + c", "y = y + 1 {1/3} 1/2*y", "y = 1/2*y"])
        upd_x = r.choice(["x = 1/2*x + 1", "x = x {1/2} 1/2*x", "x = x + c"])
        text = f"x = p\n{chain}\nz = 0\nc = 0\nwhile true:\n    c = Bernoulli(1/2)\n    {upd_x}\n    {upd_y}\n    z = z + x\nend\n"
        prog = parse_program(text)
        pv = program_variables(prog)
        inits = {v: Fraction(r.randint(1, 9), 7) for v in pv}
        tests = [Fraction(r.randint(2, 8), 5), Fraction(7 * r.randint(0, 1) + r.choice([1, 2, 3]), 7)]
        out.append({"id": f"chain-{cs}", "text": text, "ast": prog.to_json(), "param": "p", "param_kind": "real", "inits": K.frac_enc(inits),
                    "goals": [{"y": 1}, {"z": 1}, {"y": 1, "c": 1}][: r.choice([2, 3])], "N": 4, "tests": [[t.numerator, t.denominator] for t in tests],
                    "features": ["designed:chained-initial-assignment"]})
    # the parameter reaches the goal variable only through reads of the PREVIOUS iteration's value of variables assigned later in the
    # body (s reads x, x reads y, y uses p): the dependence needs as many closure rounds as the chain is long and shows from n = depth+2 on;
    # also products of a parameter-dependent with a parameter-independent loop-carried variable
    n = 4 if tier == "quick" else 40
    for j in range(n):
        cs = K.harness_seed(seed, ID + "-backchain", j)
        r = random.Random(cs)
        depth = r.choice([2, 2, 3])
        names = ["s", "x", "y", "w"][: depth + 1]
        last = names[-1]
        src = r.choice([f"{last} = {last} + 1 {{p}} {last}", f"{last} = {last} + 2 {{p}} {last} - 1", f"{last} = {last} + p {{1/2}} {last}"] + ([f"{last} = 1/2*{last} + p**2"] if tier != "quick" else []))
        lines = []
        for a_, b_ in zip(names, names[1:]):
            # quick: unit coefficients only (polynomial closed forms; Polar's own summation of mixed geometric terms takes 20-90 s)
            lines.append(r.choice([f"{a_} = {a_} + {b_}", f"{a_} = {a_} + 2*{b_}"] + ([f"{a_} = 1/2*{a_} + {b_}"] if tier != "quick" else [])))
        lines.append(src)
        kind = "prob" if "{p}" in src else "real"
        indep = r.random() < 0.5
        init = "\n".join(f"{v} = {r.choice([0, 0, 1])}" for v in names)
        if indep:
            init += "\nq = 0\nz = 0"
            lines.append("q = q + 1 {1/3} q - 1")
            lines.append(f"z = z + {'p*' if kind == 'real' else ''}{names[1]}*q")
        text = f"{init}\nwhile true:\n" + "".join(f"    {l}\n" for l in lines) + "end\n"
        prog = parse_program(text)
        goals = ([{"s": 1}, {"s": 2}] if depth == 2 else [{"s": 1}]) if not indep else [{"s": 1}, {"z": 1}, {names[1]: 1, "q": 1}][: 3 if depth == 2 else 2]
        tests = [Fraction(r.randint(2, 8), 11), Fraction(r.randint(1, 6), 7)] if kind == "prob" else \
            [Fraction(5 * r.randint(-1, 1) + r.choice([1, 2, 3, 4]), 5), Fraction(r.choice([1, 2, 3, 4, 5, 6]), 7)]
        out.append({"id": f"backchain-{cs}", "text": text, "ast": prog.to_json(), "param": "p", "param_kind": kind, "inits": K.frac_enc({}),
                    "goals": goals, "N": depth + 2, "tests": [[t.numerator, t.denominator] for t in tests],
                    "features": ["designed:backward-dependency-chain-depth-%d" % depth] + (["designed:dependent-times-independent"] if indep else [])})
    # central-moment and cumulant sensitivity goals of order 4 (where the two differ) on small walks: always part of the workload
    for j in range(2 if tier == "quick" else 12):
        cs = K.harness_seed(seed, ID + "-c4k4", j)
        r = random.Random(cs)
        a_, b_ = r.choice([(1, 1), (2, 1), (1, 2)])
        text = f"x = 0\ny = 0\nwhile true:\n    x = x + {a_} {{p}} x - {b_}\n    y = y + 1 {{1/2}} y\nend\n"
        prog = parse_program(text)
        tests = [Fraction(r.randint(2, 8), 11), Fraction(r.randint(1, 6), 7)]
        out.append({"id": f"c4k4-{cs}", "text": text, "ast": prog.to_json(), "param": "p", "param_kind": "prob", "inits": K.frac_enc({}),
                    "goals": [{"x": 1}], "N": 3, "tests": [[t.numerator, t.denominator] for t in tests],
                    "moment_goals": {"var": "x", "specs": r.choice([[["c", 4], ["k", 4]], [["k", 4], ["c", 4]], [["c", 4], ["k", 3]]])},
                    "features": ["designed:central-and-cumulant-order-4", "central-and-cumulant-sensitivity-goals"]})
    # the parameter inside a branch condition over a fresh continuous draw (u < p): Polar replaces the condition by an opaque
    # probability symbol, the dependence on the parameter must not be lost (known finding K_SENS_ABS when it is)
    for j in range(2 if tier == "quick" else 12):
        cs = K.harness_seed(seed, ID + "-abscond", j)
        r = random.Random(cs)
        cop = r.choice(["<", ">", "<=", ">="])
        upd = r.choice(["x = x + 1", "x = x + 2 {1/2} x", "x = 1/2*x + 1"])
        text = f"x = 0\nu = 0\ny = 0\nwhile true:\n    u = Uniform(0, 1)\n    if u {cop} p:\n        {upd}\n    end\n    y = y + 1 {{1/2}} y\nend\n"
        prog = parse_program(text)
        tests = [Fraction(r.randint(2, 8), 11), Fraction(r.randint(1, 6), 7)]
        out.append({"id": f"abscond-{cs}", "text": text, "ast": prog.to_json(), "param": "p", "param_kind": "prob", "inits": K.frac_enc({}),
                    "goals": [{"x": 1}, {"x": 1, "y": 1}], "N": 3, "tests": [[t.numerator, t.denominator] for t in tests],
                    "features": ["designed:parameter-inside-abstracted-condition"]})
    return out


def generate(seed, tier):
    cases = designed_cases(seed, tier)
    i = 0
    tries = 0
    while len(cases) < NCASES[tier] + 10 and tries < NCASES[tier] * 6:
        tries += 1
        cs = K.harness_seed(seed, ID, tries)
        rng = random.Random(cs)
        prog, feats, meta = G.generate(cs, "symbolic")
        syms = program_symbols(prog)
        if not syms:
            continue
        param = rng.choice(syms)
        params, inits = G.instantiate_params(rng, meta, prog)
        # every other symbolic constant becomes a number in the text
        fixed = {s: params[s] for s in syms if s != param}
        p2 = Program(prog.typedefs, subst_any(prog.init, fixed), subst_any(prog.guard, fixed), subst_any(prog.body, fixed))
        kind = meta["params"].get(param, "real")
        pv = program_variables(p2)
        goals = G.goal_monomials(rng, pv, max_deg=2, count=2, prefer=meta["data"] or None)
        cont = bool(meta["draws"])
        if kind == "prob":
            tests = [Fraction(rng.randint(2, 8), 11), Fraction(rng.randint(1, 6), 7)]
        else:
            # never an integer: closed forms with symbolic coefficients have removable singularities at isolated
            # parameter values (a = 1 in geometric sums) where they evaluate to nan - visible, not silently wrong
            tests = [Fraction(5 * rng.randint(-2, 2) + rng.choice([1, 2, 3, 4]), 5), Fraction(7 * rng.randint(0, 1) + rng.choice([1, 2, 3, 4, 5, 6]), 7)]
        mg = None
        if len(cases) % 2 == 0 and (meta["data"] or pv):
            mv = rng.choice(meta["data"] or pv)
            mg = {"var": mv, "specs": rng.choice([[["c", 2], ["k", 3]], [["c", 4], ["k", 4]], [["c", 3], ["k", 2]], [["c", 4], ["k", 3]]])}
        cases.append({"id": f"gen-{cs}", "text": program_str(p2), "ast": p2.to_json(), "param": param, "param_kind": kind,
                      "inits": K.frac_enc(inits), "goals": goals, "N": 3 if cont else 4, "tests": [[t.numerator, t.denominator] for t in tests],
                      "features": feats + (["central-and-cumulant-sensitivity-goals"] if mg else []), **({"moment_goals": mg} if mg else {})})
    return cases


def worker_init(tier):
    P.load()


def interp_derivative(points, values, at):
    """exact derivative at `at` of the interpolation polynomial through (points, values) (Fractions)"""
    # Newton divided differences -> coefficients in the Newton basis; differentiate by Horner-like evaluation
    n = len(points)
    coef = list(values)
    for j in range(1, n):
        for i in range(n - 1, j - 1, -1):
            coef[i] = (coef[i] - coef[i - 1]) / (points[i] - points[i - j])
    # p(x) = c0 + c1 (x-x0) + c2 (x-x0)(x-x1) ...; evaluate value and derivative
    val = coef[-1]
    der = Fraction(0)
    for i in range(n - 2, -1, -1):
        der = der * (at - points[i]) + val
        val = val * (at - points[i]) + coef[i]
    return val, der


def oracle_derivatives(prog, param, kind, inits, goals, N, tests, max_states, with_values=False):
    """table[g][n][t] = d/dp E_n[M] at tests[t] (with_values: the pair (E_n[M], d/dp E_n[M])); raises K.OracleSkip"""
    deg = 2
    for attempt in range(4):
        D = deg
        if kind == "prob":
            pts = [Fraction(j + 1, D + 4) for j in range(D + 2)]
        else:
            pts = [Fraction(j - D // 2, 3) + Fraction(1, 7) for j in range(D + 2)]
        vals = []
        for pv in pts:
            vals.append(K.oracle_moments(prog, {param: pv}, inits, goals, N, max_states=max_states))
        ok = True
        table = []
        for gi in range(len(goals)):
            rows = []
            for n in range(N + 1):
                ys = [vals[j][gi][n] for j in range(len(pts))]
                if not all(isinstance(y, Fraction) for y in ys):
                    raise K.OracleSkip("oracle-unsupported:numeric moment under a symbolic parameter")
                # degree check: interpolate on all but the last point, predict the last
                v, _ = interp_derivative(pts[:-1], ys[:-1], pts[-1])
                if v != ys[-1]:
                    ok = False
                    break
                rows.append([interp_derivative(pts[:-1], ys[:-1], t) if with_values else interp_derivative(pts[:-1], ys[:-1], t)[1]
                             for t in tests])
            if not ok:
                break
            table.append(rows)
        if ok:
            return table, D
        deg = deg * 2 + 2
    raise K.OracleSkip("oracle-unsupported:moment is not a low-degree polynomial in the parameter")


class Dual:
    """value and derivative with respect to the parameter (exact Fractions)"""
    __slots__ = ("v", "d")

    def __init__(self, v, d=Fraction(0)):
        self.v, self.d = Fraction(v), Fraction(d)

    def __add__(self, o):
        o = o if isinstance(o, Dual) else Dual(o)
        return Dual(self.v + o.v, self.d + o.d)
    __radd__ = __add__

    def __sub__(self, o):
        o = o if isinstance(o, Dual) else Dual(o)
        return Dual(self.v - o.v, self.d - o.d)

    def __mul__(self, o):
        o = o if isinstance(o, Dual) else Dual(o)
        return Dual(self.v * o.v, self.v * o.d + self.d * o.v)
    __rmul__ = __mul__

    def __pow__(self, k):
        r = Dual(1)
        for _ in range(k):
            r = r * self
        return r


def central_from_raw(k, m):
    """k-th central moment from raw moments m[1..k] (m[0] = 1)"""
    from math import comb
    tot = Dual(0)
    for j in range(k + 1):
        tot = tot + (comb(k, j) * (-1) ** (k - j)) * m[j] * (m[1] ** (k - j))
    return tot


def cumulant_from_raw(k, m):
    """k-th cumulant from raw moments by the standard recursion kappa_n = m_n - sum_{j<n} C(n-1,j-1) kappa_j m_{n-j}"""
    from math import comb
    kap = {}
    for n in range(1, k + 1):
        acc = m[n]
        for j in range(1, n):
            acc = acc - comb(n - 1, j - 1) * kap[j] * m[n - j]
        kap[n] = acc
    return kap[k]


_XLINE = re.compile(r"^∂(?P<kind>[ck])(?P<k>\d+)\((?P<m>.*?)\) = (?P<rhs>.*)$")


def check_central_and_cumulant_sensitivities(case, prog, inits, res, tier):
    """-sens_diff on central-moment and cumulant goals of one variable: the printed derivative against the exact one"""
    import sympy
    param, N = case["param"], min(case["N"], 3)
    tests = [Fraction(a, b) for a, b in case["tests"]]
    var_, specs = case["moment_goals"]["var"], case["moment_goals"]["specs"]   # specs: [["c", 4], ["k", 3]]
    kmax = max(k for _, k in specs)
    try:
        table, _ = oracle_derivatives(prog, param, case["param_kind"], inits, [{var_: j} for j in range(1, kmax + 1)], N, tests,
                                      8000 if tier == "quick" else 40000, with_values=True)
    except K.OracleSkip as e:
        res["extra"]["moment-goals-" + e.reason.split(":")[0]] = 1
        return 0
    with tempfile.NamedTemporaryFile("w", suffix=".prob", delete=False) as f:
        f.write(case["text"])
        path = f.name
    try:
        argv = [path, "--goals"] + [f"{kd}{k}({var_})" for kd, k in specs] + ["-sens_diff", param]
        try:
            out = P.run_cli(argv)
            res["events"]["polar.main -sens_diff central/cumulant goals"] = 1
        except SystemExit:
            res["refusals"].append("[diff-closed-form central/cumulant] SystemExit")
            return 0
        except Exception as e:
            res["refusals"].append("[diff-closed-form central/cumulant] " + P.refusal_key(e))
            return 0
        finally:
            P.reset_settings()
    finally:
        os.unlink(path)
    nsym = sympy.Symbol("n", integer=True)
    compared = 0
    for line in out.splitlines():
        m = _XLINE.match(line.strip())
        if not m or "|" in m.group("m"):
            continue
        kd, k = m.group("kind"), int(m.group("k"))
        if [kd, k] not in [list(x) for x in specs]:
            continue
        parts = [p_.strip() for p_ in m.group("rhs").split(";")]
        try:
            specials = [sympy.sympify(p_, locals={"n": nsym}) for p_ in parts[:-1]]
            formula = sympy.sympify(parts[-1], locals={"n": nsym})
        except Exception:
            res["violations"].append({"kind": "unparseable-sensitivity-line", "key": None, "method": "diff-closed-form", "detail": line[:300]})
            continue
        bad = None
        for ti, t in enumerate(tests):
            values = K.symbol_values({param: t}, inits)
            for n in range(N + 1):
                raw = {0: Dual(1)}
                for j in range(1, k + 1):
                    v_, d_ = table[j - 1][n][ti]
                    raw[j] = Dual(v_, d_)
                ref = (central_from_raw(k, raw) if kd == "c" else cumulant_from_raw(k, raw)).d
                ex = specials[n] if n < len(specials) else formula
                try:
                    pv = P.eval_at(ex, n, values)
                except (P.Leftover, P.NotANumber) as e:
                    bad = {"kind": "sensitivity-not-a-number", "detail": f"[diff-closed-form] ∂{kd}{k}({var_})/∂{param} at n={n}, {param}={t}: {e}"}
                    break
                res["comparisons"] += 1
                if not P.values_equal(pv, ref):
                    bad = {"kind": "wrong-sensitivity", "n": n,
                           "detail": f"[diff-closed-form] ∂{kd}{k}({var_})/∂{param} at n={n}, {param}={t}: polar={P.val_str(pv)} exact derivative={P.val_str(ref)}; printed: {str(formula)[:200]}"}
                    break
            if bad:
                break
        compared += 1
        if bad:
            bad.update(method="diff-closed-form", goal=f"{kd}{k}({var_})", key=None)
            res["violations"].append(bad)
    return compared


_DLINE = re.compile(r"^∂E\((?P<m>.*?)\) = (?P<rhs>.*)$")


def parse_sens_output(out):
    """returns {monomial string: (specials, formula)} from the ∂E(..) lines"""
    import sympy
    nsym = sympy.Symbol("n", integer=True)
    res = {}
    for line in out.splitlines():
        m = _DLINE.match(line.strip())
        if not m or "|" in m.group("m"):
            continue
        parts = [p.strip() for p in m.group("rhs").split(";")]
        try:
            specials = [sympy.sympify(p, locals={"n": nsym}) for p in parts[:-1]]
            formula = sympy.sympify(parts[-1], locals={"n": nsym})
        except Exception as e:
            res[str(sympy.sympify(m.group("m")))] = ("unparseable", line)
            continue
        res[str(sympy.sympify(m.group("m")))] = (specials, formula)
    return res


def run_case(case, tier):
    import sympy
    prog = Program.from_json(case["ast"])
    inits = K.frac_dec(case["inits"])
    goals, N, param = case["goals"], case["N"], case["param"]
    tests = [Fraction(a, b) for a, b in case["tests"]]
    res = {"fingerprint": K.fingerprint(case["text"], param, goals), "features": case.get("features", []), "events": {},
           "violations": [], "comparisons": 0, "refusals": [], "extra": {}}
    try:
        table, D = oracle_derivatives(prog, param, case["param_kind"], inits, goals, N, tests, 8000 if tier == "quick" else 40000)
    except K.OracleSkip as e:
        res.update(verdict="inconclusive", reason=e.reason.split(":")[0], detail=e.reason)
        return res
    res["extra"]["interpolation-degree"] = D
    nonzero = any(x != 0 for rows in table for r in rows for x in r)
    with tempfile.NamedTemporaryFile("w", suffix=".prob", delete=False) as f:
        f.write(case["text"])
        path = f.name
    results = {}
    try:
        for method, flag in (("recurrences", "-sens"), ("diff-closed-form", "-sens_diff")):
            argv = [path, "--goals"] + [f"E({P.monom_str(g)})" for g in goals] + [flag, param]
            try:
                out = P.run_cli(argv)
                res["events"]["polar.main " + flag] = 1
                results[method] = parse_sens_output(out)
            except SystemExit:
                res["refusals"].append(f"[{method}] SystemExit")
            except Exception as e:
                res["refusals"].append(f"[{method}] " + P.refusal_key(e))
            finally:
                P.reset_settings()
    finally:
        os.unlink(path)
    compared = 0
    sample = []
    for gi, g in enumerate(goals):
        key = str(sympy.sympify(P.monom_str(g)))
        vals_by_method = {}
        for method, parsed in results.items():
            if key not in parsed:
                continue
            if parsed[key][0] == "unparseable":
                res["violations"].append({"kind": "unparseable-sensitivity-line", "key": None, "method": method, "detail": parsed[key][1][:300]})
                continue
            specials, formula = parsed[key]
            bad = None
            for ti, t in enumerate(tests):
                values = K.symbol_values({param: t}, inits)
                for n in range(N + 1):
                    ex = specials[n] if n < len(specials) else formula
                    try:
                        pv = P.eval_at(ex, n, values)
                    except (P.Leftover, P.NotANumber) as e:
                        if isinstance(e, P.Leftover) and all(str(nm).startswith("_prob") for nm in getattr(e, "names", [])) and getattr(e, "names", []):
                            # the result is expressed in the probability symbol of an abstracted condition, whose value the oracle of
                            # this check does not supply: nothing is decided for this goal (C01 values such symbols)
                            res["extra"]["goal-in-abstraction-symbols"] = res["extra"].get("goal-in-abstraction-symbols", 0) + 1
                            bad = "skip"
                            break
                        bad = {"kind": "sensitivity-not-a-number", "detail": f"[{method}] ∂E({key})/∂{param} at n={n}, {param}={t}: {e}"}
                        break
                    res["comparisons"] += 1
                    rv = table[gi][n][ti]
                    if not P.values_equal(pv, rv):
                        bad = {"kind": "wrong-sensitivity", "n": n,
                               "detail": f"[{method}] ∂E({key})/∂{param} at n={n}, {param}={t}: polar={P.val_str(pv)} exact derivative={P.val_str(rv)}; printed: {'; '.join(map(str, specials))}; {str(formula)[:200]}"}
                        break
                if bad:
                    break
            if bad == "skip":
                continue
            compared += 1
            vals_by_method[method] = bad is None
            if bad:
                bad["method"] = method
                bad["goal"] = key
                bad["key"] = None
                res["violations"].append(bad)
        if len(sample) < 2 and vals_by_method:
            sample.append({"goal": key, "methods_compared": sorted(vals_by_method), "exact_derivative_at_n": [str(r[0]) for r in table[gi]]})
    if case.get("moment_goals"):
        try:
            with K.soft_timeout(TIMEOUT[tier] * 0.35):
                compared += check_central_and_cumulant_sensitivities(case, prog, inits, res, tier)
        except K.SoftTimeout:
            res["extra"]["moment-goals-time-box"] = 1
            P.reset_settings()
    if any(v.get("key") is None for v in res["violations"]):
        # K_SENS_ABS: the parameter occurs in a branch condition of the source program; Polar abstracts such a condition (over a
        # non-finite variable) as a fresh probability symbol that no longer mentions the parameter
        from ..lang.ast import cond_vars, walk_stmts
        in_cond = set()
        for st_ in walk_stmts(prog.body):
            if st_[0] == "if":
                for c_, _ in st_[1]:
                    cond_vars(c_, in_cond)
        explained = param in in_cond
        if not explained:
            # ... or the parameter determines the law of a variable of an abstracted condition (c = Bernoulli(q) tested while c is untyped)
            try:
                from .. import diagnose
                P.reset_settings()
                program_, _rb = P.prepare(case["text"])
                explained = diagnose.param_reaches_abstracted_condition(program_, param)
            except Exception:
                explained = False
            finally:
                P.reset_settings()
        if explained:
            for v in res["violations"]:
                if v.get("key") is None and v.get("kind") == "wrong-sensitivity":
                    v["key"] = K_SENS_ABS
    if compared == 0 and not res["violations"]:
        res.update(verdict="inconclusive", reason="refused")
        return res
    res["nontrivial"] = nonzero
    res["verdict"] = "violated" if res["violations"] else "held"
    res["sample"] = {"program": case["text"], "parameter": param, "test_values": [str(t) for t in tests], "goals": sample}
    return res
