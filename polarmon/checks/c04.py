"""C04 — solved closed forms reproduce the linear recurrence sequence for all n.

Monitor: RecurrenceSolver(Recurrences(...)).get(monomial) / .is_exact of the real Polar code, for systems built
directly from generated matrices (designed Jordan structure), solved with the default dispatch, with
force_cyclic_solver=True and (on a subset) with every root-handling option.
Oracle: exact iteration x(n+1) = A x(n) + b in Fraction arithmetic (polarmon/gen/matrices.py), parameters and
symbolic initial values instantiated with rationals AFTER Polar solved the symbolic system.
"""
import random
import signal
from fractions import Fraction

from .. import polar_api as P
from ..gen import matrices as M
from . import common as K

ID = "C04"
RULE = ("cases = linear systems x(n+1)=A x(n)+b, x(0)=v (2..5 variables quick, ..7 thorough) assembled from Jordan blocks "
        "(eigenvalue 0 sizes 1-4, eigenvalue 1, repeated rational eigenvalues), companion matrices (x^2-x-1, x^2+1, x^2-2x+2, "
        "x^3-2, x^2-2, x^2+x+1, x^3-x-1, ...), coupled above the block diagonal, optionally transposed / similarity-scrambled "
        "by a unimodular integer matrix / permuted, with constant inhomogeneous parts, zero/unit/rational/symbolic initial "
        "vectors and parametric entries; every system is solved by the default dispatch and with force_cyclic_solver=True "
        "(profile 'options': numeric_roots x numeric_croots x eps); every component is compared with exact matrix "
        "iteration at n = 0..s+t+d+2 (s special cases, t terms of the general branch, d dimension). non-trivial = at "
        "least one run returned closed forms and a compared component has a non-constant true sequence; distinct = "
        "distinct (A, b, v, runs) fingerprints")
ASSUMPTIONS = [
    "sympy evaluates Polar's returned Piecewise correctly at integer n and rational parameter values (polar_api.eval_at, 70 digits when irrational)",
    "agreement on s+t+d consecutive n decides all n for the instance: Polar's general branch is an exponential polynomial with <= t terms, the truth is C-finite of order <= d",
    "parametric systems: closed forms are compared at two generic rational instantiations of the parameters (distinct from all numeric eigenvalues)",
    "rounded results (is_exact False): deviation at n<=10 compared with 10*(n+k)*k*eps_rel*cond(V)*max|e_n|*max(1,|C|) measured on the exact roots; "
    "numeric_croots precision taken as 1e-13 (sympy N() default), not eps",
]
TIMEOUT = {"quick": 70, "thorough": 150}
DEADLINE = {"quick": 100, "thorough": 1000}
MIN_DECIDING = {"quick": 60, "thorough": 500}
NCASES = {"quick": 230, "thorough": 2400}
RUN_BUDGET = {"quick": 12, "thorough": 30}    # seconds per solver run and per comparison phase (alarm inside the worker)
CASE_BUDGET = {"quick": 40, "thorough": 100}  # no new run is started after this many seconds (watchdog = TIMEOUT)
HEAVY = ("hard", "repeated_companion", "companion", "scrambled", "parametric", "syminit", "options")

KEY_P1 = "acyclic-zero-coefficient-shift-single-special-case"
KEY_P2 = "cyclic-constants-fitted-inside-zero-eigenvalue-transient"
KEY_P3 = "numeric-roots-drop-complex-eigenvalues"
KEY_FLOAT = "numeric-croots-float-linsolve-unstable"


def generate(seed, tier):
    cases = []
    for name, sysd in M.fixed_cases(tier):
        c = dict(sysd)
        c["id"] = name
        cases.append(c)
    for i in range(NCASES[tier]):
        cs = K.harness_seed(seed, ID, i)
        c = M.generate_system(cs, tier)
        c["id"] = f"sys-{cs}"
        cases.append(c)
    # quick: potentially slow profiles first so that they overlap with the many cheap ones (stable, deterministic);
    # thorough keeps the (pseudo-random) generation order so that a deadline cuts all profiles evenly
    if tier == "quick":
        cases.sort(key=lambda c: (0 if c["profile"] == "fixed" else 1 + (HEAVY.index(c["profile"]) if c["profile"] in HEAVY else len(HEAVY))))
    return cases


# ----------------------------------------------------------------------------------------------- worker side
_counters = {}


def _count(name):
    _counters[name] = _counters.get(name, 0) + 1


def worker_init(tier):
    P.load()
    import recurrences.solver.cyclic_solver as cyc
    import utils.expressions as ue
    if not getattr(cyc.get_all_roots, "_polarmon", False):
        orig = cyc.get_all_roots

        def get_all_roots(*a, **kw):
            _count("get_all_roots")
            return orig(*a, **kw)
        get_all_roots._polarmon = True
        cyc.get_all_roots = get_all_roots
    if not getattr(ue.numerify_croots, "_polarmon", False):
        orig2 = ue.numerify_croots
        depth = [0]

        def numerify_croots(expression):
            if depth[0] == 0:
                _count("numerify_croots")
            depth[0] += 1
            try:
                return orig2(expression)
            finally:
                depth[0] -= 1
        numerify_croots._polarmon = True
        ue.numerify_croots = numerify_croots


class RunTimeout(BaseException):
    """raised by the per-run alarm; BaseException so that no `except Exception` inside Polar/sympy swallows it"""


_timed_out = [False]


def _alarm(signum, frame):
    _timed_out[0] = True
    raise RunTimeout()


def decode(case):
    A = [[M.lf_dec(e) for e in row] for row in case["A"]]
    b = [M.lf_dec(e) for e in case["b"]]
    v = [M.lf_dec(e) for e in case["v"]]
    return A, b, v


def lf_sympy(form, syms):
    import sympy
    e = sympy.Integer(0)
    for k, c in form.items():
        r = sympy.Rational(c.numerator, c.denominator)
        e += r if k == "" else r * syms[k]
    return e


def build_recurrences(case):
    import sympy
    from recurrences import Recurrences
    A, b, v = decode(case)
    xs = [sympy.Symbol(nm) for nm in case["vars"]]
    cs = {nm: sympy.Symbol(nm) for nm in case["consts"]}
    rd, iv = {}, {}
    for i, x in enumerate(xs):
        e = lf_sympy(b[i], cs)
        for j, y in enumerate(xs):
            if A[i][j]:
                e += lf_sympy(A[i][j], cs) * y
        rd[x] = sympy.expand(e)
        iv[x] = lf_sympy(v[i], cs)
    recs = Recurrences(rd, iv, None, const_symbols=list(cs.values()))
    return recs, xs


def shape_of(expr):
    """(s, t, general): number of listed special cases, number of terms of the expanded general branch"""
    import sympy
    s = 0
    general = expr
    if isinstance(expr, sympy.Piecewise):
        for e, c in expr.args:
            if c == True:  # noqa: E712
                general = e
            else:
                ints = [int(a) for a in c.atoms(sympy.Integer)]
                s = max(s, (max(ints) if ints else 0) + 1)
    try:
        g = sympy.expand(general)
        t = len(g.args) if g.is_Add else (0 if g == 0 else 1)
    except Exception:
        t = 8
    nsyms = [a for a in general.free_symbols if a.name == "n"]
    if nsyms:
        pows = [p for p in general.atoms(sympy.Pow) if p.exp.has(nsyms[0])]
        t = max(t, len(pows) + 1)
    return s, t, general


def instantiate_params(f, vals):
    """substitute the parameter values once (n stays symbolic)"""
    import sympy
    m = {}
    for sy in f.free_symbols:
        if sy.name in vals:
            x = vals[sy.name]
            m[sy] = sympy.Rational(x.numerator, x.denominator)
    return f.xreplace(m) if m else f


def numerify_for_eval(g):
    """replace CRootOf atoms by 100-digit floats (sympy re-refines every CRootOf on every evalf call, which makes
    the 70-digit evaluation very slow)"""
    from sympy.polys.rootoftools import ComplexRootOf
    croots = g.atoms(ComplexRootOf)
    if croots:
        g = g.xreplace({r: croot_value(r) for r in croots})
    return g


_croot_cache = {}


def croot_value(r):
    """100-digit value of a sympy CRootOf: roots of its polynomial by mpmath.polyroots, matched to the CRootOf by its
    (cheap) 20-digit evalf; falls back to sympy's own slow refinement when the match is not unambiguous"""
    import sympy
    import mpmath as mp
    if r in _croot_cache:
        return _croot_cache[r]
    val = None
    try:
        coeffs = r.poly.all_coeffs()
        with mp.workdps(130):
            cs = [mp.mpf(int(c.p)) / int(c.q) for c in coeffs]
            roots = mp.polyroots(cs, maxsteps=2000, extraprec=1000)
            z = r.evalf(20)
            zr, zi = z.as_real_imag()
            zc = mp.mpc(mp.mpf(str(zr)), mp.mpf(str(zi)))
            ds = sorted((abs(x - zc), i) for i, x in enumerate(roots))
            if ds[0][0] < mp.mpf("1e-15") and (len(ds) == 1 or ds[1][0] > mp.mpf("1e-8")):
                x = roots[ds[0][1]]
                re_ = sympy.Float(mp.nstr(mp.re(x), 110), 100)
                im_ = sympy.Float(mp.nstr(mp.im(x), 110), 100)
                if r.is_real:
                    val = re_
                else:
                    val = re_ + sympy.I * im_
    except Exception:
        val = None
    if val is None:
        val = r.evalf(100)
    _croot_cache[r] = val
    return val


def eval_form(f, n_val):
    """value of a parameter-free closed form at n = n_val: Fraction when sympy reduces it to a rational, else a
    70-digit mpmath number.  Fast path (select the Piecewise branch, substitute, evalf) of polar_api.eval_at, which is
    the fallback whenever anything here is not clear-cut."""
    import sympy
    import mpmath as mp
    try:
        nsym = [a for a in f.free_symbols if a.name == "n"]
        m = {nsym[0]: sympy.Integer(n_val)} if nsym else {}
        e = f
        if isinstance(f, sympy.Piecewise):
            e = None
            for ex, c in f.args:
                cv = c.xreplace(m) if m else c
                if cv == True:  # noqa: E712
                    e = ex
                    break
                if cv != False:  # noqa: E712
                    return P.eval_at(f, n_val, {})
            if e is None:
                return P.eval_at(f, n_val, {})
        r = e.xreplace(m) if m else e
        if r.free_symbols or r.has(sympy.Piecewise) or r.has(sympy.nan, sympy.zoo, sympy.oo, -sympy.oo):
            return P.eval_at(f, n_val, {})
        if r.is_Rational:
            return Fraction(int(r.p), int(r.q))
        v = sympy.N(r, 70)
        if v.is_Rational:
            return Fraction(int(v.p), int(v.q))
        re_, im_ = v.as_real_imag()
        if not (re_.is_Float or re_.is_Rational) or not (im_.is_Float or im_.is_Rational):
            return P.eval_at(f, n_val, {})
        rv, iv = mp.mpf(str(re_)), mp.mpf(str(im_))
        return mp.mpc(rv, iv) if iv != 0 else rv
    except (P.Leftover, P.NotANumber):
        raise
    except RunTimeout:
        raise
    except Exception:
        return P.eval_at(f, n_val, {})


def numeric_system(A, b, v, inst):
    vals = {k: Fraction(x) for k, x in inst.items()}
    An = [[M.lf_eval(e, vals) for e in row] for row in A]
    bn = [M.lf_eval(e, vals) for e in b]
    vn = [M.lf_eval(e, vals) for e in v]
    return An, bn, vn, vals


def reach_from_zero_diag_chain(A):
    """set of variables whose value depends (reflexive-transitively) on a variable with zero diagonal coefficient
    that itself depends on another variable (symbolic structure: linear forms)"""
    d = len(A)
    src = {i for i in range(d) if not A[i][i] and any(A[i][j] for j in range(d) if j != i)}
    reach = set(src)
    changed = True
    while changed:
        changed = False
        for i in range(d):
            if i not in reach and any(A[i][j] and j in reach for j in range(d) if j != i):
                reach.add(i)
                changed = True
    return reach


def deviation_model(An, bn, vn, comp, info, eps_eff):
    """bound(n) for a rounded result, measured on the exact roots (mpmath, own code).  Returns None when the
    fit is too ill-conditioned for a first-order statement."""
    import mpmath as mp
    with mp.workdps(50):
        Maug = M.augmented(An, bn)
        cp = [Fraction(c) for c in info["charpoly"]]
        roots = []
        for f, m in M.squarefree_factors(cp):
            if len(f) == 2:
                rs = [-mp.mpf(f[1].numerator) / f[1].denominator]
            else:
                coeffs = [mp.mpf(c.numerator) / c.denominator for c in f]
                rs = mp.polyroots(coeffs, maxsteps=500, extraprec=400)
            for r in rs:
                if abs(r) > mp.mpf(10) ** -30:
                    roots.append((r, m))
        k = sum(m for _, m in roots)
        if k == 0:
            return {"k": 0, "bound": lambda n: mp.mpf(0), "cond": 0}
        start = max(1, info["zero_index"])
        cols = [(r, j) for r, m in roots for j in range(m)]
        V = mp.matrix(k, k)
        for a in range(k):
            n = start + a
            for c, (r, j) in enumerate(cols):
                V[a, c] = (mp.mpf(n) ** j) * (r ** n)
        seq = M.iterate(An, bn, vn, start + k)
        rhs = mp.matrix([mp.mpf(seq[start + a][comp].numerator) / seq[start + a][comp].denominator for a in range(k)])
        try:
            Vi = mp.inverse(V)
        except ZeroDivisionError:
            return None
        cond = mp.mnorm(V, mp.inf) * mp.mnorm(Vi, mp.inf)
        C = Vi * rhs
        cmax = max([abs(c) for c in C] + [mp.mpf(1)])
        rmin = min(abs(r) for r, _ in roots)
        rmax = max([abs(r) for r, _ in roots] + [mp.mpf(1)])
        mmax = max(m for _, m in roots)
        eps_rel = mp.mpf(eps_eff) / min(mp.mpf(1), rmin)
        if cond * k * eps_rel > mp.mpf("1e-3"):
            return None

        def bound(n):
            e_n = (mp.mpf(max(n, 1)) ** (mmax - 1)) * rmax ** max(n, start + k)
            return 10 * (n + start + k) * k * eps_rel * cond * e_n * cmax
        return {"k": k, "bound": bound, "cond": float(cond)}


def run_case(case, tier):
    import mpmath as mp
    A, b, v = decode(case)
    d = len(A)
    inhom = any(b)
    dim = d + (1 if inhom else 0)
    res = {"fingerprint": K.fingerprint(case["A"], case["b"], case["v"], case["runs"]),
           "features": list(case.get("features", [])), "events": {}, "violations": [], "comparisons": 0,
           "refusals": [], "extra": {}}
    ev = res["events"]
    extra = res["extra"]

    def bump(dct, k, by=1):
        dct[k] = dct.get(k, 0) + by

    _counters.clear()
    P.reset_settings()
    try:
        recs, xs = build_recurrences(case)
        bump(ev, "Recurrences.__init__")
    except Exception as e:
        res.update(verdict="inconclusive", reason="refused", refusal=P.refusal_key(e))
        return res
    res["features"].append("dispatch:acyclic" if recs.is_acyclic else "dispatch:cyclic")

    instances = []
    for inst in case["instances"]:
        An, bn, vn, vals = numeric_system(A, b, v, inst)
        info = M.spectrum_info(M.augmented(An, bn))
        instances.append((An, bn, vn, vals, info))
    info0 = instances[0][4]
    if info0["zero_mult"] >= 2:
        res["features"].append("zero-eigenvalue-mult>=2")
    if info0["zero_index"] >= 2:
        res["features"].append("zero-eigenvalue-index>=2")
    if info0["has_complex"]:
        res["features"].append("complex-eigenvalues")
    if info0["one_mult"] >= 2:
        res["features"].append("eigenvalue-1-mult>=2")
    if info0["max_mult"] >= 2:
        res["features"].append("repeated-eigenvalue")
    zreach = reach_from_zero_diag_chain(A)
    if zreach:
        res["features"].append("zero-diagonal-chain")

    from recurrences.solver import RecurrenceSolver
    import time
    t_case = time.time()
    run_budget = case.get("run_budget", RUN_BUDGET[tier])   # a few fixed witnesses need longer than the tier default
    timed_out_kinds = set()
    kinds_done = set()
    runs_done = 0
    nontrivial = False
    sample_runs = []
    seen_keys = set()
    old_handler = signal.signal(signal.SIGALRM, _alarm)
    try:
        for run in case["runs"]:
            kw = {"force_cyclic_solver": bool(run.get("force_cyclic", False))}
            numeric_roots = bool(run.get("numeric_roots", False))
            numeric_croots = bool(run.get("numeric_croots", False))
            eps = run.get("numeric_eps")
            if "numeric_roots" in run:
                kw["numeric_roots"] = numeric_roots
            if "numeric_croots" in run:
                kw["numeric_croots"] = numeric_croots
            if eps is not None:
                kw["numeric_eps"] = float(eps)
            label = "default" if not kw["force_cyclic_solver"] else "forced-cyclic"
            if numeric_roots or numeric_croots:
                label += f"+nr={int(numeric_roots)},nc={int(numeric_croots)},eps={eps}"
            opt_sig = ("cyclic" if (kw["force_cyclic_solver"] or not recs.is_acyclic) else "acyclic", numeric_roots, numeric_croots, eps)
            if opt_sig in timed_out_kinds:      # the very same solver configuration already ran out of time
                bump(extra, "run-skipped-same-as-timed-out")
                continue
            if time.time() - t_case > max(CASE_BUDGET[tier], run_budget):
                bump(extra, "run-skipped-case-budget")
                continue
            P.reset_settings()
            _timed_out[0] = False
            t_run = time.time()
            signal.setitimer(signal.ITIMER_REAL, run_budget)
            try:
                solver = RecurrenceSolver(recs, **kw)
                kind = "acyclic" if type(solver.solver).__name__ == "AcyclicSolver" else "cyclic"
                forms = [solver.get(x) for x in xs]
                is_exact = bool(solver.is_exact)
            except RunTimeout:
                bump(extra, "run-timeout")
                timed_out_kinds.add(opt_sig)
                res["refusals"].append("timeout:" + label.split("+")[0])
                continue
            except Exception as e:
                signal.setitimer(signal.ITIMER_REAL, 0)
                res["refusals"].append(P.refusal_key(e))
                bump(extra, "run-refused")
                continue
            finally:
                signal.setitimer(signal.ITIMER_REAL, 0)
            if _timed_out[0]:   # the alarm fired but something swallowed it: the run is not trustworthy
                bump(extra, "run-timeout")
                res["refusals"].append("timeout:" + label.split("+")[0])
                continue
            bump(extra, "ms:polar-solve", int(1000 * (time.time() - t_run)))
            t_run = time.time()
            bump(ev, "RecurrenceSolver.get", len(xs))
            bump(ev, ("AcyclicSolver.get" if kind == "acyclic" else "CyclicSolver.get"), len(xs))
            bump(ev, "Solver.is_exact")
            bump(extra, f"runs:{kind}")
            if not is_exact:
                bump(extra, "runs:flagged-rounded")

            # ---- compare every component with the oracle
            signal.setitimer(signal.ITIMER_REAL, run_budget)
            try:
                run_viol = []
                n_checked = 0
                run_cmp = 0
                for (An, bn, vn, vals, info) in instances:
                    truth = M.iterate(An, bn, vn, 60)
                    for ci, f0 in enumerate(forms):
                        fi = instantiate_params(f0, vals)
                        s, t, _g = shape_of(fi)
                        f = numerify_for_eval(fi)
                        N = min(s + t + dim + 2, 60)
                        if s + t + dim + 2 > 60:
                            bump(extra, "n-range-capped-at-60")
                        n_checked = max(n_checked, N)
                        if len({truth[n][ci] for n in range(N + 1)}) > 1:
                            nontrivial = True
                        dev = None
                        if not is_exact:
                            eps_eff = float(eps) if (numeric_roots and eps is not None) else (1e-10 if numeric_roots else 1e-13)
                            dev = deviation_model(An, bn, vn, ci, info, eps_eff)
                            if dev is None:
                                bump(extra, "deviation-ill-conditioned")
                            else:
                                bump(extra, "deviation-checked-components")
                        bad = None
                        for n in range(0, N + 1):
                            if not is_exact and n > 10:
                                break
                            tv = truth[n][ci]
                            try:
                                pv = eval_form(f, n)
                            except P.Leftover as e:
                                bad = {"kind": "leftover-symbol", "n": n, "detail": f"symbols {e.names} remain: {e.value}"}
                                break
                            except P.NotANumber as e:
                                bad = {"kind": "not-a-number", "n": n, "detail": f"value is {e}"}
                                break
                            if is_exact or dev is not None:
                                run_cmp += 1
                            if is_exact:
                                ok = P.values_equal(pv, tv)
                                if not ok:
                                    bad = {"kind": "wrong-value-flagged-exact", "n": n, "polar": P.val_str(pv), "truth": P.val_str(tv)}
                                    break
                            else:
                                if dev is None:
                                    continue
                                with mp.workdps(60):
                                    pvm = mp.mpf(pv.numerator) / pv.denominator if isinstance(pv, Fraction) else pv
                                    tvm = mp.mpf(tv.numerator) / tv.denominator
                                    err = abs(pvm - tvm)
                                    bnd = dev["bound"](n)
                                    if bnd < mp.mpf("0.05") * max(1, abs(tvm)):
                                        bump(extra, "deviation-bound-tight")
                                    if err > bnd:
                                        bad = {"kind": "rounded-deviation-too-large", "n": n, "polar": P.val_str(pv), "truth": P.val_str(tv),
                                               "abs_error": mp.nstr(err, 6), "allowed": mp.nstr(bnd, 6), "cond": dev["cond"]}
                                        break
                                    if err > 0 and bnd > 0:
                                        ratio = float(err / bnd)
                                        extra["max-deviation-ratio-e6"] = max(extra.get("max-deviation-ratio-e6", 0), int(ratio * 1e6))
                        if bad is not None:
                            # the three known mechanisms corrupt the general branch only: the listed special cases are
                            # plain matrix iterates, a mismatch there is something else
                            in_general = bad["n"] >= s
                            key = classify(kind, numeric_roots, info, ci in zreach, numeric_croots, is_exact, f0) if (in_general and bad["kind"] in ("wrong-value-flagged-exact", "rounded-deviation-too-large")) else None
                            bad.update(key=key, run=label, solver=kind, is_exact=is_exact, component=case["vars"][ci],
                                       truth_seq=[P.val_str(truth[n][ci]) for n in range(min(N, 7) + 1)],
                                       closed_form=str(f0)[:400],
                                       system=render_system(case), spectrum={k: info[k] for k in ("zero_mult", "zero_index", "has_complex", "max_mult")})
                            bad["detail"] = (f"[{label}/{kind}] {case['vars'][ci]}(n={bad['n']}): polar={bad.get('polar')} truth={bad.get('truth')} "
                                             f"is_exact={is_exact}; {bad.get('detail','')} closed_form={str(f0)[:200]} system={render_system(case)}")
                            sig = (label, key, bad["kind"])
                            if sig not in seen_keys:
                                seen_keys.add(sig)
                                run_viol.append(bad)
                res["comparisons"] += run_cmp
                res["violations"] += run_viol
                bump(extra, "ms:oracle-compare", int(1000 * (time.time() - t_run)))
                runs_done += 1
                kinds_done.add(kind)
                if len(sample_runs) < 2:
                    sample_runs.append({"run": label, "solver": kind, "is_exact": is_exact,
                                        "closed_form[0]": str(forms[0])[:200], "n_checked_upto": n_checked})
            except RunTimeout:
                bump(extra, "compare-timeout")
                continue
            finally:
                signal.setitimer(signal.ITIMER_REAL, 0)
    finally:
        signal.setitimer(signal.ITIMER_REAL, 0)
        signal.signal(signal.SIGALRM, old_handler)
        P.reset_settings()
    for k_, c_ in _counters.items():
        bump(ev, k_, c_)
    if runs_done == 0:
        reason = "refused" if any(not r.startswith("timeout:") for r in res["refusals"]) else "timeout"
        res.update(verdict="inconclusive", reason=reason)
        return res
    if len(kinds_done) == 2:
        bump(extra, "cases:both-solvers-vs-oracle")
    res["nontrivial"] = nontrivial
    res["verdict"] = "violated" if res["violations"] else "held"
    An, bn, vn, vals, info = instances[0]
    res["sample"] = {"system": render_system(case), "instance": case["instances"][0],
                     "truth[0]": [P.val_str(r[0]) for r in M.iterate(An, bn, vn, 6)], "runs": sample_runs,
                     "spectrum": {k: info[k] for k in ("charpoly", "zero_mult", "zero_index", "has_complex")}}
    return res


def classify(kind, numeric_roots, info, comp_on_zero_chain, numeric_croots=False, is_exact=True, form=None):
    """mechanism key from diagnostic predicates over the witness (never from values)"""
    import sympy
    if kind == "acyclic":
        return KEY_P1 if comp_on_zero_chain else None
    if numeric_roots and info["has_complex"]:
        return KEY_P3
    if info["zero_index"] >= 2:
        return KEY_P2
    if numeric_croots and not numeric_roots and not is_exact and form is not None and form.atoms(sympy.Float):
        # CRootOf roots were replaced by 15-digit floats and the unknowns were then solved by sympy linsolve
        return KEY_FLOAT
    return None


def render_system(case):
    A, b, v = decode(case)
    rows = []
    for i, x in enumerate(case["vars"]):
        terms = []
        for j, y in enumerate(case["vars"]):
            e = A[i][j]
            if not e:
                continue
            s = M.lf_str(e)
            terms.append(y if s == "1" else f"({s})*{y}")
        if b[i]:
            terms.append(M.lf_str(b[i]))
        rows.append(f"{x}' = {' + '.join(terms) if terms else '0'}")
    init = ", ".join(f"{x}={M.lf_str(v[i])}" for i, x in enumerate(case["vars"]))
    return "; ".join(rows) + " | init: " + init
