"""C03 — moment recurrences are exact one-step expectation identities and closed.

Monitor: the Recurrences object returned by RecBuilder.get_recurrences (recurrence_dict, init_values_dict,
recurrence_matrix, init_values_vector).  Oracle: the law of the *normalized* program (read through ref/ir.py
and executed by the reference engine; C02 validates that program against the source):
  (1) structure: every right-hand-side monomial has its own equation, coefficients are free of program
      variables, matrix/vector represent the dictionaries;
  (2) state-wise identity on reachable boundary states (discrete programs): E[M(s') | s] = R(s);
  (3) expectation identity E_{n+1}[M] = R(E_n[.]) for n < N and initial values = E_0[M]."""
import random
from fractions import Fraction

from .. import polar_api as P
from ..gen import programs as G
from ..gen import corpus as CORPUS
from ..lang.ast import Program, program_variables
from ..lang.parser import parse_expr, ParseError
from ..lang.printer import program_str
from ..ref.engine import Engine, Unsupported, CapExceeded, DomainError, AP, eval_expr
from ..ref import laws
from . import common as K
from . import stages as S
from .. import diagnose

ID = "C03"
RULE = ("cases = generated programs (all profiles) and corpus files with 1-3 goal monomials (degree <= 3, chosen to force power "
        "reduction of finite variables); every monomial of every generated system is checked; non-trivial = a system with "
        ">= 2 equations of a program with a condition or random construct had all its equations checked state-wise or in "
        "expectation for n < N; distinct = (program text, goals, settings, values) fingerprint")
ASSUMPTIONS = [
    "the normalized program's own law (reference engine over ref/ir.py) is the reference; C02 ties it to the source program",
    "state-wise identity is demanded on states reachable within N iterations only; programs with continuous draws or abstracted "
    "conditions are checked at expectation level only",
]
UNINIT_COUNTERFACTUAL = True   # worker: unattributed violations are re-run with explicit initial assignments (diagnose.attribute_uninit)
TIMEOUT = {"quick": 40, "thorough": 120}
DEADLINE = {"quick": 100, "thorough": 1000}
MIN_DECIDING = {"quick": 40, "thorough": 300}
NCASES = {"quick": 200, "thorough": 3500}


def generate(seed, tier):
    cases = []
    for i in range(NCASES[tier]):
        cs = K.harness_seed(seed, ID, i)
        rng = random.Random(cs)
        prog, feats, meta = G.generate(cs)
        params, inits = G.instantiate_params(rng, meta, prog)
        pv = program_variables(prog)
        goals = G.goal_monomials(rng, pv, max_deg=3, count=rng.choice([1, 2, 3]), prefer=(list(meta["fin"]) + meta["data"]) or None)
        cont = bool(meta["draws"])
        cfg = {} if rng.random() < 0.7 else rng.choice([{"cond2arithm": True}, {"transform_categoricals": True}])
        cases.append({"id": f"gen-{cs}", "text": program_str(prog), "ast": prog.to_json(), "params": K.frac_enc(params),
                      "inits": K.frac_enc(inits), "goals": goals, "N": (2 if cont else 4) if tier == "quick" else (3 if cont else 5),
                      "settings": cfg, "features": feats})
    for c in CORPUS.cases(seed, tier, 25 if tier == "quick" else 300, ID, N=3):
        c["settings"] = {}
        cases.append(c)
    return cases


def worker_init(tier):
    P.load()


def sym_to_monomial(m):
    """sympy monomial -> dict var->int, or None"""
    import sympy
    if m == 1:
        return {}
    d = {}
    for b, e in sympy.sympify(m).as_powers_dict().items():
        if not b.is_Symbol or not e.is_Integer or e < 0:
            return None
        d[b.name] = int(e)
    return d


def run_case(case, tier):
    import sympy
    prog = Program.from_json(case["ast"])
    params = K.frac_dec(case["params"])
    inits = K.frac_dec(case["inits"])
    N = case["N"]
    cfg = case.get("settings", {})
    res = {"fingerprint": K.fingerprint(case["text"], case["goals"], cfg, case["params"], case["inits"]),
           "features": case.get("features", []), "events": {}, "violations": [], "comparisons": 0, "refusals": [], "extra": {}}
    src_vars = set(program_variables(prog))
    try:
        stages, program, refusal = S.collect_stages(case["text"], cfg)
        if refusal or program is None:
            res.update(verdict="inconclusive", reason="refused", refusal=refusal)
            return res
        final = stages[-1]
        if final.ast is None:
            res.update(verdict="inconclusive", reason="oracle-unsupported", detail=final.error)
            return res
        ai = S.aux_inits(final.ast, src_vars, inits)
        av = K.abstraction_values(program, prog, params)
        if av is None:
            res.update(verdict="inconclusive", reason="abstraction-outside-oracle")
            return res
        params = dict(params)
        params.update(av)
        try:
            eng = Engine(final.ast, params, ai, max_states=20000 if tier == "quick" else 100000)
            dists = eng.run(N)
        except (Unsupported, CapExceeded, DomainError, laws.Divergent) as e:
            res.update(verdict="inconclusive", reason="oracle-" + type(e).__name__, detail=str(e)[:100])
            return res
        # user-declared types must hold (else the program is outside the property)
        try:
            seng = Engine(prog, params, inits, max_states=20000)
            sd = seng.run(N)
            bad = K.declared_types_violated(prog, seng, sd)
            if bad:
                res.update(verdict="inconclusive", reason="declared-type-false", detail=str(bad))
                return res
        except (Unsupported, CapExceeded, DomainError, laws.Divergent):
            pass
        discrete = all(eng.is_discrete_dist(d) for d in dists)
        values = K.symbol_values(params, ai)
        from recurrences import RecBuilder
        rb = RecBuilder(program)
        from symengine.lib.symengine_wrapper import sympify as se_sympify
        const_names = {str(s) for s in program.symbols}
        var_names = {str(v) for v in program.variables}
        systems = 0
        equations = 0
        for g in case["goals"]:
            if any(v not in var_names for v in g):
                continue
            try:
                recs = rb.get_recurrences(se_sympify(P.monom_str(g)))
                res["events"]["RecBuilder.get_recurrences"] = res["events"].get("RecBuilder.get_recurrences", 0) + 1
            except Exception as e:
                res["refusals"].append(P.refusal_key(e))
                continue
            systems += 1
            viols = check_system(recs, eng, dists, values, var_names, const_names, discrete, N, res, tier)
            for v in viols:
                v["goal"] = P.monom_str(g)
                v["key"] = diagnose.classify_recurrence_violation(case, v, recs, program, final, inits)
            res["violations"] += viols
            equations += len(recs.recurrence_dict)
    finally:
        P.reset_settings()
    if systems == 0:
        res.update(verdict="inconclusive", reason="refused" if res["refusals"] else "no-goal-applicable")
        return res
    res["extra"]["equations"] = equations
    res["nontrivial"] = equations >= 2 and (K.has_draw_or_choice(prog) or "if" in case["text"] or "while true" not in case["text"])
    res["verdict"] = "violated" if res["violations"] else "held"
    res["sample"] = {"program": case["text"], "settings": cfg, "goals": [P.monom_str(g) for g in case["goals"]],
                     "equations_checked": equations, "mode": "state-wise + expectation" if discrete else "expectation",
                     "example_equation": None}
    return res


def check_system(recs, eng, dists, values, var_names, const_names, discrete, N, res, tier):
    import sympy
    viols = []
    rd = recs.recurrence_dict
    keys = list(rd.keys())
    keyset = set(keys)
    monos = {}
    parsed_rhs = {}
    for m in keys:
        md = sym_to_monomial(m)
        if md is None or any(v not in eng.index for v in md):
            viols.append({"kind": "bad-monomial", "detail": f"equation key {m} is not a monomial over program variables"})
            return viols
        monos[m] = md
    # (1) structure
    for m, rhs in rd.items():
        rhs = sympy.expand(rhs)
        vars_in = sorted([s for s in rhs.free_symbols if s.name in var_names], key=lambda s: s.name)
        bad_syms = [s.name for s in rhs.free_symbols if s.name not in var_names and s.name not in const_names]
        if bad_syms:
            viols.append({"kind": "unknown-symbol-in-recurrence", "detail": f"E({m})' = {rhs}: symbols {bad_syms} are neither variables nor constants"})
            continue
        terms = []
        if vars_in:
            try:
                poly = sympy.Poly(rhs, *vars_in)
            except sympy.PolynomialError:
                viols.append({"kind": "non-polynomial-recurrence", "detail": f"E({m})' = {rhs} is not polynomial in the program variables"})
                continue
            for exps, coeff in poly.terms():
                mon = sympy.Mul(*[v ** e for v, e in zip(vars_in, exps)])
                terms.append((coeff, mon))
        else:
            terms.append((rhs, sympy.Integer(1)))
        for coeff, mon in terms:
            res["comparisons"] += 1
            if mon != 1 and mon not in keyset:
                viols.append({"kind": "system-not-closed", "detail": f"right-hand side of E({m}) contains {mon} which has no equation in the system"})
        parsed_rhs[m] = terms
    # matrix / vector representation
    try:
        mons = list(recs.monomials)
        vec = list(mons) + ([sympy.Integer(1)] if recs.is_inhomogeneous else [])
        M = recs.recurrence_matrix
        for i, m in enumerate(mons):
            row = sum((M[i, j] * vec[j] for j in range(len(vec))), sympy.Integer(0))
            res["comparisons"] += 1
            if sympy.expand(row - rd[m]) != 0:
                viols.append({"kind": "matrix-mismatch", "detail": f"row {i} of recurrence_matrix gives {sympy.expand(row)} but recurrence_dict[{m}] = {rd[m]}"})
            if sympy.expand(recs.init_values_vector[i] - recs.init_values_dict[m]) != 0:
                viols.append({"kind": "init-vector-mismatch", "detail": f"init_values_vector[{i}] != init_values_dict[{m}]"})
    except Exception as e:
        viols.append({"kind": "matrix-unreadable", "detail": f"{type(e).__name__}: {e}"})
    if viols:
        return viols
    # numeric coefficients at the sampled parameter values
    num_terms = {}
    for m, terms in parsed_rhs.items():
        lst = []
        for coeff, mon in terms:
            try:
                c = P.eval_at(coeff, None, values)
            except (P.Leftover, P.NotANumber) as e:
                viols.append({"kind": "coefficient-not-constant", "detail": f"coefficient {coeff} of {mon} in E({m})': {e}"})
                return viols
            lst.append((c, sym_to_monomial(mon)))
        num_terms[m] = lst
    # (3) expectation level
    E = [{m: eng.moment(d, md) for m, md in monos.items()} for d in dists]
    for m in keys:
        try:
            iv = P.eval_at(recs.init_values_dict[m], None, values)
        except (P.Leftover, P.NotANumber) as e:
            viols.append({"kind": "initial-value-not-a-number", "detail": f"init value of {m}: {e}"})
            continue
        res["comparisons"] += 1
        if not P.values_equal(iv, E[0][m], rel_tol=None if isinstance(E[0][m], Fraction) else 1e-15):
            viols.append({"kind": "wrong-initial-value", "detail": f"init_values_dict[{m}] = {P.val_str(iv)} but E_0[{m}] = {P.val_str(E[0][m])}"})
    lookup = {str(k): k for k in keys}

    def rhs_value(m, En):
        tot = Fraction(0)
        num = None
        for c, md in num_terms[m]:
            if not md:
                val = 1
            else:
                val = En[_key_for(md, monos)]
            t = c * val if isinstance(c, Fraction) and isinstance(val, (Fraction, int)) else None
            if t is None:
                import mpmath as mp
                cc = mp.mpf(c.numerator) / c.denominator if isinstance(c, Fraction) else c
                vv = mp.mpf(val.numerator) / val.denominator if isinstance(val, Fraction) else val
                num = cc * vv if num is None else num + cc * vv
            else:
                tot += t
        if num is None:
            return tot
        import mpmath as mp
        return num + mp.mpf(tot.numerator) / tot.denominator
    for n in range(len(dists) - 1):
        for m in keys:
            lhs = E[n + 1][m]
            rhs = rhs_value(m, E[n])
            res["comparisons"] += 1
            if not P.values_equal(rhs, lhs, rel_tol=None if isinstance(lhs, Fraction) and isinstance(rhs, Fraction) else 1e-13):
                viols.append({"kind": "recurrence-wrong-in-expectation", "n": n,
                              "detail": f"E_{n+1}[{m}] = {P.val_str(lhs)} but the recurrence {rd[m]} evaluated on E_{n} gives {P.val_str(rhs)}"})
                break
        if viols:
            break
    # (2) state-wise identity on reachable boundary states
    if discrete and not viols:
        seen = set()
        budget = 150 if tier == "quick" else 600
        for n, d in enumerate(dists[:-1]):
            for st in d:
                if st in seen or len(seen) >= budget:
                    continue
                seen.add(st)
                eng.iteration = n
                nxt = eng.step({st: Fraction(1)})
                env = {v: st[i] for v, i in eng.index.items()}
                for m in keys:
                    lhs = eng.moment(nxt, monos[m])
                    rhs = Fraction(0)
                    for c, md in num_terms[m]:
                        val = Fraction(1)
                        for v, k in md.items():
                            val *= env[v] ** k
                        rhs += c * val
                    res["comparisons"] += 1
                    if lhs != rhs:
                        viols.append({"kind": "recurrence-wrong-at-state", "n": n,
                                      "detail": f"from boundary state { {v: str(x) for v, x in env.items()} }: E[{m} after one iteration] = {lhs} but the recurrence {rd[m]} gives {rhs}"})
                        return viols
        res["extra"]["states_checked"] = res["extra"].get("states_checked", 0) + len(seen)
    return viols


def _key_for(md, monos):
    for k, v in monos.items():
        if v == md:
            return k
    raise KeyError(md)
