"""C06 — every reported polynomial invariant holds on the goal sequences.

Monitor: the set returned by InvariantIdeal(closed_forms).compute_basis() (direct workload) and the polynomials printed
in the 'Invariants' section of the real CLI `--invariants` (end-to-end workload).
Oracle: every basis polynomial, with the goal symbols replaced by the goal sequences, must be exactly 0 at
n = s+1 .. s+12 (s = largest special-case index of the closed forms).  Direct workload: the sequences are the
generated exponential polynomials, evaluated with own exact arithmetic in Q / Q(sqrt d) (gen/closedforms.py); a non-zero
value is re-confirmed by an exact sympy substitution before it is reported.  End-to-end workload: the sequences are
the exact moments / central moments / cumulants / variable values computed by the reference engine from the source."""
from fractions import Fraction as F

from .. import polar_api as P
from ..gen import closedforms as CF
from . import common as K

ID = "C06"
RULE = ("cases = (a) seeded tuples of 2-4 exponential polynomials sum c*n^j*b^n (coefficients/bases in Q or one quadratic "
        "field; multiplicatively dependent and independent bases; syntactic forms b**n, r**(k*n), b**(n+1), Piecewise special "
        "cases) given to InvariantIdeal.compute_basis, plus fixed witnesses; (b) seeded small loop programs and the "
        "documentation loops run through the CLI --invariants; a case is non-trivial when Polar returned a non-empty basis "
        "and >= 1 basis polynomial was evaluated on non-constant sequences at 12 consecutive n; distinct = distinct "
        "(closed-form tuple | program text + goals) fingerprints")
ASSUMPTIONS = [
    "the sympy expression handed to InvariantIdeal denotes the same integer-indexed sequence as the generator's term list (principal powers at integer n)",
    "own exact arithmetic in Q and Q(sqrt d) (polarmon/gen/closedforms.py); a reported non-zero value is re-derived by exact sympy substitution",
    "sympy.Poly reads the coefficients/exponents of Polar's returned expressions correctly",
    "end-to-end cases: language semantics as implemented in polarmon/ref/engine.py; central moments / cumulants by the textbook formulas",
    "n ranges over s+1..s+12 (plus the identity test in the ring of exponential polynomials for direct cases)",
]
TIMEOUT = {"quick": 45, "thorough": 90}
DEADLINE = {"quick": 75, "thorough": 1000}
MIN_DECIDING = {"quick": 60, "thorough": 600}
NDIRECT = {"quick": 170, "thorough": 3200}
NCLI = {"quick": 30, "thorough": 420}
NPOINTS = 12


def generate(seed, tier):
    cases = list(CF.fixed_direct_cases())
    for i in range(NDIRECT[tier]):
        cs = K.harness_seed(seed, ID, i)
        cases.append(CF.gen_direct(cs, tier, allow_alg=True, rational_share=0.65))
    # pairs of tuples analysed one after the other IN ONE PROCESS: the same exponential bases met in a different order (the relation
    # vectors are positional), with an asymmetric relation
    def g_(name, base):
        return {"name": name, "wrap": "none", "specials": [], "terms": [[["1", "0"], 0, [base, "0"], ["plain"]]]}
    for j, (b1, b2) in enumerate([("2", "4"), ("3", "27"), ("1/2", "1/8"), ("4", "-2")]):
        cases.append({"id": f"pair-{b1}-{b2}", "kind": "direct", "d": 0, "goals": [g_("x", b2), g_("y", b1)],
                      "pre_goals": [g_("x", b1), g_("y", b2)], "features": ["fixed", "field:Q", "k=2", "same-bases-other-order-in-one-process"]})
    cli = CF.gen_cli(lambda i: K.harness_seed(seed, ID, i), NCLI[tier], tier)
    for c in cases:      # per-case watchdog: sympy's (EX-domain) groebner inside Polar may run for minutes
        if c["d"] != 0:
            c["timeout"] = 40 if tier == "quick" else 60
        elif tier == "quick":
            c["timeout"] = 30
    return CF.order_cases(cases, cli, tier)


def worker_init(tier):
    P.load()
    CF.install_hooks()


def run_case(case, tier):
    if case["kind"] == "cli":
        return run_cli_case(case, tier)
    if case.get("pre_goals"):
        pre = {k: v for k, v in case.items() if k != "pre_goals"}
        pre.update(goals=case["pre_goals"], id=case["id"] + "-first")
        r0 = run_direct_case(pre, tier)
        r = run_direct_case({k: v for k, v in case.items() if k != "pre_goals"}, tier)
        r["violations"] = list(r0.get("violations", [])) + list(r.get("violations", []))
        r["comparisons"] = r.get("comparisons", 0) + r0.get("comparisons", 0)
        if r["violations"]:
            r["verdict"] = "violated"
        return r
    return run_direct_case(case, tier)


def _sympy_confirm_nonzero(expr, cfs, names, n_val):
    """second, independent derivation of 'p(closed forms)(n) != 0' with sympy exact arithmetic; True = confirmed
    non-zero, False = sympy says zero, None = undecided"""
    import sympy as sp
    n = CF.sym_n()
    sub = {}
    for nm in names:
        gen, _ = CF.general_branch(cfs[nm])
        sub[sp.Symbol(nm)] = gen.xreplace({n: sp.Integer(n_val)})
    v = sp.expand(sp.sympify(expr).xreplace(sub))
    if v.is_Rational:
        return v != 0
    v = sp.radsimp(sp.expand(v))
    if v.is_Rational:
        return v != 0
    try:
        mp = sp.minimal_polynomial(v, sp.Symbol("t"))
        return not (mp == sp.Symbol("t"))
    except Exception:
        num = sp.N(v, 60)
        if abs(num) > sp.Float(10) ** -40:
            return True
        return None


def run_direct_case(case, tier):
    fld, names, eps, s = CF.case_setup(case)
    res = {"fingerprint": K.fingerprint(case["d"], [(g["name"], g["terms"], g["wrap"], g["specials"]) for g in case["goals"]]),
           "features": list(case.get("features", [])), "events": {}, "violations": [], "comparisons": 0, "refusals": []}
    try:
        basis, cfs = CF.run_polar_direct(case)
    except Exception as e:
        res["events"] = dict(CF.LOG["events"])
        res.update(verdict="inconclusive", reason="refused", refusal=P.refusal_key(e), detail=str(e)[:200])
        return res
    res["events"] = dict(CF.LOG["events"])
    try:
        polys = CF.basis_to_polys(basis, names, fld)
    except ValueError as e:
        res.update(verdict="inconclusive", reason="oracle-unsupported", detail=str(e)[:200])
        return res
    n0 = s + 1
    value_rows = {n: [ep.eval(n) for ep in eps] for n in range(n0, n0 + NPOINTS)}
    shown = []
    failing = []
    for poly, expr in polys:
        bad_n = None
        for n in range(n0, n0 + NPOINTS):
            res["comparisons"] += 1
            v = CF.poly_eval(fld, poly, value_rows[n])
            if not fld.is_zero(v):
                bad_n = (n, v)
                break
        ident = CF.poly_eval_ep(fld, poly, eps)
        res["comparisons"] += 1
        if bad_n is None and not ident.is_zero():
            for n in range(n0 + NPOINTS, n0 + 80):
                v = CF.poly_eval(fld, poly, [ep.eval(n) for ep in eps])
                if not fld.is_zero(v):
                    bad_n = (n, v)
                    break
        if bad_n is not None:
            n, v = bad_n
            conf = _sympy_confirm_nonzero(expr, cfs, names, n)
            if conf is not True:
                res.update(verdict="inconclusive", reason="oracle-disagreement",
                           detail=f"own arithmetic: {expr} -> {fld.show(v)} at n={n}; sympy confirmation: {conf}")
                return res
            failing.append((expr, n, v))
        if len(shown) < 3:
            shown.append(str(expr)[:160])
    if failing:
        key, diag, fixed = CF.diagnose_and_key(
            names, lambda rec: all(CF.poly_eval_ep(fld, q, eps).is_zero() for q, _ in CF.basis_to_polys(rec, names, fld)),
            need_bad_vector=True)
        for expr, n, v in failing[:4]:
            res["violations"].append({
                "kind": "invariant-does-not-hold", "key": key, "n": n,
                "detail": (f"reported invariant {expr} = 0 evaluates to {fld.show(v)} at n={n} (special cases end at n={s}) for "
                           + "; ".join(f"{nm} = {ep.show()}" for nm, ep in zip(names, eps))
                           + " | " + CF.diag_text(diag, fixed)),
                "invariant": str(expr), "value": fld.show(v), "lattice": diag["lattice"], "bad_vectors": diag["bad_vectors"],
            })
    nonconst = sum(1 for ep in eps if not ep.is_constant())
    res["nontrivial"] = bool(polys) and nonconst >= 1
    res["verdict"] = "violated" if res["violations"] else "held"
    if not polys:
        res["features"].append("basis:empty")
    else:
        res["features"].append("basis:nonempty")
        if any(sum(m) > 1 for poly, _ in polys for m, _c in poly):
            res["features"].append("basis:nonlinear")
    res["sample"] = {"closed_forms": {nm: str(cfs[nm])[:160] for nm in names}, "special_cases_end": s,
                     "polar_basis": shown, "checked_n": [n0, n0 + NPOINTS - 1]}
    return res


def run_cli_case(case, tier):
    import sympy as sp
    res = {"fingerprint": K.fingerprint(case["text"], case.get("goals"), case.get("params")),
           "features": list(case.get("features", [])), "events": {}, "violations": [], "comparisons": 0, "refusals": []}
    try:
        ctx = CF.run_polar_cli(case)
    except P.CliRefused as e:
        res["events"] = dict(CF.LOG["events"])
        res.update(verdict="inconclusive", reason="refused", refusal="cli:" + e.key)
        return res
    except CF.CliSkip as e:
        res["events"] = dict(CF.LOG["events"])
        res.update(verdict="inconclusive", reason=e.reason, detail=e.detail)
        return res
    res["events"] = dict(CF.LOG["events"])
    res["events"]["polar.main(--invariants)"] = 1
    gids = ctx["goal_ids"]
    try:
        specs = [CF.parse_goal_id(g) for g in gids]
        s = max([CF.general_branch(cf)[1] for cf in ctx["closed_forms"].values()] + [-1])
    except ValueError as e:
        res.update(verdict="inconclusive", reason="oracle-unsupported", detail=str(e)[:200])
        return res
    if len(ctx["printed"]) != len(ctx["returned"]):
        res.update(verdict="inconclusive", reason="cli-parse-mismatch",
                   detail=f"printed {len(ctx['printed'])} polynomials, compute_basis returned {len(ctx['returned'])}")
        return res
    n0 = s + 1
    N = n0 + NPOINTS - 1
    try:
        table = CF.oracle_goal_table(case["text"], case.get("params", {}), specs, N,
                                     max_states=4000 if tier == "quick" else 40000, min_n=n0 + 2)
        if len(table[0]) - 1 < N:
            N = len(table[0]) - 1          # reference engine's state cap: fewer n are compared
            res["features"].append("cli:reference-truncated")
    except CF.CliSkip as e:
        res.update(verdict="inconclusive", reason=e.reason, detail=e.detail)
        return res
    subs = {sp.Symbol(k): sp.Rational(v) for k, v in case.get("params", {}).items()}
    fld = CF.Fld(0)
    try:
        polys = CF.basis_to_polys(ctx["printed"], gids, fld, subs=subs)
    except ValueError as e:
        res.update(verdict="inconclusive", reason="oracle-unsupported", detail=str(e)[:200])
        return res
    # do Polar's own closed forms agree with the reference sequences? (diagnostic only: attribution of a violation)
    cf_agree = None
    try:
        d = CF.detect_field([CF.general_branch(cf)[0].subs(subs) for cf in ctx["closed_forms"].values()])
        if d is not None:
            f2 = CF.Fld(d)
            cf_agree = True
            for gi, g in enumerate(gids):
                ep = CF.sympy_to_ep(CF.general_branch(ctx["closed_forms"][g])[0].subs(subs), f2)
                for n in range(n0, N + 1):
                    if ep.eval(n) != (table[gi][n], F(0)):
                        cf_agree = False
    except (ValueError, ZeroDivisionError):
        cf_agree = None
    failing = []
    for poly, expr in polys:
        for n in range(n0, N + 1):
            res["comparisons"] += 1
            v = CF.poly_eval(fld, poly, [(table[i][n], F(0)) for i in range(len(gids))])
            if not fld.is_zero(v):
                failing.append((expr, n, v))
                break
    if failing:
        def sound(rec):
            for q, _ in CF.basis_to_polys(rec, gids, fld, subs=subs):
                for n in range(n0, N + 1):
                    if not fld.is_zero(CF.poly_eval(fld, q, [(table[i][n], F(0)) for i in range(len(gids))])):
                        return False
            return True
        key, diag, fixed = CF.diagnose_and_key(gids, sound, need_bad_vector=True)
        if cf_agree is False:
            key = None
        for expr, n, v in failing[:4]:
            res["violations"].append({
                "kind": "printed-invariant-does-not-hold" if cf_agree is not False else "invariant-from-wrong-closed-form",
                "key": key, "n": n,
                "detail": (f"CLI printed '{expr} = 0' but the reference values "
                           + ", ".join(f"{g}={table[i][n]}" for i, g in enumerate(gids)) + f" at n={n} give {v[0]} "
                           f"(special cases end at n={s}; closed forms agree with reference: {cf_agree}) | " + CF.diag_text(diag, fixed)),
                "invariant": str(expr), "value": str(v[0]),
            })
    nonconst = sum(1 for row in table if len(set(row[n0:])) > 1)
    res["nontrivial"] = bool(polys) and nonconst >= 1
    res["verdict"] = "violated" if res["violations"] else "held"
    res["features"].append("basis:nonempty" if polys else "basis:empty")
    if cf_agree is False:
        res["features"].append("cli:closed-form-disagrees-with-reference")
    res["sample"] = {"program": case["text"], "goals": gids, "special_cases_end": s,
                     "printed_invariants": [str(e)[:160] for _, e in polys][:4],
                     "reference_values_n0": {g: str(table[i][n0]) for i, g in enumerate(gids)}}
    return res
