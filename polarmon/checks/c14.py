"""C14 — synthesized invariants and solvable loops agree with the unsolvable loop.

Monitors: the pairs (Q, f) returned by UnsolvInvSynthesizer.synth_inv(candidate_vars, deg, program, k) and the
Program objects returned by SolvLoopSynthesizer.synth_loop(...).
Oracle: the original (unsolvable) loop is executed by the reference engine from its source AST for n = 0..N with
random rational initial values; E[Q(state_n)] is taken on that exact law and compared with f(n) (initial symbols
<v>0 and the free parameters _u.. of the solution family substituted by the same random rationals in Q and f).
Every synthesized Program is executed through ref/ir.py and the first moments of every retained variable and of the
fresh combination variable are compared with E[v], E[Q] of the original loop."""
import glob
import os
import random
import re
from fractions import Fraction

from .. import polar_api as P
from ..lang.ast import Program, program_variables, program_symbols, walk_stmts, fold
from ..lang.parser import parse_program, parse_expr, ParseError
from ..lang.printer import program_str
from ..ref.engine import Engine, Unsupported, CapExceeded, DomainError, AP, eval_expr, v_mul, v_pow
from ..ref import laws, ir
from . import common as K

ID = "C14"
RULE = ("cases = the 9 unsolvable test loops and the loops under benchmarks/defective (plus variants with mutated numeric constants) x "
        "candidate variable subsets x degrees 1-3 x {k=1, general k} x random rational initial values; non-trivial = at least one pair "
        "(Q, f) or one synthesized loop was returned and compared at n=0..N with a non-constant reference sequence; distinct = "
        "(program text, candidate variables, degree, k, initial values) fingerprint")
ASSUMPTIONS = [
    "free parameters (_u..) of a returned solution family are instantiated by random non-zero rationals, identically in Q and f",
    "synthesized loops track expectations: only first moments E[v] of retained variables and of the combination variable are compared",
    "N = 2..4 iterations (values of non-linear loops grow doubly exponentially)",
]
TIMEOUT = {"quick": 120, "thorough": 300}
DEADLINE = {"quick": 130, "thorough": 1000}
MIN_DECIDING = {"quick": 8, "thorough": 60}
REPO = os.environ.get("POLAR_REPO", "/repo")

SPECS = [  # (file, candidate vars, degrees)
    ("tests/unsolvable_benchmarks/deg-5.prob", ["x", "y"], [1]),
    ("tests/unsolvable_benchmarks/squares.prob", ["x", "y"], [1, 2]),
    ("tests/unsolvable_benchmarks/non-lin-markov-1.prob", ["x", "y"], [1, 2]),
    ("tests/unsolvable_benchmarks/nagata.prob", ["x", "y", "z"], [2]),
    ("tests/unsolvable_benchmarks/fibonaccitrace.prob", ["x", "y", "z"], [3]),
    ("tests/unsolvable_benchmarks/genfibonaccitrace.prob", ["x", "y", "z"], [3]),
    ("tests/unsolvable_benchmarks/markov-triples-random.prob", ["a", "b", "c"], [3]),
    ("tests/unsolvable_benchmarks/markov-triples-toggle.prob", ["a", "b", "c"], [3]),
    ("benchmarks/defective/deg-6.prob", ["x", "y"], [1]),
    ("benchmarks/defective/deg-7.prob", ["x", "y"], [1]),
    ("benchmarks/defective/squares-plus.prob", None, [1, 2]),
    ("benchmarks/defective/squares-and-cube.prob", None, [1, 2]),
    ("benchmarks/defective/prob-squares.prob", None, [1]),
    ("benchmarks/defective/non-lin-markov-2.prob", None, [1, 2]),
    ("benchmarks/defective/intro1.prob", None, [1, 2]),
    ("benchmarks/defective/intro2.prob", None, [1, 2]),
    ("benchmarks/defective/pts.prob", None, [1, 2]),
    ("benchmarks/defective/fib1.prob", None, [2]),
    ("benchmarks/defective/yagzhev9.prob", None, [1]),
]


def mutate_constants(rng, text):
    """change one numeric literal that is not an exponent / distribution parameter"""
    lines = text.split("\n")
    idx = [i for i, l in enumerate(lines) if "=" in l and not re.search(r"[A-Z][a-z]+\(", l)]
    if not idx:
        return text
    i = rng.choice(idx)
    nums = [m for m in re.finditer(r"(?<![\*\w\.])(\d+)(?![\w\.])", lines[i]) if not lines[i][:m.start()].rstrip().endswith("**")]
    if not nums:
        return text
    m = rng.choice(nums)
    new = str(int(m.group(1)) + rng.choice([1, 2]))
    lines[i] = lines[i][:m.start()] + new + lines[i][m.end():]
    return "\n".join(lines)


def generate(seed, tier):
    cases = []
    rng0 = random.Random(K.harness_seed(seed, ID, 0))
    specs = list(SPECS)
    reps = 1 if tier == "quick" else 6
    for rep in range(reps):
        for fi, (rel, cand, degs) in enumerate(specs):
            path = os.path.join(REPO, rel)
            if not os.path.exists(path):
                continue
            text = open(path).read()
            cs = K.harness_seed(seed, ID, 100 * rep + fi)
            rng = random.Random(cs)
            mutated = rep % 2 == 1
            if mutated:
                text = mutate_constants(rng, text)
            try:
                prog = parse_program(text)
            except ParseError:
                continue
            pv = program_variables(prog)
            inits = {v: Fraction(rng.randint(-6, 6), rng.choice([1, 2, 3])) or Fraction(1, 2) for v in pv}
            params = {s: Fraction(rng.randint(1, 9), 10) for s in program_symbols(prog)}
            for deg in degs:
                for k in ([None, 1] if tier == "thorough" or fi % 2 == 0 else [None]):
                    cases.append({"id": f"{os.path.basename(rel)}-d{deg}-k{k}-r{rep}", "text": text, "ast": prog.to_json(), "cand": cand, "deg": deg, "k": k,
                                  "inits": K.frac_enc(inits), "params": K.frac_enc(params), "N": 3,
                                  "features": ["file:" + os.path.basename(rel), f"deg:{deg}", f"k:{k}"] + (["mutated-constants"] if mutated else []),
                                  "mode": "inv" if (fi + rep + deg) % 3 else "loop"})
    # variants with RANDOM initial values of the candidate variables (E(x0**2) != E(x0)**2 matters for invariants of degree >= 2)
    rinit = []
    for fi, (rel, cand, degs) in enumerate(specs):
        if not cand or max(degs) < 2 and rel.find("markov") < 0:
            continue
        path = os.path.join(REPO, rel)
        if not os.path.exists(path):
            continue
        text = open(path).read()
        cs = K.harness_seed(seed, ID + "-rinit", fi)
        rng = random.Random(cs)
        draws = "\n".join(f"{v} = " + rng.choice(["Bernoulli(1/2)", "DiscreteUniform(0, 2)", "1 {1/3} 3", "Bernoulli(1/4)"]) for v in cand[: rng.choice([1, 2])])
        body_start = text.find("while")
        text2 = text[:body_start] + draws + "\n" + text[body_start:]
        try:
            prog = parse_program(text2)
        except ParseError:
            continue
        pv = program_variables(prog)
        inits = {v: Fraction(rng.randint(-6, 6), rng.choice([1, 2, 3])) or Fraction(1, 2) for v in pv}
        params = {s_: Fraction(rng.randint(1, 9), 10) for s_ in program_symbols(prog)}
        for deg in sorted(set(degs) | {2}):
            if deg > 3:
                continue
            rinit.append({"id": f"{os.path.basename(rel)}-rinit-d{deg}", "text": text2, "ast": prog.to_json(), "cand": cand, "deg": deg, "k": None,
                          "inits": K.frac_enc(inits), "params": K.frac_enc(params), "N": 3,
                          "features": ["file:" + os.path.basename(rel), f"deg:{deg}", "random-initial-values"], "mode": "inv"})
    # variants in which an effective variable is updated AFTER it is used (first body statement moved to the end) and starts
    # from a value that is not its stationary mean: the effective part of the candidate's recurrence has a transient
    late = []
    from ..lang.ast import num as _num, rhs_vars as _rhs_vars
    for fi, (rel, cand, degs) in enumerate(specs):
        path = os.path.join(REPO, rel)
        if not os.path.exists(path):
            continue
        try:
            prog = parse_program(open(path).read())
        except ParseError:
            continue
        body = list(prog.body)
        if len(body) < 2 or body[0][0] != "assign" or len(body[0]) > 3:
            continue
        v = body[0][1]
        if (cand and v in cand) or any(st[0] == "assign" and st[1] == v for st in body[1:]):
            continue
        cs = K.harness_seed(seed, ID + "-late", fi)
        rng = random.Random(cs)
        init = [st for st in prog.init if not (st[0] == "assign" and st[1] == v)]
        init.append(("assign", v, ("poly", _num(rng.choice([0, 1, 2, 3])))))
        prog2 = Program(prog.typedefs, init, prog.guard, body[1:] + [body[0]])
        text2 = program_str(prog2)
        pv = program_variables(prog2)
        inits = {w: Fraction(rng.randint(-6, 6), rng.choice([1, 2, 3])) or Fraction(1, 2) for w in pv}
        params = {s_: Fraction(rng.randint(1, 9), 10) for s_ in program_symbols(prog2)}
        for deg in degs[:2]:
            late.append({"id": f"{os.path.basename(rel)}-late-d{deg}", "text": text2, "ast": prog2.to_json(), "cand": cand, "deg": deg, "k": None,
                         "inits": K.frac_enc(inits), "params": K.frac_enc(params), "N": 3,
                         "features": ["file:" + os.path.basename(rel), f"deg:{deg}", "effective-variable-updated-after-use"], "mode": "inv"})
            # ... and through a copy: the uses read wq, which copies v at the end of the iteration BEFORE v is updated, so the
            # effective monomial deviates from its general form for TWO iterations (wq0, then v0, then the stationary law)
            def ren(x):
                if isinstance(x, tuple):
                    return ("var", "wq") if x == ("var", v) else tuple(ren(y) for y in x)
                if isinstance(x, list):
                    return [ren(y) for y in x]
                return x
            if "wq" not in pv:
                init3 = list(init) + [("assign", "wq", ("poly", _num(rng.choice([5, -2, 4]))))]
                prog3 = Program(prog.typedefs, init3, prog.guard, ren(body[1:]) + [("assign", "wq", ("poly", ("var", v))), body[0]])
                text3 = program_str(prog3)
                inits3 = dict(inits, wq=Fraction(1))
                late.append({"id": f"{os.path.basename(rel)}-late2-d{degs[0]}", "text": text3, "ast": prog3.to_json(), "cand": cand, "deg": degs[0], "k": None,
                             "inits": K.frac_enc(inits3), "params": K.frac_enc(params), "N": 5,
                             "features": ["file:" + os.path.basename(rel), f"deg:{degs[0]}", "effective-variable-read-through-copy-two-step-transient"], "mode": "inv"})
    rng0.shuffle(cases)
    rng0.shuffle(rinit)
    rng0.shuffle(late)
    nr = 8 if tier == "quick" else 60
    two = [c for c in late if "late2" in c["id"]]
    late = two[: nr // 2] + [c for c in late if "late2" not in c["id"]]
    return rinit[:nr] + late[:nr] + cases[: (40 if tier == "quick" else 400)]


def worker_init(tier):
    P.load()


def expect_poly(eng, dist, expr_ast, env_extra):
    """E[poly(state)] for a polynomial given as oracle expression AST over program variables"""
    tot = Fraction(0)
    num = None
    for st, p in dist.items():
        env = dict(env_extra)
        for v, i in eng.index.items():
            env[v] = st[i]
        val = eval_expr(expr_ast, env)
        e = eng.atoms.expect(val)
        if isinstance(e, Fraction):
            tot += p * e
        else:
            import mpmath as mp
            t = (mp.mpf(p.numerator) / p.denominator) * e
            num = t if num is None else num + t
    if num is None:
        return tot
    import mpmath as mp
    return num + mp.mpf(tot.numerator) / tot.denominator


def run_case(case, tier):
    import sympy
    prog = Program.from_json(case["ast"])
    inits = K.frac_dec(case["inits"])
    params = K.frac_dec(case["params"])
    N = case["N"]
    res = {"fingerprint": K.fingerprint(case["text"], case["cand"], case["deg"], case["k"], case["inits"]), "features": case["features"],
           "events": {}, "violations": [], "comparisons": 0, "refusals": [], "extra": {}}
    # reference run (N may be reduced when values explode)
    dists = None
    for n_try in (N, 2, 1):
        try:
            eng = Engine(prog, params, inits, max_states=4000)
            dists = eng.run(n_try)
            N = n_try
            break
        except CapExceeded:
            continue
        except (Unsupported, DomainError, laws.Divergent) as e:
            res.update(verdict="inconclusive", reason="oracle-" + type(e).__name__, detail=str(e)[:100])
            return res
    if dists is None:
        res.update(verdict="inconclusive", reason="oracle-cap")
        return res
    P.reset_settings()
    try:
        program, rb = P.prepare(case["text"])
    except Exception as e:
        res.update(verdict="inconclusive", reason="refused", refusal=P.refusal_key(e))
        return res
    from symengine.lib.symengine_wrapper import sympify as se_sympify
    cand = case["cand"]
    if cand is None:
        cand = sorted(str(v) for v in program.defective_variables if v in program.original_variables)
    if not cand:
        res.update(verdict="inconclusive", reason="no-defective-variable")
        return res
    cvars = [se_sympify(v) for v in cand]
    values0 = K.symbol_values(params, inits)
    rng = random.Random(len(case["text"]) + case["deg"])

    def instantiate_free(exprs):
        free = {}
        for e in exprs:
            for s in sympy.sympify(e).free_symbols:
                if s.name.startswith("_") and s.name not in free:
                    free[s.name] = Fraction(rng.randint(1, 9), rng.choice([1, 2, 3]))
        return free

    compared = 0
    nontrivial = False
    samples = []
    if case["mode"] == "inv":
        from unsolvable_analysis import UnsolvInvSynthesizer
        try:
            sols = UnsolvInvSynthesizer.synth_inv(cvars, case["deg"], program, case["k"])
            res["events"]["UnsolvInvSynthesizer.synth_inv"] = 1
        except Exception as e:
            res.update(verdict="inconclusive", reason="refused", refusal=P.refusal_key(e))
            return res
        for Q, f in (sols or []):
            free = instantiate_free([Q, f])
            try:
                q_ast = parse_expr(str(sympy.expand(sympy.sympify(Q))))
            except ParseError:
                res["extra"]["invariant-unreadable"] = res["extra"].get("invariant-unreadable", 0) + 1
                continue
            vals = dict(values0)
            vals.update(free)
            seq = []
            bad = None
            for n in range(N + 1):
                try:
                    ref = expect_poly(eng, dists[n], q_ast, {**params, **free})
                except (Unsupported, CapExceeded) as e:
                    break
                try:
                    pv = P.eval_at(sympy.sympify(f), n, vals)
                except (P.Leftover, P.NotANumber) as e:
                    bad = {"kind": "invariant-closed-form-not-a-number", "detail": f"f(n) of Q={str(Q)[:150]} at n={n}: {e}"}
                    break
                res["comparisons"] += 1
                seq.append(P.val_str(ref))
                if not P.values_equal(pv, ref, rel_tol=None if isinstance(ref, Fraction) else 1e-20):
                    bad = {"kind": "synthesized-invariant-wrong", "n": n,
                           "detail": f"E[Q(state_{n})] = {P.val_str(ref)} but f({n}) = {P.val_str(pv)} for Q = {str(Q)[:200]}, f = {str(f)[:200]}, initial values {case['inits']}, free parameters {free}"}
                    break
            compared += 1
            if len(set(seq)) > 1:
                nontrivial = True
            if bad:
                bad["key"] = None
                res["violations"].append(bad)
            if len(samples) < 2:
                samples.append({"Q": str(Q)[:200], "f": str(f)[:200], "reference_E[Q]": seq})
        if sols is None:
            res["extra"]["no-solution-returned"] = 1
    else:
        from unsolvable_analysis import SolvLoopSynthesizer
        try:
            invariants, programs = SolvLoopSynthesizer.synth_loop(cvars, case["deg"], program)
            res["events"]["SolvLoopSynthesizer.synth_loop"] = 1
        except Exception as e:
            res.update(verdict="inconclusive", reason="refused", refusal=P.refusal_key(e))
            return res
        if not invariants:
            res["extra"]["loop-already-solvable-or-no-invariant"] = 1
        for inv, sp in zip(invariants or [], programs or []):
            Q, f = inv[0], inv[1]
            free = instantiate_free([Q, f])
            try:
                sast = ir.conv_program(sp)
                q_ast = parse_expr(str(sympy.expand(sympy.sympify(Q))))
            except (Unsupported, ParseError) as e:
                res["extra"]["synthesized-program-unreadable"] = res["extra"].get("synthesized-program-unreadable", 0) + 1
                continue
            for name in program_symbols(sast):
                if name.startswith("_") and name not in free:
                    free[name] = Fraction(rng.randint(1, 9), rng.choice([1, 2, 3]))
            svars = program_variables(sast)
            # initial symbols <v>0 of the original loop appear as free symbols in the synthesized init block
            sparams = dict(params)
            sparams.update(free)
            for v, x in inits.items():
                sparams[v + "0"] = x
            try:
                seng = Engine(sast, sparams, {}, max_states=4000)
                sd = seng.run(N)
            except (Unsupported, CapExceeded, DomainError) as e:
                res["extra"]["synthesized-" + type(e).__name__] = res["extra"].get("synthesized-" + type(e).__name__, 0) + 1
                continue
            comb = [v for v in svars if v.startswith("_s")]
            retained = [v for v in svars if v in eng.index]
            bad = None
            for n in range(N + 1):
                for v in retained:
                    a = seng.moment(sd[n], {v: 1})
                    b = eng.moment(dists[n], {v: 1})
                    res["comparisons"] += 1
                    if not P.values_equal(a, b, rel_tol=None if isinstance(a, Fraction) and isinstance(b, Fraction) else 1e-20):
                        bad = {"kind": "synthesized-loop-variable-differs", "n": n,
                               "detail": f"E[{v}] after {n} iterations: original {P.val_str(b)} vs synthesized loop {P.val_str(a)}\n{str(sp)[:600]}"}
                        break
                if bad:
                    break
                for s in comb:
                    try:
                        ref = expect_poly(eng, dists[n], q_ast, {**params, **free})
                    except (Unsupported, CapExceeded):
                        break
                    a = seng.moment(sd[n], {s: 1})
                    res["comparisons"] += 1
                    if not P.values_equal(a, ref, rel_tol=None if isinstance(a, Fraction) and isinstance(ref, Fraction) else 1e-20):
                        bad = {"kind": "synthesized-combination-variable-differs", "n": n,
                               "detail": f"E[{s}] = {P.val_str(a)} in the synthesized loop but E[Q] = {P.val_str(ref)} in the original after {n} iterations, Q = {str(Q)[:200]}\n{str(sp)[:600]}"}
                        break
                if bad:
                    break
            compared += 1
            nontrivial = True
            if bad:
                bad["key"] = None
                res["violations"].append(bad)
            if len(samples) < 1:
                samples.append({"Q": str(Q)[:200], "synthesized": str(sp)[:400]})
    P.reset_settings()
    if compared == 0 and not res["violations"]:
        res.update(verdict="inconclusive", reason="nothing-synthesized")
        return res
    res["nontrivial"] = nontrivial
    res["verdict"] = "violated" if res["violations"] else "held"
    res["sample"] = {"program": case["text"], "candidate_vars": cand, "degree": case["deg"], "k": case["k"], "mode": case["mode"], "results": samples}
    return res
