"""C08 — built-in distributions report their true moments, support and transforms; location/scale rewriting
keeps the conditional law.

Monitor: the real classes of /repo/program/distribution (constructed through distribution_factory with the
literal strings the parser hands over): get_moment(k) k=0..8, get_support(), is_discrete(), cf(t), mgf(t),
mgf_exists_at(t); and DistTransformer().execute(program) on tiny parsed programs.
Oracle: textbook laws in polarmon/ref/laws.py (exact rational raw moments, supports, pmf/pdf, analytic mgf
domain) and mpmath quadrature of the defining integrals e^{itx}·pdf, e^{tx}·pdf, x^k·pdf (exact finite sums for
the discrete families) written here.
"""
import math
import random
import signal
import time
from contextlib import contextmanager
from fractions import Fraction

import mpmath as mp

from .. import polar_api as P
from ..gen import distparams as G
from ..ref import laws
from . import common as K

ID = "C08"
RULE = ("cases = (a) per family seeded parameter vectors given as the literal strings of the language (integers, "
        "fractions, decimal / exponent literals, tiny variances, shape<1, Beta with scale, negative locations, tail / "
        "narrow TruncNormal windows, single-point DiscreteUniform, Categorical with zero entries), each checked for "
        "get_moment(k) k=0..8, support, discreteness, cf/mgf at 3 rational t each (t=0 included), cf/mgf derivatives at 0 "
        "(k<=3), one cf derivative at t!=0, mgf_exists_at at 4-5 t incl. the boundary; (b) symbolic parameter vectors "
        "instantiated at 3 random admissible rational points; (c) tiny programs with variable-dependent Normal/Uniform/"
        "Laplace/DistExp parameters pushed through DistTransformer, the resulting (fixed draw, polynomial) pair compared "
        "at 3 random variable values on the first 6 moments.  Distinct = distinct (kind, family, parameter strings, "
        "instances); non-trivial = at least one moment of order >= 1 (resp. one rewritten draw) was compared")
ASSUMPTIONS = [
    "textbook raw-moment formulas, densities, supports and mgf domains in polarmon/ref/laws.py (its closed forms are cross-checked against quadrature by laws.selftest)",
    "mpmath tanh-sinh quadrature at 50 digits with its own error estimate (comparisons whose estimate exceeds 1e-18 are skipped, never failed)",
    "sympy evaluates (N, subs, diff, series, limit) the expressions returned by Polar correctly; a Piecewise cf/mgf is read as the mathematical function it denotes (generic branch for t != 0)",
    "TruncNormal moments are only required to 1e-12 relative to E|X|^k (documented float rounding); everything else exactly (rational) or to 1e-25",
    "a law is identified by its first 6 raw moments in the location/scale check (affine images of one fixed base law)",
]
TIMEOUT = {"quick": 40, "thorough": 90}
DEADLINE = {"quick": 100, "thorough": 1000}
MIN_DECIDING = {"quick": 100, "thorough": 1500}
PER_FAMILY = {"quick": 13, "thorough": 400}
N_SYM = {"quick": 25, "thorough": 200}
N_TRANSFORM = {"quick": 38, "thorough": 380}

TOL_TRANSFORM = mp.mpf(10) ** -25
TOL_TRUNC = mp.mpf(10) ** -12
ORACLE_ERR_MAX = mp.mpf(10) ** -18


# ---------------------------------------------------------------------------------------------- generation
def generate(seed, tier):
    rng = random.Random(K.harness_seed(seed, ID, 0))
    cases = G.law_cases(rng, PER_FAMILY[tier], kmax=8 if tier == "quick" else 10)
    cases += G.sym_cases(rng, N_SYM[tier])
    cases += G.transform_cases(rng, N_TRANSFORM[tier])
    random.Random(K.harness_seed(seed, ID, 1)).shuffle(cases)
    nslow = 0
    for i, c in enumerate(cases):
        c["id"] = f"{c['kind']}-{c['family']}-{i}"
        c["budget"] = 6 if tier == "quick" else 20
        if c["kind"] == "law" and c["family"] == "Beta" and "integer-shapes" not in c["features"]:
            nslow += 1
            c["slow_ok"] = (nslow % 5 == 1) if tier == "quick" else (nslow % 8 == 1)
        if c["kind"] == "law" and i % 3 == 0:
            c["via_parser"] = True  # the distribution object is taken from the real parser's output instead of the factory
            c["features"] = sorted(c["features"] + ["via-parser"])
    return cases


def worker_init(tier):
    P.load()
    import sympy  # noqa
    import program.distribution  # noqa
    import program.transformer.dist_transformer  # noqa


# ---------------------------------------------------------------------------------------------- soft time limits
class SoftTimeout(BaseException):
    pass


def _alarm(signum, frame):
    raise SoftTimeout()


@contextmanager
def soft_limit(seconds):
    """raise SoftTimeout in the block after `seconds` (optional, expensive sub-steps only; the harness watchdog is
    the hard limit)"""
    old = signal.signal(signal.SIGALRM, _alarm)
    signal.setitimer(signal.ITIMER_REAL, seconds)
    try:
        yield
    finally:
        signal.setitimer(signal.ITIMER_REAL, 0)
        signal.signal(signal.SIGALRM, old)


# ---------------------------------------------------------------------------------------------- value helpers
class NotANumber(Exception):
    pass


class Leftover(Exception):
    pass


class Imprecise(Exception):
    """sympy could not evaluate Polar's expression to the requested number of digits (harness limit, never a verdict)"""


def mpq(x):
    if isinstance(x, Fraction):
        return mp.mpf(x.numerator) / x.denominator
    return x


def sym_rational(x: Fraction):
    import sympy
    return sympy.Rational(x.numerator, x.denominator)


def polar_t(x: Fraction):
    """argument the way Polar passes it: Python int for integers, otherwise an exact sympy Rational"""
    if x.denominator == 1:
        return int(x)
    return sym_rational(x)


def to_sympy(x):
    import sympy
    return sympy.sympify(x)


def to_value(x, digits=45):
    """Polar's returned object -> Fraction (exact rational) | mpf | mpc.  NotANumber for nan/zoo/oo, Leftover for symbols."""
    import sympy
    e = to_sympy(x)
    if isinstance(e, sympy.Piecewise) or e.has(sympy.Piecewise):
        e = sympy.piecewise_fold(e)
    if e.free_symbols:
        raise Leftover(", ".join(sorted(s.name for s in e.free_symbols)))
    if e.is_Rational:
        return Fraction(int(e.p), int(e.q))
    if e.has(sympy.nan) or e.has(sympy.zoo) or e.has(sympy.oo):
        raise NotANumber(str(e)[:80])
    v = e.evalf(digits, maxn=4000)
    if v.has(sympy.nan) or v.has(sympy.zoo) or v.has(sympy.oo):
        raise NotANumber(str(v)[:80])
    if v.is_Rational:
        return Fraction(int(v.p), int(v.q))
    re, im = v.as_real_imag()
    if not (re.is_Number and im.is_Number):
        raise NotANumber(str(v)[:80])
    # evalf silently returns fewer digits when cancellation defeats it: accept a component only at full precision,
    # or when it is negligible against the other one
    need = int(digits * 3.32) - 12
    mags = [abs(c) for c in (re, im)]
    for c, other in ((re, mags[1]), (im, mags[0])):
        if c.is_Float and c._prec < need and not (other > 0 and abs(c) < other * sympy.Float(10) ** -(digits - 3)):
            raise Imprecise(f"only {c._prec} bits for {str(e)[:60]}")
    with mp.workdps(60):
        r, i = mp.mpf(str(re)), mp.mpf(str(im))
    if i != 0:
        return mp.mpc(r, i)
    return r


def close(a, b, rel, abs_extra=0):
    """|a-b| <= rel*|b| + abs_extra (values: Fraction / mpf / mpc)"""
    with mp.workdps(60):
        a, b = mpq(a), mpq(b)
        return abs(a - b) <= rel * abs(b) + abs_extra


def vstr(v):
    if isinstance(v, Fraction):
        s = str(v)
        return s if len(s) < 70 else s[:66] + "..."
    return mp.nstr(v, 30)


# ---------------------------------------------------------------------------------------------- oracle: E[h(X)]
def expect(law, h):
    """(E[h(X)], error estimate) for an mpmath-callable h; exact finite sums for discrete laws; tanh-sinh quadrature
    of h·pdf otherwise, with the endpoint singularities of Gamma(shape<1) / Beta(a<1 or b<1) substituted away"""
    fam, ps = law[0], [mpq(p) for p in law[1:]]
    if laws.is_discrete(law):
        tot = mp.mpf(0)
        for v, p in laws.pmf(law):
            if p != 0:
                tot += mpq(p) * h(mpq(v))
        return tot, mp.mpf(10) ** -45
    if fam == "Gamma":
        sh, sc = ps
        c = 1 / mp.gamma(sh)
        if sh < 1:
            inv = 1 / sh
            v1, e1 = mp.quad(lambda u: mp.exp(-u ** inv) * h(sc * u ** inv) / sh, [0, mp.mpf(1) / 4, mp.mpf(1) / 2, 1], error=True)
        else:
            v1, e1 = mp.quad(lambda y: y ** (sh - 1) * mp.exp(-y) * h(sc * y), [0, mp.mpf(1) / 2, 1], error=True)
        pts = sorted({mp.mpf(1), sh + 1, 2 * sh + 2, sh + 10, sh + 30, sh + 80})
        v2, e2 = mp.quad(lambda y: y ** (sh - 1) * mp.exp(-y) * h(sc * y), pts + [mp.inf], error=True)
        return c * (v1 + v2), abs(c) * (e1 + e2)
    if fam == "Beta":
        a, b, sc = ps
        c = 1 / mp.beta(a, b)
        half = mp.mpf(1) / 2
        if a < 1:
            ia = 1 / a
            top = half ** a
            v1, e1 = mp.quad(lambda u: (1 - u ** ia) ** (b - 1) * h(sc * u ** ia) / a, [0, top / 2, top], error=True)
        else:
            v1, e1 = mp.quad(lambda y: y ** (a - 1) * (1 - y) ** (b - 1) * h(sc * y), [0, half / 4, half / 2, half], error=True)
        if b < 1:
            ib = 1 / b
            top = half ** b
            v2, e2 = mp.quad(lambda u: (1 - u ** ib) ** (a - 1) * h(sc * (1 - u ** ib)) / b, [0, top / 2, top], error=True)
        else:
            v2, e2 = mp.quad(lambda y: y ** (a - 1) * (1 - y) ** (b - 1) * h(sc * y), [half, 3 * half / 2, 7 * half / 4, 1], error=True)
        return c * (v1 + v2), abs(c) * (e1 + e2)
    f = laws.pdf(law)  # normalising constant computed at 50 digits
    if fam == "TruncNormal":
        with mp.workdps(32):
            v, e = mp.quad(lambda x: h(x) * f(x), laws._quad_points(law), error=True)
        return +v, +e
    v, e = mp.quad(lambda x: h(x) * f(x), laws._quad_points(law), error=True)
    return v, e


def oracle_cf(law, t):
    tt = mpq(t)
    return expect(law, lambda x: mp.exp(mp.mpc(0, 1) * tt * x))


def oracle_mgf(law, t):
    tt = mpq(t)
    return expect(law, lambda x: mp.exp(tt * x))


def true_moment(law, k):
    """exact Fraction for the rational families; (mpf, err) quadrature for TruncNormal"""
    if law[0] == "TruncNormal":
        if k == 0:
            return Fraction(1)
        v, e = expect(law, lambda x: x ** k)
        return v
    return laws.raw_moment(law, k)


# ---------------------------------------------------------------------------------------------- result plumbing
class Ctx:
    def __init__(self, case):
        self.case = case
        self.events = {}
        self.violations = []
        self.refusals = []
        self.comparisons = 0
        self.skipped = {}
        self.notes = []
        self.rows = []
        self.nontrivial = False
        self.t0 = time.time()
        self.limit = 40

    def elapsed(self):
        return time.time() - self.t0

    def ev(self, name, n=1):
        self.events[name] = self.events.get(name, 0) + n

    def skip(self, why):
        self.skipped[why] = self.skipped.get(why, 0) + 1

    def refuse(self, e):
        self.refusals.append(P.refusal_key(e))

    def viol(self, kind, key, detail, **kw):
        if len(self.violations) < 12:
            d = {"kind": kind, "key": key, "detail": detail}
            d.update(kw)
            self.violations.append(d)

    def result(self, sample):
        res = {"fingerprint": K.fingerprint(self.case["kind"], self.case["family"], self.case["params"], self.case.get("instances")),
               "features": self.case.get("features", []), "events": self.events, "violations": self.violations,
               "comparisons": self.comparisons, "refusals": sorted(set(self.refusals)), "nontrivial": self.nontrivial,
               "extra": {("skipped:" + k): v for k, v in self.skipped.items()}}
        for n in self.notes:
            res["extra"]["note:" + n] = res["extra"].get("note:" + n, 0) + 1
        if self.comparisons == 0:
            res["verdict"] = "inconclusive"
            res["reason"] = "refused" if self.refusals else "nothing-compared"
            if self.refusals:
                res["refusal"] = self.refusals[0]
        else:
            res["verdict"] = "violated" if self.violations else "held"
        sample["rows"] = self.rows[:6]
        res["sample"] = sample
        return res


def make_dist(family, params):
    from program.distribution import distribution_factory
    return distribution_factory(family, list(params))


# ---------------------------------------------------------------------------------------------- diagnostics (keys)
def trunc_mass(law):
    mu, s2, lo, hi = [mpq(p) for p in law[1:]]
    s = mp.sqrt(s2)
    return mp.ncdf((hi - mu) / s) - mp.ncdf((lo - mu) / s), (lo - mu) / s, (hi - mu) / s


def moment_key(law, k, polar_val, ref, params_sym=None):
    fam = law[0]
    if fam == "Bernoulli" and k == 0:
        p = law[1]
        try:
            if isinstance(polar_val, Fraction) and polar_val == p and p != 1:
                return "bernoulli-moment0-returns-p"
        except Exception:
            pass
    if fam == "TruncNormal":
        # get_moment builds the exact recursion symbolically and then evaluates it with float(m[k]).  Diagnostic: the same
        # recursion evaluated with 100 digits reproduces the true moment, i.e. the formula is right and the deviation
        # (> 1e-12) is the double-precision evaluation cancelling (small window mass Phi(beta)-Phi(alpha), or a window
        # narrow against sigma at high order)
        try:
            hp = trunc_recursion_hp(law, k)
            with mp.workdps(60):
                if abs(hp - mpq(ref)) <= mp.mpf(10) ** -20 * max(abs(mpq(ref)), abs(hp)):
                    return "truncnormal-double-precision-cancellation"
        except Exception:
            pass
    return None


def trunc_recursion_hp(law, k):
    """the recursion of TruncNormal.get_moment (Orjebin) evaluated with 100 significant digits"""
    with mp.workdps(100):
        mu, s2, a, b = [mp.mpf(p.numerator) / p.denominator for p in law[1:]]
        s = mp.sqrt(s2)
        al, be = (a - mu) / s, (b - mu) / s
        z = mp.ncdf(be) - mp.ncdf(al)
        m = {-1: mp.mpf(0), 0: mp.mpf(1)}
        for i in range(1, k + 1):
            m[i] = (i - 1) * s2 * m[i - 2] + mu * m[i - 1] - s * (b ** (i - 1) * mp.npdf(be) - a ** (i - 1) * mp.npdf(al)) / z
        return +m[k]


# ---------------------------------------------------------------------------------------------- checks on one distribution object
def check_moments(ctx, dist, law, ks, budget, label=""):
    fam = law[0]
    for k in ks:
        if ctx.elapsed() > 0.45 * ctx.limit:
            ctx.skip("get_moment-case-budget-exhausted")
            break
        try:
            with soft_limit(budget):
                m = dist.get_moment(k)
            ctx.ev("get_moment")
        except SoftTimeout:
            ctx.skip("get_moment-soft-timeout")
            break
        except Exception as e:
            ctx.refuse(e)
            continue
        compare_moment(ctx, law, k, m, label)


def compare_moment(ctx, law, k, m, label="", subs=None):
    import sympy
    fam = law[0]
    try:
        e = to_sympy(m)
        if subs:
            if e.has(sympy.Float):
                # a decimal literal inside a parameter expression ("0.5*p") stays a double in Polar's result; it is read
                # with its decimal meaning here (not what this property is about)
                e = sympy.nsimplify(e, rational=True)
                ctx.notes.append("float-coefficient-left-in-moment")
            e = e.subs(subs)
        pv = to_value(e)
    except Leftover as ex:
        ctx.viol("moment-leftover-symbol", None, f"{label}{fam}{plist(law)} moment {k}: symbols {ex} left in {str(m)[:120]}")
        ctx.comparisons += 1
        return
    except NotANumber as ex:
        ctx.viol("moment-not-a-number", None, f"{label}{fam}{plist(law)} moment {k} is {ex}", k=k)
        ctx.comparisons += 1
        return
    except Imprecise:
        ctx.skip("polar-value-evalf-imprecise")
        return
    ref = true_moment(law, k)
    ctx.comparisons += 1
    if k >= 1:
        ctx.nontrivial = True
    if fam == "TruncNormal" and k >= 1:
        if law[3] >= 0 or law[4] <= 0:
            absk = abs(ref)
        else:
            absk, _ = expect(law, lambda x: abs(x) ** k)
        ok = close(pv, ref, 0, TOL_TRUNC * absk)
        relerr = abs(mpq(pv) - ref) / absk
        info = f" (error {mp.nstr(relerr, 3)} relative to E|X|^{k})"
    else:
        if isinstance(pv, Fraction) and isinstance(ref, Fraction):
            ok = pv == ref
        else:
            ok = close(pv, ref, mp.mpf(10) ** -35)
        info = ""
    if len(ctx.rows) < 6 and k in (0, 2, 5):
        ctx.rows.append({"what": f"{label}E[X^{k}]", "polar": vstr(pv), "truth": vstr(ref)})
    if not ok:
        key = moment_key(law, k, pv, ref)
        ctx.viol("wrong-moment", key, f"{label}{fam}{plist(law)}.get_moment({k}) = {vstr(pv)} but the true raw moment is {vstr(ref)}{info}",
                 k=k, polar=vstr(pv), truth=vstr(ref))


def plist(law):
    return "(" + ", ".join(str(p) for p in law[1:]) + ")"


def check_support(ctx, dist, law, subs=None):
    import sympy
    try:
        sup = dist.get_support()
        ctx.ev("get_support")
    except Exception as e:
        ctx.refuse(e)
        return
    points, intervals = [], []
    try:
        for el in sup:
            if isinstance(el, tuple):
                lo, hi = (to_sympy(x) for x in el)
                if subs:
                    lo, hi = lo.subs(subs), hi.subs(subs)
                intervals.append((lo, hi))
            else:
                v = to_sympy(el)
                if subs:
                    v = v.subs(subs)
                points.append(v)
    except Exception as e:  # unreadable support description
        ctx.skip("support-unreadable")
        return
    true = laws.support(law)

    def inside_point(v):
        sv = sym_rational(v)
        if any(p == sv for p in points):
            return True
        if any((not p.is_Rational) and sympy.simplify(p - sv) == 0 for p in points):
            return True
        return any(bool(lo <= sv) and bool(sv <= hi) for lo, hi in intervals)

    ctx.comparisons += 1
    if laws.is_discrete(law):
        missing = [v for v, p in laws.pmf(law) if p > 0 and not inside_point(v)]
        if missing:
            ctx.viol("support-too-small", None, f"{law[0]}{plist(law)}: values {missing[:4]} have positive probability but are outside get_support()={sup}")
    else:
        lo_t = -sympy.oo if true[0] is None else sym_rational(true[0])
        hi_t = sympy.oo if true[1] is None else sym_rational(true[1])
        ok = any(bool(lo <= lo_t) and bool(hi_t <= hi) for lo, hi in intervals)
        if not ok:
            ctx.viol("support-too-small", None, f"{law[0]}{plist(law)}: true support [{lo_t}, {hi_t}] not contained in get_support()={sup}")
    if len(ctx.rows) < 6:
        ctx.rows.append({"what": "support", "polar": str(sup)[:80], "truth": str(true)[:80]})


def check_discrete(ctx, dist, law):
    try:
        d = dist.is_discrete()
        ctx.ev("is_discrete")
    except Exception as e:
        ctx.refuse(e)
        return
    ctx.comparisons += 1
    if bool(d) != laws.is_discrete(law):
        ctx.viol("wrong-discreteness", None, f"{law[0]}{plist(law)}.is_discrete() = {d}")


def transform_key(law, which, t, err):
    if law[0] == "DiscreteUniform" and t == 0 and err == "nan":
        return "discrete-uniform-cf-mgf-nan-at-zero"
    return None


def check_transform_values(ctx, dist, law, which, ts, budget, subs=None):
    """which in cf/mgf: value at the rational points ts against the defining integral / sum"""
    import sympy
    for t in ts:
        if which == "mgf" and not laws.mgf_exists(law, t):
            continue
        try:
            with soft_limit(budget):
                e = getattr(dist, which)(polar_t(t))
                ctx.ev(which)
                if subs:
                    e = to_sympy(e)
                    if e.has(sympy.Float):  # see compare_moment
                        e = sympy.nsimplify(e, rational=True)
                    e = e.subs(subs)
                shown = str(e)[:100]
                try:
                    pv = to_value(e)
                    err = None
                except NotANumber:
                    pv, err = None, "nan"
                except Leftover as ex2:
                    pv, err = None, f"symbols {ex2}"
        except SoftTimeout:
            ctx.skip(f"{which}-soft-timeout")
            return
        except NotImplementedError as exc:
            ctx.refuse(exc)
            return
        except Imprecise:
            ctx.skip("polar-value-evalf-imprecise")
            continue
        except Exception as exc:
            ctx.refuse(exc)
            continue
        if err is not None:
            ctx.comparisons += 1
            truth = "1" if t == 0 else "finite"
            ctx.viol(f"{which}-not-a-number", transform_key(law, which, t, err),
                     f"{law[0]}{plist(law)}.{which}({t}) evaluates to {err} ({shown}); the true value is {truth}", t=str(t))
            continue
        ov, oe = (oracle_cf if which == "cf" else oracle_mgf)(law, t)
        if oe > ORACLE_ERR_MAX * max(1, abs(ov)):
            ctx.skip("oracle-quadrature-imprecise")
            continue
        ctx.comparisons += 1
        if len(ctx.rows) < 6 and t != 0:
            ctx.rows.append({"what": f"{which}({t})", "polar": vstr(pv), "truth": vstr(ov)})
        if not close(pv, ov, TOL_TRANSFORM, 100 * oe):
            ctx.viol(f"wrong-{which}", None, f"{law[0]}{plist(law)}.{which}({t}) = {vstr(pv)} but the defining integral gives {vstr(ov)} (±{mp.nstr(oe, 2)})", t=str(t))


def generic_branch(expr, tsym):
    """a Piecewise in t denotes a function; pick the branch valid for generic t (t != 0)"""
    import sympy
    e = sympy.piecewise_fold(expr) if expr.has(sympy.Piecewise) else expr
    if isinstance(e, sympy.Piecewise):
        for br, cond in e.args:
            try:
                c = cond.subs(tsym, sympy.Rational(1, 7))
                if c == True:  # noqa: E712
                    return br
            except Exception:
                continue
        return None
    return e


def derivative_at_zero(expr, tsym, k, cache):
    """k-th derivative at 0 of the function denoted by expr (removable singularities resolved by the Taylor
    coefficient = limit of the derivative)"""
    import sympy
    if "series" not in cache:
        d = sympy.diff(expr, tsym, k)
        v = d.subs(tsym, 0)
        if not (v.has(sympy.nan) or v.has(sympy.zoo) or v.has(sympy.oo)):
            return v
        cache["series"] = sympy.expand(sympy.series(expr, tsym, 0, cache["kmax"] + 1).removeO())
    return sympy.factorial(k) * cache["series"].coeff(tsym, k)


def check_derivatives(ctx, dist, law, which, kmax, budget, subs=None):
    """k-th derivative of cf/mgf at 0 reproduces i^k m_k / m_k (k = 1..kmax); plus the first derivative at one t != 0"""
    import sympy
    tsym = sympy.Symbol("t")  # as in FunctionalAssignment.get_trig_moment / get_exp_moment
    try:
        with soft_limit(budget):
            e = getattr(dist, which)(tsym)
            ctx.ev(which)
            e = to_sympy(e)
            if subs:
                e = e.subs(subs)
            g = generic_branch(e, tsym)
    except SoftTimeout:
        ctx.skip(f"{which}-symbolic-soft-timeout")
        return None
    except Exception as ex:
        ctx.refuse(ex)
        return None
    if g is None or g.has(sympy.Integral):
        ctx.skip(f"{which}-derivative-unavailable")
        return (tsym, e)
    if which == "cf":
        # observation only (belongs to the functions-of-draws property): the way FunctionalAssignment.get_trig_moment takes
        # the derivative at 0, diff(cf(t), t, k).xreplace({t: 0}), on the expression as returned
        try:
            with soft_limit(budget):
                pv0 = to_value(sympy.diff(e, tsym, 1).xreplace({tsym: sympy.Integer(0)}))
            m1 = true_moment(law, 1)
            if not close(pv0, mp.mpc(0, 1) * mpq(m1), mp.mpf(10) ** -15, mp.mpf(10) ** -15):
                ctx.notes.append("cf-derivative-by-xreplace-at-zero-wrong-value")
        except NotANumber:
            ctx.notes.append("cf-derivative-by-xreplace-at-zero-nan")
        except (SoftTimeout, Exception):
            pass
    cache = {"kmax": kmax}
    for k in range(1, kmax + 1):
        try:
            with soft_limit(budget):
                dv = derivative_at_zero(g, tsym, k, cache)
                pv = to_value(dv)
        except SoftTimeout:
            ctx.skip(f"{which}-derivative-soft-timeout")
            break
        except (NotANumber, Leftover) as ex:
            ctx.comparisons += 1
            ctx.viol(f"{which}-derivative-not-a-number", None, f"{law[0]}{plist(law)}: d^{k}/dt^{k} {which}(t) at 0 is {ex}")
            continue
        except Imprecise:
            ctx.skip("polar-value-evalf-imprecise")
            continue
        except Exception:
            ctx.skip(f"{which}-derivative-sympy-error")
            break
        ref = true_moment(law, k)
        want = mpq(ref) * (mp.mpc(0, 1) ** k if which == "cf" else 1)
        ctx.comparisons += 1
        exact = isinstance(ref, Fraction)
        tol = mp.mpf(10) ** -30 if exact else mp.mpf(10) ** -20
        scale, _ = expect(law, lambda x: abs(x) ** k) if not exact else (abs(mpq(ref)), 0)
        if not close(pv, want, tol, tol * scale):
            ctx.viol(f"{which}-derivative-mismatch", None,
                     f"{law[0]}{plist(law)}: d^{k}/dt^{k} {which}(t) at t=0 is {vstr(pv)}, but i^k·E[X^k] resp. E[X^k] = {vstr(want)}", k=k)
    return (tsym, e)


def check_cf_derivative_away(ctx, law, tsym_expr, t, budget):
    """d/dt cf(t) at t != 0 equals E[iX e^{itX}] (this is how the analysis obtains E[X sin X], E[X cos X])"""
    import sympy
    if tsym_expr is None or t == 0:
        return
    tsym, e = tsym_expr
    g = generic_branch(e, tsym)
    if g is None or g.has(sympy.Integral):
        return
    try:
        with soft_limit(budget):
            pv = to_value(sympy.diff(g, tsym).subs(tsym, sym_rational(t)))
    except SoftTimeout:
        ctx.skip("cf-derivative-soft-timeout")
        return
    except (NotANumber, Leftover) as ex:
        ctx.comparisons += 1
        ctx.viol("cf-derivative-not-a-number", None, f"{law[0]}{plist(law)}: d/dt cf(t) at t={t} is {ex}")
        return
    except Imprecise:
        ctx.skip("polar-value-evalf-imprecise")
        return
    except Exception:
        ctx.skip("cf-derivative-sympy-error")
        return
    tt = mpq(t)
    ov, oe = expect(law, lambda x: mp.mpc(0, 1) * x * mp.exp(mp.mpc(0, 1) * tt * x))
    if oe > ORACLE_ERR_MAX * max(1, abs(ov)):
        ctx.skip("oracle-quadrature-imprecise")
        return
    ctx.comparisons += 1
    if not close(pv, ov, TOL_TRANSFORM, 100 * oe):
        ctx.viol("wrong-cf-derivative", None, f"{law[0]}{plist(law)}: d/dt cf(t) at t={t} is {vstr(pv)} but E[iX e^(itX)] = {vstr(ov)}")


def check_mgf_exists(ctx, dist, law, ts):
    for t in ts:
        try:
            got = dist.mgf_exists_at(polar_t(t))
            ctx.ev("mgf_exists_at")
        except Exception as e:
            ctx.refuse(e)
            return
        want = laws.mgf_exists(law, t)
        ctx.comparisons += 1
        if bool(got) != bool(want):
            ctx.viol("wrong-mgf-domain", None, f"{law[0]}{plist(law)}.mgf_exists_at({t}) = {got}, but E[e^(tX)] {'exists' if want else 'does not exist'}")


# ---------------------------------------------------------------------------------------------- case kinds
def run_law(case, tier):
    ctx = Ctx(case)
    fam = case["family"]
    exact = [G.dec(p) for p in case["exact"]]
    law = (fam,) + tuple(exact)
    laws.check_params(law)
    budget = case.get("budget", 6)
    sample = {"kind": "law", "call": f"{fam}({', '.join(case['params'])})"}
    try:
        if case.get("via_parser"):
            prog = P.parse_string(f"x = 0\nwhile true:\n    x = {fam}({', '.join(case['params'])})\nend")
            dist = prog.loop_body[0].distribution
            ctx.ev("Parser.parse_string")
        else:
            dist = make_dist(fam, case["params"])
            ctx.ev("distribution_factory")
    except Exception as e:
        ctx.refuse(e)
        return ctx.result(sample)
    ctx.limit = TIMEOUT[tier]
    check_moments(ctx, dist, law, case["ks"], budget)
    check_support(ctx, dist, law)
    check_discrete(ctx, dist, law)
    cf_ts = [G.dec(t) for t in case["cf_ts"]]
    mgf_ts = [G.dec(t) for t in case["mgf_ts"]]
    slow = fam == "Beta" and not (exact[0].denominator == 1 and exact[1].denominator == 1)
    if slow:
        # sympy.stats returns an unevaluated Integral after 3..100+ s for non-integer shapes: attempted only when the
        # generator marked the case, one point, generous soft limit
        if case.get("slow_ok"):
            check_transform_values(ctx, dist, law, "cf", cf_ts[1:2], budget * 3)
        else:
            ctx.skip("beta-noninteger-transform-not-attempted")
    else:
        check_transform_values(ctx, dist, law, "cf", cf_ts, budget)
        check_transform_values(ctx, dist, law, "mgf", mgf_ts, budget)
    check_mgf_exists(ctx, dist, law, [G.dec(t) for t in case["exist_ts"]])
    if ctx.elapsed() > 0.6 * ctx.limit:
        ctx.skip("derivatives-case-budget-exhausted")
    elif not slow:
        te = check_derivatives(ctx, dist, law, "cf", 3, budget)
        nz = [t for t in cf_ts if t != 0]
        if nz:
            check_cf_derivative_away(ctx, law, te, nz[0], budget)
        check_derivatives(ctx, dist, law, "mgf", 3, budget)
    return ctx.result(sample)


def run_sym(case, tier):
    import sympy
    ctx = Ctx(case)
    fam = case["family"]
    budget = case.get("budget", 6)
    sample = {"kind": "symbolic", "call": f"{fam}({', '.join(case['params'])})"}
    try:
        dist = make_dist(fam, case["params"])
        ctx.ev("distribution_factory")
    except Exception as e:
        ctx.refuse(e)
        return ctx.result(sample)
    # symbolic results from Polar, computed once
    moments = {}
    for k in case["ks"]:
        try:
            with soft_limit(budget * 2):
                moments[k] = dist.get_moment(k)
            ctx.ev("get_moment")
        except SoftTimeout:
            ctx.skip("get_moment-soft-timeout")
            break
        except Exception as e:
            ctx.refuse(e)
            if fam not in ("Bernoulli", "Categorical", "Uniform", "DistExp"):
                break  # sympy.stats based families refuse symbols for every k
    insts = []
    for inst in case["instances"]:
        vals = {k: G.dec(v) for k, v in inst.items()}
        try:
            ps = [G.eval_param(p, vals) for p in case["params"]]
        except ValueError:
            continue
        if fam == "Beta" and len(ps) == 2:
            ps.append(Fraction(1))
        law = (fam,) + tuple(ps)
        try:
            laws.check_params(law)
        except laws.LawError:
            continue
        insts.append((vals, law))
    for idx, (vals, law) in enumerate(insts):
        subs = {sympy.Symbol(k): sym_rational(v) for k, v in vals.items()}
        label = "[" + ", ".join(f"{k}={v}" for k, v in sorted(vals.items())) + "] "
        for k, m in moments.items():
            compare_moment(ctx, law, k, m, label, subs=subs)
        if idx == 0:
            check_support(ctx, dist, law, subs=subs)
            check_discrete(ctx, dist, law)
        if fam == "Beta":  # sympy.stats needs minutes (or fails) on the symbolic Beta integral
            ctx.skip("beta-symbolic-transform-not-attempted")
            continue
        cf_ts, mgf_ts, _ = G.transform_points(random.Random(idx), fam, list(law[1:]))
        for which, ts in (("cf", cf_ts[:2]), ("mgf", mgf_ts[:2])):
            check_transform_values(ctx, dist, law, which, ts, budget, subs=subs)
    # Distribution.subs followed by get_moment (as ConstantsTransformer / MultiAssignTransformer do before the analysis)
    if insts and moments:
        vals, law = insts[0]
        try:
            from symengine.lib.symengine_wrapper import Symbol as SESymbol, Rational as SERational
            dist.subs({SESymbol(k): SERational(v.numerator, v.denominator) for k, v in vals.items()})
            ctx.ev("subs")
            k = max(moments)
            m = dist.get_moment(k)
            pv = to_value(m)
            ref = true_moment(law, k)
            if not close(pv, ref, mp.mpf(10) ** -30):
                ctx.notes.append("moment-cache-stale-after-subs")
        except (Leftover, NotANumber):
            ctx.notes.append("moment-cache-stale-after-subs")
        except Imprecise:
            pass
        except Exception as e:
            ctx.refuse(e)
    return ctx.result(sample)


def walk_assignments(node, out):
    if isinstance(node, (list, tuple)):
        for x in node:
            walk_assignments(x, out)
        return
    if hasattr(node, "children") and not hasattr(node, "variable"):
        for c in getattr(node, "children"):
            walk_assignments(getattr(node, c), out)
        return
    if hasattr(node, "variable"):
        out.append(node)


def polar_law(dist, vals):
    """oracle law tuple for the distribution object Polar put into the rewritten program (parameters read off the object,
    program variables instantiated)"""
    import sympy
    name = type(dist).__name__
    attrs = {"Normal": ("Normal", ["mu", "sigma2"]), "Uniform": ("Uniform", ["a", "b"]), "Laplace": ("Laplace", ["mu", "b"]),
             "Exponential": ("DistExp", ["lamb"])}
    if name not in attrs:
        raise ValueError(f"unexpected base distribution {name}")
    fam, names = attrs[name]
    subs = {sympy.Symbol(k): sym_rational(v) for k, v in vals.items()}
    ps = []
    for a in names:
        v = to_sympy(getattr(dist, a)).subs(subs)
        if v.is_Float:
            v = sympy.Rational(str(v))
        if not v.is_Rational:
            raise ValueError(f"base parameter {a}={v} not rational")
        ps.append(Fraction(int(v.p), int(v.q)))
    return (fam,) + tuple(ps)


def run_transform(case, tier):
    import sympy
    ctx = Ctx(case)
    fam = case["family"]
    sample = {"kind": "location-scale", "program": case["text"]}
    try:
        prog = P.parse_string(case["text"])
        before = []
        walk_assignments([prog.initial, prog.loop_body], before)
        n_before = len(before)
        from program.transformer.dist_transformer import DistTransformer
        prog = DistTransformer().execute(prog)
        ctx.ev("DistTransformer.execute")
    except Exception as e:
        ctx.refuse(e)
        return ctx.result(sample)
    after = []
    walk_assignments([prog.initial, prog.loop_body], after)
    # locate the statement(s) that now define x from a draw
    from program.assignment import DistAssignment, PolyAssignment
    target = None
    for i, a in enumerate(after):
        if isinstance(a, DistAssignment) and str(a.variable).startswith("_u") and i + 1 < len(after):
            nxt = after[i + 1]
            if isinstance(nxt, PolyAssignment) and str(nxt.variable) == "x":
                target = (a, nxt)
    direct = [a for a in after if isinstance(a, DistAssignment) and str(a.variable) == "x"]
    sample["rewritten"] = [str(a) for a in after][:8]
    if target is None and not direct:
        ctx.skip("rewritten-pair-not-found")
        return ctx.result(sample)
    for inst in case["instances"]:
        vals = {k: G.dec(v) for k, v in inst.items()}
        try:
            ps = [G.eval_param(p, vals) for p in case["params"]]
            law = (fam,) + tuple(ps)
            laws.check_params(law)
        except (ValueError, laws.LawError):
            ctx.skip("inadmissible-instance")
            continue
        label = "[" + ", ".join(f"{k}={v}" for k, v in sorted(vals.items()) if k in " ".join(case["params"])) + "] "
        subs = {sympy.Symbol(k): sym_rational(v) for k, v in vals.items()}
        if target is None:
            # not rewritten: the draw must still be the same law
            try:
                blaw = polar_law(direct[0].distribution, vals)
            except ValueError:
                ctx.skip("base-law-unreadable")
                continue
            ctx.comparisons += 1
            if blaw != law:
                ctx.viol("draw-changed", None, f"{label}{fam}{plist(law)} became {blaw}")
            continue
        draw, poly = target
        u = sympy.Symbol(str(draw.variable))
        try:
            blaw = polar_law(draw.distribution, vals)
            laws.check_params(blaw)
        except (ValueError, laws.LawError) as ex:
            ctx.skip("base-law-inadmissible")
            continue
        if len(poly.polynomials) != 1 or any(to_sympy(p) != 1 for p in poly.probabilities):
            ctx.skip("unexpected-poly-shape")
            continue
        pol = to_sympy(poly.polynomials[0]).subs(subs)
        left = pol.free_symbols - {u}
        if left:
            ctx.comparisons += 1
            ctx.viol("rewrite-foreign-symbols", None, f"{label}rewritten polynomial {poly.polynomials[0]} has foreign symbols {left}")
            continue
        ctx.ev("rewritten-pair")
        ctx.nontrivial = True
        for k in case["ks"]:
            ex = sympy.expand(pol ** k)
            pl = sympy.Poly(ex, u) if k > 0 else None
            tot = sympy.Integer(0)
            if k == 0:
                tot = sympy.Integer(1)
            else:
                for (j,), c in pl.terms():
                    bm = laws.raw_moment(blaw, j)
                    tot += c * sym_rational(bm)
            tot = sympy.expand(tot)
            ref = laws.raw_moment(law, k)
            ctx.comparisons += 1
            if tot.is_Rational:
                pv = Fraction(int(tot.p), int(tot.q))
                ok = pv == ref
            else:
                try:
                    pv = to_value(tot)
                except Imprecise:
                    ctx.comparisons -= 1
                    ctx.skip("polar-value-evalf-imprecise")
                    continue
                ok = close(pv, ref, mp.mpf(10) ** -38)
            if len(ctx.rows) < 4 and k in (1, 4):
                ctx.rows.append({"what": f"{label}E[({poly.polynomials[0]})^{k}], {draw.variable}~{type(draw.distribution).__name__}{plist(blaw)}",
                                 "polar": vstr(pv), "truth": vstr(ref)})
            if not ok:
                ctx.viol("location-scale-law-changed", None,
                         f"{label}x = {fam}({', '.join(case['params'])}) was rewritten to {draw} ; {poly}: moment {k} of the rewritten value is "
                         f"{vstr(pv)}, of {fam}{plist(law)} it is {vstr(ref)}", k=k)
                break
    return ctx.result(sample)


def run_case(case, tier):
    P.reset_settings()
    kind = case["kind"]
    if kind == "law":
        return run_law(case, tier)
    if kind == "sym":
        return run_sym(case, tier)
    if kind == "transform":
        return run_transform(case, tier)
    raise ValueError(kind)
