"""Shared pieces of the program-level checks (C01, C02, C03, C05, C09, C17, C18, C19, ...)."""
import hashlib
import json
import random
from fractions import Fraction

from ..lang.ast import Program, program_variables, fold_program
from ..lang.printer import program_str
from ..ref.engine import Engine, Unsupported, CapExceeded, DomainError
from ..ref import laws


def frac_enc(d):
    return {k: [v.numerator, v.denominator] for k, v in d.items()}


def frac_dec(d):
    return {k: Fraction(v[0], v[1]) for k, v in d.items()}


def fingerprint(*parts):
    return hashlib.sha256(json.dumps(parts, sort_keys=True, default=str).encode()).hexdigest()[:16]


def symbol_values(params, inits):
    """name -> Fraction for substitution into Polar's results: parameters and <var>0 initial symbols"""
    vals = dict(params)
    for v, x in inits.items():
        vals[f"{v}0"] = x
    return vals


class OracleSkip(Exception):
    def __init__(self, reason):
        super().__init__(reason)
        self.reason = reason


def oracle_moments(prog, params, inits, goals, N, max_states=20000, engine_out=None):
    """E_n[M] for n=0..N for each goal monomial; raises OracleSkip when outside the oracle"""
    try:
        eng = Engine(prog, params, inits, max_states=max_states)
        dists = eng.run(N)
        bad = declared_types_violated(prog, eng, dists)
        if bad:
            raise OracleSkip(f"declared-type-false:{bad}")
        table = []
        for g in goals:
            table.append([eng.moment(d, g) for d in dists])
        if engine_out is not None:
            engine_out.append((eng, dists))
        return table
    except Unsupported as e:
        raise OracleSkip("oracle-unsupported:" + str(e)[:60])
    except CapExceeded as e:
        raise OracleSkip("oracle-cap:" + str(e)[:40])
    except DomainError as e:
        raise OracleSkip("program-ill-defined:" + str(e)[:60])
    except laws.Divergent as e:
        raise OracleSkip("oracle-divergent:" + str(e)[:60])


def has_draw_or_choice(prog: Program):
    from ..lang.ast import walk_stmts
    for blk in (prog.init, prog.body):
        for s in walk_stmts(blk):
            rs = [s[2]] if s[0] == "assign" else (s[2] if s[0] == "simult" else [])
            for r in rs:
                if r[0] in ("draw", "choice"):
                    return True
    return False


def harness_seed(seed, prop, i):
    from ..harness import case_seed
    return case_seed(seed, prop, i)


def declared_types_violated(prog, eng, dists):
    """user-declared types are taken as given by the properties: a program whose declared type is false at a
    reachable boundary state is outside their scope.  Returns the offending (var, value) or None."""
    from ..lang.ast import fold
    from ..ref.engine import AP
    for v, tname, args in prog.typedefs:
        if v not in eng.index:
            continue
        vals = [fold(a) for a in args]
        if any(a[0] != "num" for a in vals):
            continue
        nums = [a[1] for a in vals]
        if tname == "FiniteRange" and len(nums) == 2:
            ok = lambda x: (not isinstance(x, AP)) and x.denominator == 1 and nums[0] <= x <= nums[1]
        else:
            ok = lambda x: (not isinstance(x, AP)) and x in nums
        i = eng.index[v]
        for d in dists:
            for st in d:
                if not ok(st[i]):
                    return (v, str(st[i]))
    return None


def prob_of_condition(cond, prog, params):
    """P(cond) for a condition over variables that are drawn unconditionally from Uniform(a,b) with constant parameters in the
    loop body (the shape Polar abstracts as a Bernoulli event); exact Fraction, or None when outside this shape."""
    import itertools
    from ..lang.ast import cond_vars, fold
    from ..ref.engine import eval_cond, eval_expr
    vs = sorted(cond_vars(cond))
    laws_ = {}
    for v in vs:
        found = [st for st in prog.body if st[0] == "assign" and st[1] == v]
        nested = [st for st in _all_assigns(prog.body) if st[1] == v]
        if len(found) != 1 or len(nested) != 1 or len(found[0]) > 3 or found[0][2][0] != "draw" or found[0][2][1] != "Uniform":
            return _prob_by_engine(cond, prog, params, vs)
        try:
            a, b = [eval_expr(e, dict(params)) for e in found[0][2][2]]
        except Exception:
            return None
        if not (isinstance(a, Fraction) and isinstance(b, Fraction) and a < b):
            return None
        laws_[v] = (a, b)
    # thresholds per variable
    cuts = {v: set() for v in vs}

    def collect(c):
        if c[0] == "atom":
            l, r = fold(c[1]), fold(c[3])
            if l[0] == "var" and r[0] == "num":
                cuts[l[1]].add(r[1])
            elif r[0] == "var" and l[0] == "num":
                cuts[r[1]].add(l[1])
            else:
                raise ValueError("shape")
        elif c[0] == "not":
            collect(c[1])
        elif c[0] in ("and", "or"):
            collect(c[1]); collect(c[2])
    try:
        collect(cond)
    except ValueError:
        return None
    cells = []
    for v in vs:
        a, b = laws_[v]
        pts = [a] + sorted(x for x in cuts[v] if a < x < b) + [b]
        cells.append([((lo + hi) / 2, (hi - lo) / (b - a)) for lo, hi in zip(pts, pts[1:])])
    tot = Fraction(0)
    for combo in itertools.product(*cells):
        env = {v: mid for v, (mid, _) in zip(vs, combo)}
        if eval_cond(cond, env):
            pr = Fraction(1)
            for _, w in combo:
                pr *= w
            tot += pr
    return tot


def _prob_by_engine(cond, prog, params, vs):
    """P(cond) at the position of the first if-statement of the source body that tests all variables of cond, for
    conditions over variables computed from draws (w = u + c): the unconditional top-level prefix of the body is run
    once by the reference engine with an indicator appended.  None when outside this shape / the engine."""
    from ..lang.ast import cond_vars, num, walk_stmts
    from ..ref.engine import Engine, Unsupported, CapExceeded, DomainError
    from ..ref import laws
    from ..lang.ast import rhs_vars
    prefix = []
    hit = False
    tainted = set()   # variables assigned inside earlier if-statements (which are not part of the prefix that is run)
    for st in prog.body:
        if st[0] == "if":
            tested = set()
            for c, _ in st[1]:
                cond_vars(c, tested)
            if set(vs) <= tested:
                hit = True
                break
            tainted |= {a[1] for a in _all_assigns([st])}
            continue
        if st[0] == "simult":
            tainted |= set(st[1])
            continue
        prefix.append(st)
    if not hit:
        return None
    # slice: only the assignments the tested values are computed from
    needed = set(vs)
    changed = True
    while changed:
        changed = False
        for st in prefix:
            if st[0] == "assign" and st[1] in needed and not rhs_vars(st[2]) <= needed | set(params):
                needed |= rhs_vars(st[2]) - set(params)
                changed = True
    if needed & tainted:
        return None  # an earlier if-statement may reassign what the condition reads: outside the shape
    prefix = [st for st in prefix if st[0] == "assign" and st[1] in needed]
    pvars = {s_[1] for s_ in prefix}
    if not set(vs) <= pvars:
        return None
    # iteration independence: nothing in the slice reads a variable that is not assigned earlier in the slice
    seen = set()
    for st in prefix:
        if len(st) > 3:
            return None
        if not rhs_vars(st[2]) <= seen | set(params):
            return None
        seen.add(st[1])
    ind = "ind_prob_"
    body = prefix + [("if", [(cond, [("assign", ind, ("poly", num(1)))])], [("assign", ind, ("poly", num(0)))])]
    init = [("assign", v, ("poly", num(0))) for v in sorted(pvars)] + [("assign", ind, ("poly", num(0)))]
    try:
        eng = Engine(Program([], init, ("true",), body), params, {}, max_states=5000)
        d = eng.run(1)
        val = eng.moment(d[1], {ind: 1})
    except (Unsupported, CapExceeded, DomainError, laws.Divergent, KeyError):
        return None
    return val if isinstance(val, Fraction) else None


def _all_assigns(stmts):
    from ..lang.ast import walk_stmts
    out = []
    for st in walk_stmts(stmts):
        if st[0] == "assign":
            out.append(st)
        elif st[0] == "simult":
            for v, r in zip(st[1], st[2]):
                out.append(("assign", v, r))
    return out


def abstraction_values(program, prog, params):
    """values for the _prob symbols of abstracted conditions (name -> Fraction); None if some condition is outside the oracle"""
    from ..ref import ir
    from ..ref.engine import Unsupported
    out = {}
    for sym, cond in getattr(program, "abstracted_const_store", {}).items():
        try:
            c = ir.conv_cond(cond)
        except Unsupported:
            return None
        p = prob_of_condition(c, prog, params)
        if p is None:
            return None
        out[str(sym)] = p
    return out


def load_factor():
    import os
    try:
        return float(os.environ.get("VERIF_LOAD_FACTOR", "1"))
    except ValueError:
        return 1.0


class SoftTimeout(BaseException):
    """raised by soft_timeout inside a worker; BaseException so that Polar's own 'except Exception' cannot swallow it"""


class soft_timeout:
    """time-box an optional, expensive step inside run_case (the harness watchdog remains the hard limit)"""

    def __init__(self, seconds):
        # nominal seconds, stretched by the load factor the master measured (see harness.load_factor)
        self.seconds = max(1, int(seconds * load_factor()))

    def __enter__(self):
        import signal

        def handler(signum, frame):
            raise SoftTimeout()
        self._old = signal.signal(signal.SIGALRM, handler)
        signal.alarm(self.seconds)
        return self

    def __exit__(self, et, ev, tb):
        import signal
        signal.alarm(0)
        signal.signal(signal.SIGALRM, self._old)
        return False
