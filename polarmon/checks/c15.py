"""C15 — Bayesian-network import and queries agree with the network's joint law.

Monitors (real Polar code): BifParser(tol).parse_file on generated BIF texts (4 notations of the same network +
mutated documents), CodeGenerator(network[, query]).generate_code(), the `--bif_to_prob` file, and the lines printed by
the real CLI (polar.main -> BayesNetworkAction -> Query.generate_result) for `--exact_inference` and
`--sample_time_until`.
Oracle (no Polar code): the generator's own exact CPTs (Fractions), enumeration of the joint law, the oracle's own
.prob parser + exact engine executing the generated program text, E(X^k | evidence) and 1/P(evidence) by enumeration.
"""
import os
import random
import shutil
import tempfile
from fractions import Fraction

from .. import polar_api as P
from ..gen import bif as B
from . import common as K

ID = "C15"
RULE = ("cases = 2 transcribed textbook networks (cancer with the pre-observed witness query, survey with its published "
        "variable name E) + seeded random Bayesian networks (2-6 variables quick / 2-7 thorough, domain sizes 2-4, <= 3 parents, "
        "CPTs of <= 9 rows quick / <= 16 thorough, exact decimal rows incl. zero/one/near-one/tiny entries, variable and value "
        "names needing sanitising, names colliding after sanitising or with the query helper variables, rarely names that "
        "are constants/keywords of the .prob language), each written in 4 BIF notations (table / entries only / "
        "default+entries / mixed with overwritten default and table; shuffled attribute, block and parent order; all FLOAT "
        "spellings and separators), 2-4 queries (exact inference with power 1-3(4) / sampling time; evidence sets of 1-4 "
        "conjuncts with positive probability) and 6-10 mutated documents (effective row sums off by tol/100..0.9 tol -> must "
        "be accepted, 1.1 tol..1 -> must be rejected, missing entry/value/CPT, wrong table length, duplicate entry) under "
        "tolerances 1e-2..1e-6. non-trivial = the joint has >= 2 positive states and the loop law and >= 1 printed query "
        "answer were compared; distinct = distinct (network spec, queries, tolerance) fingerprints")
ASSUMPTIONS = [
    "BIF semantics as stated in the property: CPT assembly default -> table (own value slowest, parents in product order) -> entries; values numbered by domain position",
    "semantics of the .prob language as implemented by polarmon/lang/parser.py + polarmon/ref/engine.py (used to execute the generated program text)",
    "repr(float) of a parsed CPT value is the shortest decimal that round-trips, so it equals the written decimal (<= 9 significant digits)",
    "sympy.sympify parses the printed rational answer correctly",
    "network variable -> program variable correspondence is read from CodeGenerator.polar_variable_names (an observation, checked for injectivity)",
]
TIMEOUT = {"quick": 60, "thorough": 240}
DEADLINE = {"quick": 75, "thorough": 1000}
MIN_DECIDING = {"quick": 25, "thorough": 300}
NCASES = {"quick": 110, "thorough": 2400}

KEY_P21 = "sample-time-limit-taken-over-non-integer-n"
KEY_CONST = "bif-variable-name-becomes-symbolic-constant"
KEY_FLOAT = "categorical-remainder-probability-rounded-in-floating-point"

_hooks = {}


def _count(name):
    _hooks[name] = _hooks.get(name, 0) + 1


_captured = []


def worker_init(tier):
    P.load()
    from bayesnet.parser import BifParser
    from bayesnet.code_generator import CodeGenerator
    from bayesnet.query.exact_inference_query import ExactInferenceQuery
    from bayesnet.query.sampling_time_query import SamplingTimeQuery
    from cli.actions.bayesian_network_action import BayesNetworkAction
    from cli.actions.print_benchmark_action import PrintBenchmarkAction

    def wrap(cls, meth, label, capture=False):
        orig = getattr(cls, meth)
        if getattr(orig, "_polarmon", False):
            return

        def w(self, *a, **kw):
            _count(label)
            if capture:
                _captured.append((label, a[0] if a else None))
            return orig(self, *a, **kw)
        w._polarmon = True
        setattr(cls, meth, w)

    wrap(BifParser, "parse_file", "BifParser.parse_file")
    wrap(CodeGenerator, "generate_code", "CodeGenerator.generate_code")
    wrap(ExactInferenceQuery, "generate_result", "ExactInferenceQuery.generate_result", capture=True)
    wrap(SamplingTimeQuery, "generate_result", "SamplingTimeQuery.generate_result", capture=True)
    wrap(BayesNetworkAction, "__call__", "BayesNetworkAction.__call__")
    wrap(PrintBenchmarkAction, "__call__", "PrintBenchmarkAction.__call__")


# ------------------------------------------------------------------ generation
def generate(seed, tier):
    cases = []
    n = NCASES[tier]
    for i in range(n):
        cs = K.harness_seed(seed, ID, i)
        rng = random.Random(cs)
        profile = None
        if i % 14 == 5:
            profile = "constname"
        elif i % 45 == 17:
            profile = "keyword"
        fixed = B.FIXED[i] if i < len(B.FIXED) else None
        if fixed:
            spec, feats = fixed[1], list(fixed[3])
        else:
            spec, feats = B.gen_spec(rng, tier, profile)
        tol = rng.choice(["0.001", "0.001", "0.001", "0.01", "0.0001", "0.000001"])
        texts = []
        for m in ("table", "entries", "default", "mixed"):
            t, doc = B.render(spec, m, rng)
            texts.append({"mode": m, "text": t, "modes": [p["mode"] for p in doc["probs"]]})
        if tier == "quick":
            nq = 2 if len(spec["vars"]) >= 5 else 3
        else:
            nq = 4
        queries = B.gen_queries(rng, spec, tier, count=nq)
        if fixed:
            queries = [dict(q) for q in fixed[2]]
        negs = B.mutations(spec, rng, tol, count=6 if tier == "quick" else 10)
        cases.append({"id": fixed[0] if fixed else f"bn-{cs}", "spec": spec, "tol": tol, "texts": texts, "queries": queries,
                      "negatives": negs, "features": feats, "bif_to_prob": i % 3 == 0, "print_benchmark": i % 4 == 1})
    return cases


# ------------------------------------------------------------------ oracle pieces
def _expected_cpt(spec):
    idx = B.spec_index(spec)
    out = {}
    for v in spec["vars"]:
        combos = B.parent_combos(spec, v)
        out[v["name"]] = {tuple(c): tuple(Fraction(x) for x in r) for c, r in zip(combos, v["rows"])}
    return out


def compare_network(net, spec):
    """list of difference strings between the parsed BayesNetwork and the generator's spec (exact)"""
    diffs = []
    exp = _expected_cpt(spec)
    names = [v["name"] for v in spec["vars"]]
    if sorted(net.variables.keys()) != sorted(names):
        return [f"variables {sorted(net.variables.keys())} != {sorted(names)}"], 1
    ncmp = 0
    for v in spec["vars"]:
        bv = net.variables[v["name"]]
        ncmp += 2
        if tuple(bv.domain) != tuple(v["domain"]):
            diffs.append(f"{v['name']}: domain {bv.domain} != {v['domain']}")
            continue
        if [p.name for p in bv.parents] != list(v["parents"]):
            diffs.append(f"{v['name']}: parents {[p.name for p in bv.parents]} != {v['parents']}")
            continue
        e = exp[v["name"]]
        if set(bv.cpt.keys()) != set(e.keys()):
            diffs.append(f"{v['name']}: cpt conditions {sorted(bv.cpt.keys())[:4]}.. != {sorted(e.keys())[:4]}..")
            continue
        for cond, row in e.items():
            got = bv.cpt[cond]
            ncmp += 1
            try:
                gotf = tuple(Fraction(repr(float(x))) for x in got)
            except Exception:
                diffs.append(f"{v['name']}{cond}: row {got} is not numeric")
                continue
            if gotf != row:
                diffs.append(f"{v['name']}{cond}: row {tuple(map(str, gotf))} != {tuple(map(str, row))}")
    return diffs, ncmp


def truth_queries(spec, joint, q):
    names = [v["name"] for v in spec["vars"]]
    idx = {n: i for i, n in enumerate(names)}
    ev = [(idx[a], spec["vars"][idx[a]]["domain"].index(b)) for a, b in q["evidence"]]
    pev = Fraction(0)
    num = Fraction(0)
    t = idx[q["target"]] if q["type"] == "exact" else None
    for a, p in joint.items():
        if all(a[i] == x for i, x in ev):
            pev += p
            if t is not None:
                num += p * Fraction(a[t]) ** q["power"]
    if pev == 0:
        return None, pev
    return (num / pev if t is not None else 1 / pev), pev


def run_own_engine(code, steps=2, max_states=60000):
    from ..lang.parser import parse_program
    from ..ref.engine import Engine
    prog = parse_program(code)
    eng = Engine(prog, max_states=max_states)
    return eng, eng.run(steps)


def law_of(eng, dist, prog_names):
    m = eng.marginal(dist, prog_names)
    out = {}
    for k, p in m.items():
        if p != 0:
            out[k] = out.get(k, 0) + p
    return out


def joint_as_values(joint):
    return {tuple(Fraction(x) for x in a): p for a, p in joint.items()}


def _viol(res, kind, detail, key=None, **kw):
    d = {"kind": kind, "key": key, "detail": detail}
    d.update(kw)
    res["violations"].append(d)


def _const_names(mapping):
    return sorted(n for n in mapping.values() if n in B.SANITISED_CONSTANTS)


# ------------------------------------------------------------------ the case
def run_case(case, tier):
    spec = case["spec"]
    res = {"fingerprint": K.fingerprint(spec, [q["string"] for q in case["queries"]], case["tol"]),
           "features": list(case.get("features", [])), "events": {}, "violations": [], "comparisons": 0, "refusals": []}
    _hooks.clear()
    tmp = tempfile.mkdtemp(prefix="polarmon-c15-")
    try:
        _run(case, tier, spec, res, tmp)
    finally:
        shutil.rmtree(tmp, ignore_errors=True)
        P.reset_settings()
    res["events"] = dict(_hooks)
    return res


def _write(tmp, name, text):
    path = os.path.join(tmp, name)
    with open(path, "w") as f:
        f.write(text)
    return path


def _run(case, tier, spec, res, tmp):
    from bayesnet.parser import BifParser
    from bayesnet.code_generator import CodeGenerator
    from bayesnet.exceptions import BifFormatException
    from bayesnet.query.exact_inference_query import ExactInferenceQuery
    from bayesnet.query.sampling_time_query import SamplingTimeQuery
    import sympy

    tol = float(case["tol"])
    sample = {"variables": [f"{v['name']}{v['domain']} <- {v['parents']}" for v in spec["vars"]], "tol": case["tol"]}
    res["sample"] = sample
    # ---- (a) every notation parses to the generator's network
    nets = []
    paths = []
    for i, t in enumerate(case["texts"]):
        path = _write(tmp, f"net{i}.bif", t["text"])
        paths.append(path)
        try:
            net = BifParser(tol).parse_file(path)
        except Exception as e:
            _viol(res, "valid-file-rejected", f"notation {t['mode']} ({t['modes']}): {type(e).__name__}: {str(e)[:200]}",
                  text=t["text"], exception=P.refusal_key(e))
            nets.append(None)
            continue
        nets.append(net)
        diffs, ncmp = compare_network(net, spec)
        res["comparisons"] += ncmp
        res["features"].append("notation-" + t["mode"])
        for m in set(t["modes"]):
            res["features"].append("cpt-" + m)
        if diffs:
            _viol(res, "notation-network-mismatch", f"notation {t['mode']} ({t['modes']}): " + "; ".join(diffs[:4]),
                  text=t["text"])
    # ---- negative space / tolerance
    neg_rows = []
    for j, ng in enumerate(case["negatives"]):
        path = _write(tmp, f"neg{j}.bif", ng["text"])
        outcome, net, exc = "accepted", None, None
        try:
            net = BifParser(tol).parse_file(path)
        except BifFormatException as e:
            outcome, exc = "BifFormatException", e
        except Exception as e:
            outcome, exc = "other:" + type(e).__name__, e
        res["comparisons"] += 1
        res["features"].append("mut-" + ng["kind"])
        neg_rows.append(f"{ng['kind']} expect={ng['expect']} -> {outcome}")
        if ng["expect"] == "reject":
            if outcome == "accepted":
                _viol(res, "malformed-file-accepted", f"{ng['kind']}: {ng['detail']} -> accepted (tol {case['tol']})",
                      text=ng["text"], mutation=ng["kind"])
            elif outcome != "BifFormatException":
                # still a rejection: the property only restricts acceptance; reported for information
                res["refusals"].append("reject-with-" + P.refusal_key(exc))
        elif ng["expect"] == "accept":
            if outcome != "accepted":
                _viol(res, "valid-file-rejected", f"{ng['kind']}: {ng['detail']} -> {outcome}: {str(exc)[:160]}",
                      text=ng["text"], mutation=ng["kind"], exception=P.refusal_key(exc))
            else:
                diffs, ncmp = compare_network(net, ng["spec"])
                res["comparisons"] += ncmp
                if diffs:
                    _viol(res, "notation-network-mismatch", f"{ng['kind']}: {ng['detail']}: " + "; ".join(diffs[:4]),
                          text=ng["text"], mutation=ng["kind"])
        else:  # 'either': accepted (same network) or BifFormatException
            if outcome == "accepted":
                diffs, ncmp = compare_network(net, spec)
                res["comparisons"] += ncmp
                if diffs:
                    _viol(res, "notation-network-mismatch", f"{ng['kind']}: {ng['detail']}: " + "; ".join(diffs[:4]),
                          text=ng["text"], mutation=ng["kind"])
            elif outcome != "BifFormatException":
                res["refusals"].append("reject-with-" + P.refusal_key(exc))
    sample["mutations"] = neg_rows

    good = [i for i, n in enumerate(nets) if n is not None]
    if not good:
        res["verdict"] = "violated"
        res["nontrivial"] = True
        return
    # ---- (b) joint by enumeration
    joint = B.joint(spec)
    jv = joint_as_values(joint)
    names = [v["name"] for v in spec["vars"]]
    total = sum(joint.values())
    assert total == 1, "generator produced rows that do not sum to one"
    law_compared = 0
    answers_compared = 0

    # ---- (c) one iteration of the generated loop draws from the joint
    def check_code(code, mapping, label, extra=None):
        nonlocal law_compared
        if len(set(mapping.values())) != len(mapping):
            _viol(res, "program-variable-names-not-distinct", f"{label}: mapping {mapping}")
            return None
        try:
            eng, dists = run_own_engine(code)
        except Exception as e:
            res["refusals"].append(f"oracle:{type(e).__name__}:{label}")
            res.setdefault("oracle_skips", []).append(f"{label}: {type(e).__name__}: {str(e)[:120]}")
            return None
        prog_names = [mapping[n] for n in names]
        missing = [x for x in prog_names if x not in eng.index]
        if missing:
            _viol(res, "program-lacks-network-variable", f"{label}: {missing} not assigned in the generated program", code=code)
            return None
        for it in (1, 2):
            law = law_of(eng, dists[it], prog_names)
            res["comparisons"] += len(jv)
            law_compared += 1
            if law != jv:
                bad = [(k, law.get(k, 0), jv.get(k, 0)) for k in sorted(set(law) | set(jv), key=str) if law.get(k, 0) != jv.get(k, 0)]
                k0 = bad[0]
                _viol(res, "loop-law-differs-from-joint",
                      f"{label}, iteration {it}: P{tuple(map(str, k0[0]))} = {k0[1]} in the generated loop, {k0[2]} in the network ({len(bad)} states differ)",
                      code=code)
                break
        return eng, dists

    primary = nets[good[0]]
    try:
        cg = CodeGenerator(primary)
        code0 = cg.generate_code()
        mapping0 = dict(cg.polar_variable_names)
    except Exception as e:
        res["refusals"].append(P.refusal_key(e))
        code0 = None
    if code0 is not None:
        check_code(code0, mapping0, "CodeGenerator(network).generate_code()")
        sample["program_head"] = code0[:300]
        sample["mapping"] = mapping0
        if any(k != v for k, v in mapping0.items()):
            res["features"].append("mapping-renamed")
        if len({B.sanitise(n) for n in names}) < len(names):
            res["features"].append("mapping-collision-resolved")
    if case.get("bif_to_prob"):
        outp = os.path.join(tmp, "out.prob")
        try:
            P.run_cli([paths[good[-1]], "--bif_to_prob", outp])
            with open(outp) as f:
                code1 = f.read()
            res["features"].append("bif_to_prob")
            # correspondence of names: the comment lines "# variable: X <=> x" of the written file
            mp = {}
            for line in code1.splitlines():
                s = line.strip()
                if s.startswith("# variable: ") and " <=> " in s:
                    a, b = s[len("# variable: "):].rsplit(" <=> ", 1)
                    mp[a] = b
            if set(mp) == set(names):
                check_code(code1, mp, "--bif_to_prob file")
            else:
                _viol(res, "program-lacks-network-variable", f"--bif_to_prob file names {sorted(mp)} != {sorted(names)}", code=code1)
        except SystemExit:
            res["refusals"].append("cli:SystemExit")
        except Exception as e:
            res["refusals"].append("cli:" + P.refusal_key(e))
        finally:
            P.reset_settings()
    if case.get("print_benchmark"):
        try:
            out = P.run_cli([paths[good[0]]])
            res["features"].append("print_benchmark")
            # the "Parsed program" printed by PrintBenchmarkAction is Polar's reading of the generated program
            # (its program variables are listed in declaration order = order of network.variables)
            code2 = printed_program_to_prob(out)
            if code2 is not None and code0 is not None:
                r2 = None
                try:
                    r2 = run_own_engine(code2, steps=1)
                except Exception as e:
                    res["refusals"].append(f"oracle:{type(e).__name__}:printed-program")
                if r2 is not None:
                    eng2, d2 = r2
                    prog_names = [mapping0[n] for n in names]
                    if all(x in eng2.index for x in prog_names):
                        law = law_of(eng2, d2[1], prog_names)
                        res["comparisons"] += len(jv)
                        law_compared += 1
                        if law != jv:
                            bad = [(k, law.get(k, 0), jv.get(k, 0)) for k in sorted(set(law) | set(jv), key=str)
                                   if law.get(k, 0) != jv.get(k, 0)]
                            k0 = max(bad, key=lambda b: abs(b[1] - b[2]))
                            fw = _float_remainder_witness(code0)
                            small = all(abs(b[1] - b[2]) <= Fraction(1, 10 ** 9) for b in bad)
                            key = KEY_CONST if _const_names(mapping0) else (KEY_FLOAT if (fw and small) else None)
                            _viol(res, "parsed-program-law-differs-from-joint",
                                  f"program printed by PrintBenchmarkAction: P{tuple(map(str, k0[0]))} = {k0[1]} after one iteration, "
                                  f"{k0[2]} in the network ({len(bad)} states differ, total mass {sum(law.values())})"
                                  + (f"; Polar parsed '{fw}' with probabilities that do not sum to 1" if fw else ""),
                                  key=key, code=code2[:3000])
        except SystemExit:
            res["refusals"].append("cli:SystemExit")
        except Exception as e:
            res["refusals"].append("cli-print:" + P.refusal_key(e))
        finally:
            P.reset_settings()

    # ---- (d) queries
    nsym = sympy.Symbol("n", integer=True)
    qrows = []
    for qi, q in enumerate(case["queries"]):
        truth, pev = truth_queries(spec, joint, q)
        if truth is None:
            continue
        net_i = good[qi % len(good)]
        net = nets[net_i]
        path = paths[net_i]
        row = {"query": q["string"], "type": q["type"], "truth": str(truth), "P(evidence)": str(pev)}
        qrows.append(row)
        # the instrumented program, executed by the oracle's engine
        try:
            qobj = (ExactInferenceQuery if q["type"] == "exact" else SamplingTimeQuery)(q["string"], net)
            cgq = CodeGenerator(net, qobj)
            codeq = cgq.generate_code()
            mapq = dict(cgq.polar_variable_names)
        except Exception as e:
            res["refusals"].append(P.refusal_key(e))
            row["polar"] = "refused: " + P.refusal_key(e)
            continue
        r = check_code(codeq, mapq, f"CodeGenerator(network, {q['type']} query).generate_code()")
        if r is not None:
            eng, dists = r
            try:
                if q["type"] == "exact":
                    for it in (1, 2):
                        num = eng.moment(dists[it], {qobj.inference_name: q["power"]})
                        den = eng.moment(dists[it], {qobj.indicator_name: 1})
                        res["comparisons"] += 1
                        if den == 0 or num / den != truth:
                            _viol(res, "query-program-wrong", f"{q['string']}: E({qobj.inference_name}**{q['power']})/E({qobj.indicator_name}) = {num}/{den} after iteration {it} of the generated program, truth {truth}", code=codeq)
                            break
                else:
                    acc = Fraction(1)
                    for it in (1, 2):
                        acc += (1 - pev) ** it
                        got = eng.moment(dists[it], {qobj.count_name: 1})
                        res["comparisons"] += 1
                        if got != acc:
                            _viol(res, "query-program-wrong", f"{q['string']}: E({qobj.count_name}) = {got} after iteration {it} of the generated program, truth {acc}", code=codeq)
                            break
            except KeyError as e:
                _viol(res, "query-program-wrong", f"{q['string']}: helper variable {e} missing in the generated program", code=codeq)
        # the real CLI
        flag = "--exact_inference" if q["type"] == "exact" else "--sample_time_until"
        del _captured[:]
        try:
            out = P.run_cli([path, flag, q["string"]])
        except SystemExit:
            res["refusals"].append("cli:SystemExit")
            row["polar"] = "refused: SystemExit"
            continue
        except Exception as e:
            res["refusals"].append("cli:" + P.refusal_key(e))
            row["polar"] = "refused: " + P.refusal_key(e)
            continue
        finally:
            P.reset_settings()
        prefix = (f"E({q['string']}) = " if q["type"] == "exact"
                  else f"The expected number of samples until {q['string']} is ")
        lines = [l for l in out.splitlines() if l.startswith(prefix) and " ≈ " in l]
        if len(lines) != 1:
            res["refusals"].append("cli:no-answer-line")
            row["polar"] = "no answer line"
            continue
        printed = lines[0][len(prefix):].rsplit(" ≈ ", 1)[0].strip()
        row["polar"] = printed[:200]
        answers_compared += 1
        res["comparisons"] += 1
        res["features"].append("query-" + q["type"])
        res["features"].append(f"evidence-{len(q['evidence'])}")
        if q["type"] == "exact":
            res["features"].append(f"power-{q['power']}")
        consts = _const_names(mapq)
        try:
            val = sympy.sympify(printed, locals={"n": nsym}, rational=True)
        except Exception as e:
            _viol(res, "answer-unparseable", f"{flag} \"{q['string']}\" printed {printed[:200]!r}: {e}",
                  key=KEY_CONST if consts else None, query=q["string"])
            continue
        if val.free_symbols:
            symnames = sorted(s.name for s in val.free_symbols)
            raw_ok = _raw_moments_ok(q, qobj, codeq)
            fw = _float_remainder_witness(codeq)
            key = None
            lim = None
            limf = None
            if symnames == ["n"]:
                try:
                    lim = sympy.limit_seq(val, nsym)
                except Exception:
                    lim = None
                if lim is not None and lim.is_Rational:
                    limf = Fraction(int(lim.p), int(lim.q))
                    if limf == truth or (fw and _close(limf, truth)):
                        key = KEY_P21
            if key is None and consts:
                key = KEY_CONST
            _viol(res, "answer-not-a-number",
                  f"{flag} \"{q['string']}\" printed the formula {printed[:240]} (free symbols {symnames}); truth {truth}"
                  + (f"; its limit for integer n is {lim}" if lim is not None else "")
                  + (f"; raw closed forms agree with the reference engine at n=1..3: {raw_ok}" if raw_ok is not None else ""),
                  key=key, query=q["string"], qtype=q["type"], polar=printed[:300], truth=str(truth))
            if key == KEY_P21 and limf != truth:
                # second, independent mechanism: even the limit of the printed formula is not the exact answer
                _viol(res, "answer-wrong",
                      f"{flag} \"{q['string']}\": the limit {lim} of the printed formula differs from the truth {truth} "
                      f"(relative error {float(abs(limf - truth) / abs(truth)):.3g}); Polar parsed '{fw}' with probabilities that do not sum to 1",
                      key=KEY_FLOAT, query=q["string"], qtype=q["type"], polar=str(lim), truth=str(truth))
            continue
        ok = False
        got = None
        if val.is_Rational:
            got = Fraction(int(val.p), int(val.q))
            ok = got == truth
        elif val.is_Float:
            got = Fraction(str(val))
            ok = abs(got - truth) <= Fraction(1, 10 ** 9) * max(1, abs(truth))
            res["features"].append("float-answer")
        if not ok:
            raw_ok = _raw_moments_ok(q, qobj, codeq)
            fw = _float_remainder_witness(codeq)
            key = None
            if consts:
                key = KEY_CONST
            elif fw and got is not None and _close(got, truth):
                key = KEY_FLOAT
            _viol(res, "answer-wrong",
                  f"{flag} \"{q['string']}\" printed {printed[:200]}; truth {truth} (P(evidence) = {pev})"
                  + (f"; relative error {float(abs(got - truth) / abs(truth)):.3g}" if got is not None and truth != 0 else "")
                  + (f"; Polar parsed '{fw}' with probabilities that do not sum to 1" if fw else "")
                  + (f"; raw closed forms agree with the reference engine at n=1..3: {raw_ok}" if raw_ok is not None else ""),
                  key=key, query=q["string"], qtype=q["type"], polar=printed[:300], truth=str(truth))
    sample["queries"] = qrows
    if res["violations"]:
        res["verdict"] = "violated"
        res["nontrivial"] = True
        return
    if law_compared == 0 and answers_compared == 0:
        res.update(verdict="inconclusive", reason="refused", refusal=(res["refusals"] or ["?"])[0])
        return
    res["verdict"] = "held"
    res["nontrivial"] = len(joint) >= 2 and law_compared > 0 and answers_compared > 0


def _raw_moments_ok(q, qobj, codeq):
    """diagnostic only (never decides a verdict): do the closed forms handed to Query.generate_result agree with the
    reference engine at n = 1..3?  Tells apart a wrong moment from a wrong after-loop limit."""
    try:
        if not _captured:
            return None
        results = _captured[-1][1]
        eng, dists = run_own_engine(codeq, steps=3)
        goals = ([{qobj.inference_name: q["power"]}, {qobj.indicator_name: 1}] if q["type"] == "exact"
                 else [{qobj.count_name: 1}])
        for g, cf in zip(goals, results):
            for n in (1, 2, 3):
                pv = P.eval_at(cf, n, {})
                if not P.values_equal(pv, eng.moment(dists[n], g)):
                    return False
        return True
    except Exception:
        return None


def _close(a, b, rel=Fraction(1, 10 ** 6)):
    return abs(a - b) <= rel * max(abs(a), abs(b))


def _float_remainder_witness(code):
    """diagnostic only: parse the generated program with Polar's own parser and return the first categorical
    assignment whose probabilities (after Polar's float -> rational conversion of the implicit last probability
    `1-p1-...`) do not sum to exactly 1; None if there is none / on any error."""
    try:
        import sympy
        from inputparser import Parser
        prog = Parser().parse_string(code)
        found = []

        def walk(stmts):
            for st in stmts:
                if found:
                    return
                probs = getattr(st, "probabilities", None)
                if probs is not None and len(probs) > 1:
                    tot = sum((sympy.Rational(str(x)) for x in probs), sympy.Integer(0))
                    if tot != 1:
                        found.append(str(st))
                        return
                if hasattr(st, "branches"):
                    for b in st.branches:
                        walk(b)
                    if getattr(st, "else_branch", None):
                        walk(st.else_branch)
        walk(prog.loop_body)
        return found[0] if found else None
    except Exception:
        return None


def printed_program_to_prob(out):
    """convert the indentation-structured "Parsed program" section printed by PrintBenchmarkAction into .prob text for
    the oracle's own parser (if / else if / else blocks get explicit `end`s; logical symbols -> && || !)"""
    lines = out.splitlines()
    try:
        i = next(k for k, l in enumerate(lines) if "- Parsed program -" in l) + 2
    except StopIteration:
        return None
    body = []
    for l in lines[i:]:
        if "- Transformed program -" in l or l.startswith("---"):
            break
        body.append(l)
    res = []
    stack = []
    for l in body:
        if not l.strip():
            continue
        l = l.replace("\x1b[0m", "")
        ind = len(l) - len(l.lstrip(" "))
        c = l.strip().replace("∧", "&&").replace("∨", "||").replace("¬", "!")
        is_else = c.startswith("else")
        while stack and (stack[-1] > ind or (stack[-1] == ind and not is_else)):
            res.append(" " * stack.pop() + "end")
        if c.startswith("else if "):
            res.append(" " * ind + "elif " + c[len("else if "):])
        elif c.startswith("if "):
            res.append(" " * ind + c)
            stack.append(ind)
        else:
            res.append(" " * ind + c)
    return "\n".join(res) + "\n"
