"""C12 — simulation follows the same semantics and laws as the exact analysis.

Monitor: Simulator(n).simulate(program, goals, 1) on the un-normalized parsed program with every random
source scripted (random.choices, random.choice, scipy rv_generic.rvs / rv_discrete.rvs are replaced by a
tape that records family, parameters and weights and returns the scripted outcome).  A stateless search
re-runs the simulation for every resolution of the discrete choices.  Oracle: the single-path reference
interpreter (ref/path.py) replays the source AST on the same outcomes: at every random point the law the
semantics demands is compared with the recorded call, and the states are compared after every iteration.
Complete enumerations are additionally compared with the exact law of the reference engine.
Second case kind: the real (unscripted) samplers, 200 seeded samples each, must lie in the declared support."""
import math
import random as _random
from contextlib import contextmanager
from fractions import Fraction
from fractions import Fraction as F

from .. import polar_api as P
from ..gen import programs as G
from ..lang.ast import Program, program_variables, walk_stmts
from ..lang.printer import program_str
from ..ref.engine import Engine, Unsupported, CapExceeded, DomainError, AP
from ..ref.path import PathInterp
from ..ref import laws
from . import common as K

ID = "C12"
RULE = ("case kind 'program': generated fully initialised programs without symbolic constants (all profiles, all ten families, "
        "guards, simultaneous assignments, if/elif/else, transform_categoricals on/off); every path = one resolution of the "
        "discrete random choices (continuous draws scripted to rational values); non-trivial = >= 2 paths or >= 1 random call "
        "were replayed in lock-step; case kind 'sampler': (family, parameters) vectors, 200 seeded samples each; "
        "distinct = (program text, settings) resp. (family, parameters)")
ASSUMPTIONS = [
    "scipy parametrisations are translated to the language's: norm(loc,scale)->(mu,scale^2); uniform(loc,scale)->(a,a+scale); "
    "expon(scale)->rate 1/scale; laplace(loc,scale); gamma(a,scale); beta(a,b) times scale; truncnorm(a,b,loc,scale)->bounds loc+a*scale, loc+b*scale",
    "simulator states are floats: comparison with the exact rational reference uses a relative tolerance of 1e-9",
    "no statistical test is used: laws are compared through the parameters of the recorded sampler calls",
]
TIMEOUT = {"quick": 40, "thorough": 120}
DEADLINE = {"quick": 100, "thorough": 1000}
MIN_DECIDING = {"quick": 40, "thorough": 300}
NCASES = {"quick": 400, "thorough": 2500}

SAMPLER_PARAMS = {
    "Bernoulli": [["1/2"], ["1/10"], ["0.9"], ["1"], ["0"]],
    "Categorical": [["1/2", "1/2"], ["1/10", "2/10", "7/10"], ["0", "1"], ["0.25", "0.25", "0.5"]],
    "DiscreteUniform": [["0", "3"], ["-2", "2"], ["5", "5"], ["1", "6"]],
    "Normal": [["0", "1"], ["5", "1/4"], ["-3", "9"], ["2", "0.01"]],
    "Uniform": [["0", "1"], ["-1", "3"], ["2", "5/2"], ["-10", "-9"]],
    "DistExp": [["1"], ["1/2"], ["10"], ["3"]],
    "Laplace": [["0", "1"], ["3", "1/2"], ["-2", "4"]],
    "Gamma": [["1", "1"], ["3", "1/2"], ["1/2", "2"], ["9", "3"]],
    "Beta": [["1", "1"], ["2", "3"], ["1/2", "1/2"], ["2", "5", "4"], ["3", "1", "1/2"]],
    "TruncNormal": [["0", "1", "-1", "1"], ["5", "1", "4", "6"], ["2", "4", "0", "3"], ["-3", "1/4", "-4", "-2"], ["0", "1", "2", "3"], ["10", "9", "9", "20"]],
}


def designed_cases(seed, tier):
    """comparisons between values that are distinct but very close or very large (exactly representable in binary floating
    point, so that the simulator's float state and the exact reference agree bit for bit): equality must stay exact"""
    from ..lang.parser import parse_program
    out = []
    rng = _random.Random(K.harness_seed(seed, ID + "-designed", 0))
    templates = [
        ("halving-equality", "x = 1\nhit = 0\nwhile true:\n    x = x/2\n    if x == 0:\n        hit = hit + 1\n    end\nend\n", 45),
        ("halving-guard", "x = 1\nsteps = 0\nwhile !(x == 0):\n    x = x/4\n    steps = steps + 1\nend\n", 24),
        ("halving-mixed", "x = 1\ny = 0\nhit = 0\nwhile true:\n    x = x/2 {1/2} x/4\n    if x <= y:\n        hit = hit + 1\n    end\n    if y >= x:\n        hit = hit + 2\n    end\nend\n", 11),
        ("large-integers", "x = 1\ny = 1\nhit = 0\nwhile true:\n    x = 4*x\n    y = 4*y\n    if x == y + 1:\n        hit = hit + 1\n    end\n    if x + 1 == y + 1:\n        hit = hit + 4\n    end\nend\n", 22),
        ("large-integers-ineq", "x = 1\nhit = 0\nwhile true:\n    x = 8*x\n    if x + 1 <= x:\n        hit = hit + 1\n    end\n    if x < x + 1:\n        hit = hit + 2\n    end\nend\n", 15),
        ("close-to-constant", "x = 1\nhit = 0\nwhile true:\n    x = x/2\n    if 1 + x == 1:\n        hit = hit + 1\n    end\nend\n", 40),
    ]
    for name, text, N in templates:
        prog = parse_program(text)
        out.append({"id": f"designed-{name}", "kind": "program", "text": text, "ast": prog.to_json(), "N": N,
                    "max_paths": 150 if tier == "quick" else 1200, "settings": {}, "features": ["designed-close-values", name]})
    return out


def generate(seed, tier):
    cases = designed_cases(seed, tier)
    n = NCASES[tier]
    for i in range(n):
        cs = K.harness_seed(seed, ID, i)
        rng = _random.Random(cs)
        profile = rng.choice(["discrete", "mixed", "continuous", "guarded", "nested", "multiassign", "linear"])
        prog, feats, meta = G.generate(cs, profile)
        # the simulator needs every variable that is read to be set: initialise everything
        assigned = set()
        from ..lang.ast import assigned_vars, num
        init_assigned = set(assigned_vars(prog.init))
        extra = []
        for v in program_variables(prog):
            if v not in init_assigned:
                extra.append(("assign", v, ("poly", num(rng.choice([0, 1, 2, -1])))))
        prog.init = extra + prog.init
        if rng.random() < 0.15:
            # TruncNormal is not in the shared generator (its moments are numeric); the simulator must still sample it right
            mu, lo = rng.choice([0, 2, 5, -3]), None
            s2 = rng.choice([1, 4, F(1, 4)])
            lo = mu - rng.choice([1, 2, F(1, 2)])
            hi = mu + rng.choice([1, 3, F(1, 2)])
            prog.body = prog.body + [("assign", "tn", ("draw", "TruncNormal", [num(mu), num(s2), num(lo), num(hi)]))]
            if meta["data"]:
                x = meta["data"][0]
                prog.body.append(("assign", x, ("poly", ("bin", "+", ("var", x), ("var", "tn")))))
            prog.init = [("assign", "tn", ("poly", num(0)))] + prog.init
            feats = feats + ["draw-TruncNormal"]
        cfg = {"transform_categoricals": True} if rng.random() < 0.3 else {}
        cases.append({"id": f"gen-{cs}", "kind": "program", "text": program_str(prog), "ast": prog.to_json(),
                      "N": 2 if tier == "quick" else 3, "max_paths": 150 if tier == "quick" else 1200, "settings": cfg,
                      "features": feats + (["transform_categoricals"] if cfg else [])})
    k = 0
    for fam, plist in SAMPLER_PARAMS.items():
        for ps in plist:
            cases.append({"id": f"sampler-{fam}-{'_'.join(ps)}", "kind": "sampler", "family": fam, "params": ps,
                          "samples": 200 if tier == "quick" else 2000, "features": ["sampler-" + fam]})
            k += 1
    return cases


def worker_init(tier):
    P.load()


# ------------------------------------------------------------------ scripted randomness
CONT_SCRIPT = [Fraction(1, 3), Fraction(-1, 4), Fraction(3, 5), Fraction(-7, 8), Fraction(1, 10), Fraction(5, 4)]
UNIT_SCRIPT = [Fraction(1, 3), Fraction(3, 4), Fraction(1, 8), Fraction(9, 10), Fraction(1, 2)]


class Tape:
    def __init__(self, prefix):
        self.prefix = list(prefix)
        self.calls = []
        self.ndisc = 0
        self.ncont = 0

    def discrete(self, source, values, probs):
        if len(values) == 1:
            # a deterministic assignment goes through random.choices([v], weights=[1]): not a random point
            self.calls.append({"kind": "det", "source": source, "values": list(values), "probs": list(probs), "chosen": 0})
            return 0
        i = self.prefix[self.ndisc] if self.ndisc < len(self.prefix) else None
        if i is None:
            i = next((j for j, p in enumerate(probs) if p > 0), 0)
        self.ndisc += 1
        self.calls.append({"kind": "discrete", "source": source, "values": list(values), "probs": list(probs), "chosen": i})
        return i

    def continuous(self, name, args, kwds):
        j = self.ncont
        self.ncont += 1
        z = float(CONT_SCRIPT[j % len(CONT_SCRIPT)])
        u = float(UNIT_SCRIPT[j % len(UNIT_SCRIPT)])
        loc = float(kwds.get("loc", 0.0))
        scale = float(kwds.get("scale", 1.0))
        if name == "norm" or name == "laplace":
            val = loc + scale * z
        elif name == "uniform":
            val = loc + scale * u
        elif name == "expon":
            val = loc + scale * (u + 0.25)
        elif name == "gamma":
            val = loc + scale * (u + 0.25) * float(args[0])
        elif name == "beta":
            val = loc + scale * u
        elif name == "truncnorm":
            a, b = float(args[0]), float(args[1])
            val = loc + scale * (a + (b - a) * u)
        else:
            val = loc + scale * u
        self.calls.append({"kind": "continuous", "family": name, "args": [float(a) for a in args],
                           "kwds": {k: float(v) for k, v in kwds.items() if k in ("loc", "scale")}, "value": val})
        return val


@contextmanager
def scripted(tape):
    import random
    from scipy.stats import _distn_infrastructure as DI
    o_choices, o_choice = random.choices, random.choice
    o_g, o_d = DI.rv_generic.rvs, DI.rv_discrete.rvs

    def choices(population, weights=None, *, cum_weights=None, k=1):
        pop = list(population)
        w = [1.0 / len(pop)] * len(pop) if weights is None else [float(x) for x in weights]
        out = []
        for _ in range(k):
            i = tape.discrete("random.choices", pop, w)
            out.append(pop[i])
        return out

    def choice(seq):
        pop = list(seq)
        i = tape.discrete("random.choice", pop, [1.0 / len(pop)] * len(pop))
        return pop[i]

    def rvs_d(self, *args, **kwds):
        name = getattr(self, "name", "?")
        if name == "bernoulli":
            p = float(args[0]) if args else float(kwds.get("p"))
            i = tape.discrete("bernoulli.rvs", [0, 1], [1.0 - p, p])
            return i
        raise RuntimeError(f"unscripted discrete sampler {name}")

    def rvs_g(self, *args, **kwds):
        name = getattr(self, "name", "?")
        if name == "bernoulli":
            return rvs_d(self, *args, **kwds)
        return tape.continuous(name, args, kwds)

    random.choices, random.choice = choices, choice
    DI.rv_generic.rvs, DI.rv_discrete.rvs = rvs_g, rvs_d
    try:
        yield
    finally:
        random.choices, random.choice = o_choices, o_choice
        DI.rv_generic.rvs, DI.rv_discrete.rvs = o_g, o_d


def close(a, b, tol=1e-9):
    a, b = float(a), float(b)
    return abs(a - b) <= tol * max(1.0, abs(a), abs(b))


class Mismatch(Exception):
    def __init__(self, kind, detail):
        super().__init__(detail)
        self.kind = kind
        self.detail = detail


def law_of_call(c):
    """translate a recorded scipy call into the language's canonical law (floats)"""
    n, a, kw = c["family"], c["args"], c["kwds"]
    loc, scale = kw.get("loc", 0.0), kw.get("scale", 1.0)
    if n == "norm":
        return ("Normal", loc, scale * scale)
    if n == "uniform":
        return ("Uniform", loc, loc + scale)
    if n == "expon":
        if loc != 0.0:
            return ("?expon-with-loc", loc, scale)
        return ("DistExp", 1.0 / scale)
    if n == "laplace":
        return ("Laplace", loc, scale)
    if n == "gamma":
        if loc != 0.0:
            return ("?gamma-with-loc", loc)
        return ("Gamma", a[0], scale)
    if n == "beta":
        return ("Beta01", a[0], a[1], loc, scale)
    if n == "truncnorm":
        return ("TruncNormal", loc, scale * scale, loc + a[0] * scale, loc + a[1] * scale)
    return ("?" + n,)


NSAMPLES = 2


def replay_runs(prog, calls, runs, cfg, N):
    """replay several consecutive samples of one simulate() call against the same tape"""
    calls = [c for c in calls if c["kind"] != "det"]
    pos = [0]
    total = 0
    for k, sim_states in enumerate(runs):
        last = k == len(runs) - 1
        n, _ = replay(prog, calls, sim_states, cfg, N, pos=pos, must_consume_all=last, label=f"sample {k + 1}: ")
        total += n
    return total


def replay(prog, calls, sim_states, cfg, N, pos=None, must_consume_all=True, label=""):
    """lock-step replay; raises Mismatch; returns number of comparisons"""
    calls = [c for c in calls if c["kind"] != "det"]
    pos = [0] if pos is None else pos
    ncmp = [0]
    beta_pending = []

    def chooser(kind, spec):
        if pos[0] >= len(calls):
            raise Mismatch("missing-random-call", f"the semantics demands a random point ({kind} {str(spec)[:80]}) but the simulator made no further random call")
        c = calls[pos[0]]
        pos[0] += 1
        if kind == "discrete":
            fam, alts = spec
            if c["kind"] != "discrete":
                raise Mismatch("wrong-random-call", f"semantics demands a discrete choice {fam} but the simulator called {c.get('family')}")
            probs = [float(p) for _, p in alts]
            if len(probs) != len(c["probs"]) or any(not close(x, y, 1e-12) for x, y in zip(probs, c["probs"])):
                raise Mismatch("wrong-probabilities", f"{fam}: semantics demands probabilities {[str(p) for _, p in alts]} but the simulator drew with weights {c['probs']}")
            ncmp[0] += len(probs)
            if any(p < 0 for p in c["probs"]) or not close(sum(c["probs"]), 1.0, 1e-12):
                raise Mismatch("invalid-weights", f"simulator drew with weights {c['probs']}")
            vals_are_real = not (fam == "choice" and cfg.get("transform_categoricals")) and c["source"] != "bernoulli.rvs"
            if vals_are_real:
                for (v, _), w in zip(alts, c["values"]):
                    if isinstance(v, AP) or not close(v, float(w)):
                        raise Mismatch("wrong-alternative-values", f"{fam}: semantics has alternatives {[str(v) for v, _ in alts]} but the simulator chose among {c['values']}")
            return c["chosen"]
        law = spec
        if c["kind"] != "continuous":
            raise Mismatch("wrong-random-call", f"semantics demands a draw from {law} but the simulator made a discrete choice {c['source']}")
        got = law_of_call(c)
        fam = law[0]
        want = tuple(float(x) for x in law[1:])
        ok = False
        if fam == "Beta":
            ok = got[0] == "Beta01" and close(got[1], want[0], 1e-12) and close(got[2], want[1], 1e-12) and got[3] == 0.0 and got[4] == 1.0
            val = Fraction(c["value"]) * law[3]  # the simulator multiplies the sample by the scale itself
        else:
            ok = got[0] == fam and len(got) - 1 == len(want) and all(close(x, y, 1e-12) for x, y in zip(got[1:], want))
            val = Fraction(c["value"])
        ncmp[0] += 1
        if not ok:
            raise Mismatch("wrong-sampler-law", f"semantics demands {fam}{tuple(str(x) for x in law[1:])} but the simulator sampled {c['family']}(args={c['args']}, {c['kwds']}) = {got}")
        return val

    interp = PathInterp(prog, {}, chooser)
    ref_states = [interp.run_init()]
    for _ in range(N):
        ref_states.append(interp.step())
    if must_consume_all and pos[0] != len(calls):
        raise Mismatch("extra-random-call", f"the simulator made {len(calls)} random calls but the semantics only demands {pos[0]}; first extra: {calls[pos[0]]}")
    for n, (rs, ss) in enumerate(zip(ref_states, sim_states)):
        for v, x in rs.items():
            if v not in ss:
                raise Mismatch("variable-missing-in-simulation", f"after iteration {n} the simulator state lacks {v}")
            ncmp[0] += 1
            if isinstance(x, AP) or not close(x, ss[v]):
                raise Mismatch("state-differs", f"{label}after iteration {n}: {v} = {ss[v]} in the simulation but {x} under the reference semantics (same random outcomes)")
    return ncmp[0], ref_states


def run_program_case(case, tier):
    prog = Program.from_json(case["ast"])
    N = case["N"]
    cfg = case.get("settings", {})
    res = {"fingerprint": K.fingerprint(case["text"], cfg), "features": case.get("features", []), "events": {},
           "violations": [], "comparisons": 0, "refusals": [], "extra": {}}
    P.set_settings(**cfg)
    try:
        try:
            program = P.parse_string(case["text"])
        except Exception as e:
            res.update(verdict="inconclusive", reason="refused", refusal=P.refusal_key(e))
            return res
        from simulation import Simulator
        prefix = []
        paths = 0
        complete = True
        total_prob = 0.0
        law = {}
        any_cont = False
        ncalls = 0
        while True:
            tape = Tape(prefix)
            try:
                with scripted(tape):
                    result = Simulator(N).simulate(program, [], NSAMPLES)
                res["events"]["Simulator.simulate"] = res["events"].get("Simulator.simulate", 0) + 1
            except Exception as e:
                res["refusals"].append(P.refusal_key(e))
                break
            # several samples in ONE simulate() call: the tape continues across samples; each sample is one run of the program
            runs = [[{str(k): float(v) for k, v in st.items()} for st in run] for run in result.samples]
            sim_states = runs[0]
            paths += 1
            ncalls += len(tape.calls)
            try:
                ncmp = replay_runs(prog, tape.calls, runs, cfg, N)
                res["comparisons"] += ncmp
            except Mismatch as m:
                res["violations"].append({"kind": m.kind, "key": None, "detail": m.detail + f" [path prefix {prefix}]"})
                break
            except (Unsupported, DomainError) as e:
                res.update(verdict="inconclusive", reason="oracle-" + type(e).__name__, detail=str(e)[:100])
                return res
            disc = [c for c in tape.calls if c["kind"] == "discrete"]
            if any(c["kind"] == "continuous" for c in tape.calls):
                any_cont = True
            pr = 1.0
            for c in disc:
                pr *= c["probs"][c["chosen"]]
            total_prob += pr
            # joint outcome of all samples of this simulate() call (the samples are independent runs)
            key = tuple(tuple(sorted((k, float(f"{v:.13g}")) for k, v in r[-1].items())) for r in runs)
            law[key] = law.get(key, 0.0) + pr
            # next path (depth-first over the discrete choices, skipping zero-probability alternatives)
            chosen = [c["chosen"] for c in disc]
            nxt = None
            for i in range(len(disc) - 1, -1, -1):
                alts = [j for j in range(chosen[i] + 1, len(disc[i]["probs"])) if disc[i]["probs"][j] > 0]
                if alts:
                    nxt = chosen[:i] + [alts[0]]
                    break
            if nxt is None:
                break
            if paths >= case["max_paths"]:
                complete = False
                break
            prefix = nxt
        res["extra"]["paths"] = paths
        res["extra"]["random_calls"] = ncalls
        if paths == 0:
            res.update(verdict="inconclusive", reason="refused")
            return res
        if complete and not res["violations"] and not res["refusals"]:
            res["extra"]["complete_enumerations"] = 1
            res["comparisons"] += 1
            if not close(total_prob, 1.0, 1e-9):
                res["violations"].append({"kind": "path-probabilities-do-not-sum-to-1", "key": None,
                                          "detail": f"the weights the simulator itself used give total probability {total_prob} over all {paths} paths"})
            elif not any_cont:
                # induced law at iteration N against the exact law of the reference engine
                try:
                    eng = Engine(prog, {}, {}, max_states=50000)
                    dist = eng.run(N)[-1]
                    names = eng.vars
                    ref_states = [([float(x) for x in st], float(p)) for st, p in dist.items()]
                    # the simulator works with floats: states are matched to the exact reference states with a tolerance
                    # (exact rounding of float keys is fragile), probabilities are accumulated per matched reference state
                    acc = [0.0] * len(ref_states)
                    unmatched = None
                    for key, p in law.items():
                        last = dict(key[-1])           # the LAST sample of the call
                        vec = [last.get(v) for v in names]
                        hit, best = None, None
                        for j, (rv, _) in enumerate(ref_states):
                            if any(a is None for a in vec):
                                break
                            dist_ = max(abs(a - b) / max(1.0, abs(a), abs(b)) for a, b in zip(vec, rv))
                            if best is None or dist_ < best:
                                hit, best = j, dist_
                        if best is None or best > 1e-9:   # nearest exact state; doubles are good to ~1e-15 relative, keys keep 13 digits
                            hit = None
                        if hit is None:
                            if p > 1e-12:
                                unmatched = (vec, p)
                        else:
                            acc[hit] += p
                    res["comparisons"] += len(ref_states)
                    if unmatched is not None:
                        res["violations"].append({"kind": "induced-law-differs", "key": None,
                                                  "detail": f"state {dict(zip(names, unmatched[0]))} after {N} iterations has simulated probability {unmatched[1]} but is not reachable under the reference semantics"})
                    else:
                        for (rv, rp), sp in zip(ref_states, acc):
                            if not close(rp, sp, 1e-9):
                                res["violations"].append({"kind": "induced-law-differs", "key": None,
                                                          "detail": f"state {dict(zip(names, rv))} after {N} iterations: simulated probability {sp} vs exact {rp}"})
                                break
                except (Unsupported, CapExceeded, DomainError):
                    pass
        res["nontrivial"] = paths >= 2 or ncalls >= 1
        res["verdict"] = "violated" if res["violations"] else "held"
        res["sample"] = {"program": case["text"], "settings": cfg, "paths": paths, "random_calls": ncalls, "complete": complete, "iterations": N}
        return res
    finally:
        P.reset_settings()


def _to_float(x):
    t = str(x)
    if t in ("oo", "+oo", "inf"):
        return math.inf
    if t in ("-oo", "-inf"):
        return -math.inf
    return float(x)


def run_sampler_case(case, tier):
    import numpy as np
    import random
    res = {"fingerprint": case["id"], "features": case.get("features", []), "events": {}, "violations": [], "comparisons": 0,
           "refusals": [], "extra": {}}
    from program.distribution import distribution_factory
    fam, ps = case["family"], case["params"]
    try:
        dist = distribution_factory(fam, ps)
    except Exception as e:
        res.update(verdict="inconclusive", reason="refused", refusal=P.refusal_key(e))
        return res
    law = (fam,) + tuple(Fraction(p) for p in ps)
    if fam == "Beta" and len(ps) == 2:
        law = law + (Fraction(1),)
    sup = laws.support(law)
    declared = dist.get_support()
    bad = None
    n = case["samples"]
    for k in range(n):
        np.random.seed(1000 + k)
        random.seed(1000 + k)
        try:
            x = float(dist.sample({}))
        except Exception as e:
            res["refusals"].append(P.refusal_key(e))
            break
        res["events"][type(dist).__name__ + ".sample"] = res["events"].get(type(dist).__name__ + ".sample", 0) + 1
        res["comparisons"] += 1
        if isinstance(sup, list):
            ok = any(close(x, v, 1e-12) for v in sup)
        else:
            lo, hi = sup
            ok = (lo is None or x >= float(lo) - 1e-12) and (hi is None or x <= float(hi) + 1e-12)
        # declared support of Polar itself
        ok_decl = False
        for el in declared:
            if isinstance(el, tuple):
                lo_d, hi_d = _to_float(el[0]), _to_float(el[1])
                if lo_d - 1e-12 <= x <= hi_d + 1e-12:
                    ok_decl = True
            elif close(x, _to_float(el), 1e-12):
                ok_decl = True
        if not ok or not ok_decl:
            bad = (k, x, ok, ok_decl)
            break
    if bad:
        k, x, ok, ok_decl = bad
        res["violations"].append({"kind": "sample-outside-support", "key": "sampler-outside-support:" + fam,
                                  "detail": f"{fam}({', '.join(ps)}).sample() returned {x} (seed {1000 + k}); true support {sup}, declared support {declared}; in_true={ok} in_declared={ok_decl}"})
    if res["comparisons"] == 0:
        res.update(verdict="inconclusive", reason="refused")
        return res
    res["nontrivial"] = True
    res["verdict"] = "violated" if res["violations"] else "held"
    res["sample"] = {"family": fam, "params": ps, "samples_checked": res["comparisons"]}
    return res


def run_case(case, tier):
    if case["kind"] == "sampler":
        return run_sampler_case(case, tier)
    return run_program_case(case, tier)
