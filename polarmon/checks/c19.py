"""C19 — texts that denote the same loop yield the same analysis; ill-formed text is rejected.

Monitor: Parser().parse_string(text) followed by the C01 analysis path.
Positive side: one AST printed in several spellings (whitespace/tabs/blank lines/comments/CRLF, redundant vs
minimal Python-precedence parentheses, decimals vs fractions, explicit vs implicit last probability,
simultaneous assignment vs temporaries, elif vs nested else-if) and alpha-renamings to hostile identifiers;
all spellings must give closed forms that agree with each other (and the oracle evaluates the AST, never
the text).  Negative side: targeted edits that leave the grammar, and invalid constant probability
vectors: parse_string (or normalization) must raise."""
import random
import re
from fractions import Fraction

from .. import polar_api as P
from ..gen import programs as G
from ..lang.ast import Program, program_variables, fold_program, walk_stmts, all_names
from ..lang.parser import parse_program, ParseError, parse_expr
from ..lang.printer import program_str
from ..ref.engine import Engine, Unsupported, CapExceeded, DomainError
from ..ref import laws
from . import common as K
from .c01 import compare_closed_form

ID = "C19"
RULE = ("positive cases = generated ASTs (plus precedence probes such as -c**2, a-b-c, a/b*c, 2**3**2) each printed in 5 spellings "
        "and, for a third of them, alpha-renamed to a hostile identifier; non-trivial = >= 3 spellings were analysed by Polar and "
        "compared pairwise through the oracle values at n=0..N; negative cases = one targeted ill-forming edit or invalid "
        "probability vector per case, non-trivial always; distinct = (canonical text, spellings / edit) fingerprint")
ASSUMPTIONS = [
    "the oracle's own parser implements Python operator precedence (self-tested against Python's eval on random expressions) and "
    "reads every spelling back to the same AST before Polar is blamed",
    "ill-formedness of each negative edit is judged against inputparser/syntax.lark by construction of the edit; an edit the oracle's own parser accepts is skipped",
]
TIMEOUT = {"quick": 30, "thorough": 150}
DEADLINE = {"quick": 85, "thorough": 1000}
MIN_DECIDING = {"quick": 60, "thorough": 500}
NPOS = {"quick": 26, "thorough": 800}
NNEG = {"quick": 260, "thorough": 6000}

STYLES = [
    {"parens": "full"},
    {"decimals": True, "explicit_last_prob": True},
    {"indent": "\t", "comments": True, "blank_lines": True},
    {"crlf": True, "spaces": False, "simult_as_temps": True},
    {"elif_as_nested": True, "parens": "full", "decimals": True, "comments": True},
    {"spaces": False, "explicit_last_prob": True, "indent": "  "},
]
HOSTILE = ["n", "t", "k", "pi", "e", "i", "oo", "inf", "nan", "zoo", "x0", "_u0", "_t0", "old", "sin", "exp", "r", "a_1"]
PROBES = ["-c**2 + x", "x + -2**2", "-2**2 + x", "-c**2*3 + x", "x + -c**2", "x + 8/4*2", "x - 5 - 1 - 1", "x + 2**3**2 - 500", "x - c**2", "x + -c", "x - -c*2", "x + 2*-3", "x + (c - 1)*(c + 1)",
          "x + 6/3/2", "x + 2**-1", "x - (2 - c)", "x + 1/2*c", "x + 0.5*c - .25", "x + 1e1*c"]


def rename_program(prog, old, new):
    import json
    def ren(x):
        if isinstance(x, tuple):
            if len(x) == 2 and x[0] == "var" and x[1] == old:
                return ("var", new)
            if x and x[0] == "assign" and x[1] == old:
                return ("assign", new) + tuple(ren(y) for y in x[2:])
            if x and x[0] == "simult":
                return ("simult", [new if v == old else v for v in x[1]], [ren(r) for r in x[2]])
            return tuple(ren(y) for y in x)
        if isinstance(x, list):
            return [ren(y) for y in x]
        return x
    return Program([(new if v == old else v, t, ren(a)) for v, t, a in prog.typedefs], ren(prog.init), ren(prog.guard), ren(prog.body))


def float_in_probability_expression(text, detail):
    """the known float finding seen through a choice probability: the deviating spelling has a probability block {...} (or a draw
    parameter) in which a decimal literal stands next to an arithmetic operator - Polar evaluates such an expression in floating point
    before converting it to a rational - AND the deviation is of rounding size (1e-12 relative)"""
    from fractions import Fraction
    if not re.search(r"\{[^{}\n]*\d\.\d+[^{}\n]*[-+*/][^{}\n]*\}|\{[^{}\n]*[-+*/][^{}\n]*\d\.\d+[^{}\n]*\}", text):
        return False
    m = re.search(r"polar=([-0-9/.e]+) reference=([-0-9/.e]+)", detail or "")
    if not m:
        return False
    try:
        a, b = Fraction(m.group(1)), Fraction(m.group(2))
    except (ValueError, ZeroDivisionError):
        return False
    return abs(a - b) <= Fraction(1, 10 ** 12) * max(1, abs(b))


def compound_numeric_probabilities(prog, rng):
    """numeric probabilities of choices (all but the last) rewritten as a sum / difference / product of two rationals with the
    same value ({1/4} -> {1/2 - 1/4}); the AST keeps the expression, so every spelling prints it"""
    from fractions import Fraction
    from ..lang.ast import binop, num
    count = [0]

    def rew(x):
        if isinstance(x, tuple):
            if len(x) == 3 and x[0] == "assign" and isinstance(x[2], tuple) and x[2] and x[2][0] == "choice":
                alts = list(x[2][1])
                new = []
                for j, (e, p) in enumerate(alts):
                    if j < len(alts) - 1 and isinstance(p, tuple) and p[0] == "num" and 0 < p[1] < 1 and rng.random() < 0.7:
                        d = rng.choice([Fraction(1, 4), Fraction(1, 8), Fraction(1, 3), Fraction(1, 10)])
                        form = rng.choice(["-", "+", "*"])
                        if form == "-":
                            p = binop("-", num(p[1] + d), num(d))
                        elif form == "+" and p[1] > d:
                            p = binop("+", num(p[1] - d), num(d))
                        else:
                            p = binop("*", num(2), num(p[1] / 2))
                        count[0] += 1
                    new.append((e, p))
                return ("assign", x[1], ("choice", new))
            return tuple(rew(y) for y in x)
        if isinstance(x, list):
            return [rew(y) for y in x]
        return x
    return Program(prog.typedefs, rew(prog.init), prog.guard, rew(prog.body)), count[0]


def generate(seed, tier):
    cases = []
    for i in range(NPOS[tier]):
        cs = K.harness_seed(seed, ID, i)
        rng = random.Random(cs)
        prog, feats, meta = G.generate(cs, rng.choice(["discrete", "mixed", "nested", "linear", "multiassign", "guarded", "symbolic", "delay"]))
        # precedence probe on the first data variable (uses a finite variable c if there is one)
        if meta["data"]:
            x = meta["data"][0]
            probe = rng.choice(PROBES)
            cvar = next(iter(meta["fin"]), None)
            if cvar is None:
                probe = probe.replace("c", "2")
            else:
                probe = re.sub(r"\bc\b", cvar, probe)
            probe = re.sub(r"\bx\b", x, probe)
            prog.body.append(("assign", x, ("poly", parse_expr(probe))))
            feats = feats + ["precedence-probe"]
        if rng.random() < 0.5:
            prog, nrew = compound_numeric_probabilities(prog, rng)
            if nrew:
                feats = feats + ["probability-written-as-sum-or-difference"]
        params, inits = G.instantiate_params(rng, meta, prog)
        pv = program_variables(prog)
        goals = G.goal_monomials(rng, pv, max_deg=2, count=2, prefer=meta["data"] or None)
        styles = [{}] + rng.sample(STYLES, 3 if tier == "quick" else 4)
        if "probability-written-as-sum-or-difference" in feats and not any(st.get("explicit_last_prob") for st in styles):
            styles[-1] = dict(styles[-1], explicit_last_prob=True)   # omitted vs explicit last probability next to such a probability
        rename = None
        if i % 3 == 0:
            cand = [v for v in pv]
            old = rng.choice(cand)
            new = rng.choice([h for h in HOSTILE if h not in all_names(prog) and h + "0" not in all_names(prog)])
            rename = [old, new]
            feats = feats + ["hostile-identifier:" + new]
        cont = bool(meta["draws"])
        cases.append({"id": f"pos-{cs}", "kind": "positive", "ast": prog.to_json(), "params": K.frac_enc(params), "inits": K.frac_enc(inits),
                      "goals": goals, "N": 3 if cont else 5, "styles": styles, "style_seed": cs % 1000, "rename": rename,
                      "features": feats, "text": program_str(prog), "timeout": TIMEOUT[tier] * 2})
    # designed: comparisons of a finitely valued variable with a NON-INTEGER value it can take, all comparison operators, spelled once
    # as a fraction and once as a decimal (x == 1/2 vs x == 0.5): the decimal spelling must select the same value
    from ..lang.parser import parse_program
    for j in range(3 if tier == "quick" else 40):
        cs = K.harness_seed(seed, ID + "-decimal-cond", j)
        rng = random.Random(cs)
        vals = rng.choice([["1/2", "2", "3/2"], ["1/4", "1", "3/4"], ["-1/2", "1/2", "5/2"], ["1/5", "1/2"]])
        pr = f"1/{len(vals)}"
        ch = " ".join(f"{v} {{{pr}}}" for v in vals[:-1]) + f" {vals[-1]}"
        a, b = rng.sample(vals, 2)
        cop1, cop2 = rng.choice(["==", "<=", ">="]), rng.choice(["<=", ">=", "==", "<", ">"])
        guard = rng.choice(["true", "true", f"x >= {min(vals, key=lambda t: eval(t))}"])
        text = (f"x = {vals[0]}\ny = 0\nz = 0\nwhile {guard}:\n    x = {ch}\n    if x {cop1} {a}:\n        y = y + 1\n    end\n"
                f"    if x {cop2} {b} && x {cop1} {a}:\n        z = z + 2\n    elif x == {b}:\n        z = z - 1\n    end\nend\n")
        from ..lang.ast import fold_program
        prog = fold_program(parse_program(text))   # 1/2 as one rational literal, so that the decimal style can spell it 0.5
        cases.append({"id": f"pos-deccond-{cs}", "kind": "positive", "ast": prog.to_json(), "params": K.frac_enc({}), "inits": K.frac_enc({}),
                      "goals": [{"y": 1}, {"z": 1}, {"x": 1, "z": 1}], "N": 4, "styles": [{}, {"decimals": True}, {"decimals": True, "parens": "full", "spaces": False}],
                      "style_seed": cs % 1000, "rename": None, "features": ["designed:decimal-literal-equal-to-a-finite-value-in-condition"],
                      "text": program_str(prog), "timeout": TIMEOUT[tier] * 2})
    from ..gen import text_mutations as TM
    for j in range(NNEG[tier]):
        cs = K.harness_seed(seed, ID + "-neg", j)
        rng = random.Random(cs)
        prog, feats, meta = G.generate(cs, rng.choice(["discrete", "nested", "mixed", "guarded"]))
        text = program_str(prog)
        mut = TM.mutate(rng, text, prog)
        if mut is None:
            continue
        kind, bad_text, descr = mut
        cases.append({"id": f"neg-{cs}", "kind": "negative", "edit": kind, "text": bad_text, "descr": descr,
                      "features": ["neg:" + kind]})
    # interleave cheap negative cases with the expensive positive ones so that a deadline cuts both evenly
    pos = [c for c in cases if c["kind"] == "positive"]
    neg = [c for c in cases if c["kind"] == "negative"]
    out = []
    ratio = max(1, len(neg) // max(1, len(pos)))
    while pos or neg:
        if pos:
            out.append(pos.pop(0))
        for _ in range(ratio):
            if neg:
                out.append(neg.pop(0))
    return out


def worker_init(tier):
    P.load()
    # self-test of the oracle's precedence handling against Python's own parser
    rng = random.Random(7)
    from ..lang.ast import fold
    for _ in range(300):
        toks = []
        depth = 0
        for k in range(rng.randint(2, 6)):
            if k:
                toks.append(rng.choice(["+", "-", "*", "/", "**", "-", "+"]))
            if rng.random() < 0.3:
                toks.append("-")
            if rng.random() < 0.25:
                toks.append("(")
                depth += 1
            toks.append(str(rng.choice([1, 2, 3, 4])))
            if depth and rng.random() < 0.5:
                toks.append(")")
                depth -= 1
        toks += [")"] * depth
        s = " ".join(toks)
        try:
            py = eval(re.sub(r"(\d+)", r"Fraction(\1)", s), {"Fraction": Fraction})
        except Exception:
            continue
        if not isinstance(py, Fraction):
            continue
        mine = fold(parse_expr(s))
        if mine[0] != "num":
            continue  # huge power left unfolded by the oracle's folder
        if mine[1] != py:
            raise RuntimeError(f"oracle parser disagrees with Python on {s!r}: {mine} vs {py}")


def run_case(case, tier):
    if case["kind"] == "negative":
        return run_negative(case, tier)
    return run_positive(case, tier)


def run_negative(case, tier):
    res = {"fingerprint": K.fingerprint(case["text"]), "features": case["features"], "events": {}, "violations": [],
           "comparisons": 1, "refusals": [], "nontrivial": True}
    text = case["text"]
    if case["edit"].startswith("prob-"):
        own_ok = True
    else:
        try:
            parse_program(text)
            own_ok = True
        except ParseError:
            own_ok = False
        if own_ok:
            res.update(verdict="inconclusive", reason="edit-accepted-by-oracle-parser")
            return res
    P.reset_settings()
    try:
        program = P.parse_string(text)
        res["events"]["Parser.parse_string"] = 1
    except Exception as e:
        res["events"]["Parser.parse_string"] = 1
        res["refusals"].append(P.refusal_key(e))
        res["verdict"] = "held"
        res["sample"] = {"edit": case["edit"], "descr": case["descr"], "rejected_by": P.refusal_key(e)}
        return res
    if case["edit"].startswith("prob-"):
        try:
            P.normalize(program)
        except Exception as e:
            res["refusals"].append(P.refusal_key(e))
            res["verdict"] = "held"
            res["sample"] = {"edit": case["edit"], "descr": case["descr"], "rejected_by": P.refusal_key(e)}
            return res
        finally:
            P.reset_settings()
        res["violations"].append({"kind": "invalid-probabilities-accepted", "key": None, "edit": case["edit"],
                                  "detail": f"{case['descr']} was parsed and normalized without error:\n{text[:600]}"})
    else:
        res["violations"].append({"kind": "ill-formed-text-accepted", "key": None, "edit": case["edit"],
                                  "detail": f"edit '{case['edit']}' ({case['descr']}) was accepted by parse_string:\n{text[:600]}"})
    res["verdict"] = "violated"
    return res


def run_positive(case, tier):
    prog = Program.from_json(case["ast"])
    params = K.frac_dec(case["params"])
    inits = K.frac_dec(case["inits"])
    goals = case["goals"]
    N = case["N"]
    res = {"fingerprint": K.fingerprint(case["text"], case["styles"], case["rename"], goals), "features": case["features"], "events": {},
           "violations": [], "comparisons": 0, "refusals": [], "extra": {}}
    try:
        table = K.oracle_moments(prog, params, inits, goals, N)
    except K.OracleSkip as e:
        res.update(verdict="inconclusive", reason=e.reason.split(":")[0], detail=e.reason)
        return res
    variants = []
    for k, st in enumerate(case["styles"]):
        variants.append(("style:" + ",".join(f"{a}={b}" for a, b in sorted(st.items())) if st else "canonical", prog, st, None))
    if case["rename"]:
        old, new = case["rename"]
        variants.append((f"rename:{old}->{new}", rename_program(prog, old, new), {}, (old, new)))
    outcomes = []
    for name, p2, st, ren in variants:
        text = program_str(p2, st, rng_seed=case["style_seed"])
        # self-check of the printer: the oracle's own parser must read the spelling back to an equivalent program
        try:
            back = parse_program(text)
            chk_goals = goals if ren is None else [{(ren[1] if v == ren[0] else v): k for v, k in g.items()} for g in goals]
            chk_inits = inits if ren is None else {(ren[1] if v == ren[0] else v): x for v, x in inits.items()}
            t2 = K.oracle_moments(back, params, chk_inits, chk_goals, min(N, 3))
            if any(not P.values_equal(a, b, rel_tol=None if isinstance(a, Fraction) and isinstance(b, Fraction) else 1e-30)
                   for r1, r2 in zip(t2, table) for a, b in zip(r1, r2)):
                raise RuntimeError("printer self-check failed for " + name)
        except (ParseError, K.OracleSkip) as e:
            raise RuntimeError(f"printer self-check failed for {name}: {e}")
        P.reset_settings()
        values = K.symbol_values(params, inits)
        if ren:
            values = {(ren[1] + "0" if k == ren[0] + "0" else k): v for k, v in values.items()}
        try:
            program, rb = P.prepare(text)
            res["events"]["Parser.parse_string"] = res["events"].get("Parser.parse_string", 0) + 1
        except Exception as e:
            outcomes.append((name, text, "refused", P.refusal_key(e)))
            res["refusals"].append(P.refusal_key(e))
            continue
        av = K.abstraction_values(program, p2, params)
        if av is None:
            outcomes.append((name, text, "refused", "abstraction-outside-oracle"))
            continue
        values.update(av)
        per_goal = []
        for g, ref in zip(goals, table):
            g2 = g if ren is None else {(ren[1] if v == ren[0] else v): k for v, k in g.items()}
            try:
                cf, is_exact, recs = P.closed_form(program, rb, g2)
            except Exception as e:
                per_goal.append(("refused", P.refusal_key(e)))
                continue
            bad = compare_closed_form(cf, is_exact, ref, values, N, res, g2)
            per_goal.append(("ok", None) if not bad else ("wrong", bad[0]["detail"]))
        outcomes.append((name, text, "analysed", per_goal))
    analysed = [o for o in outcomes if o[2] == "analysed"]
    if len(analysed) == 0:
        res.update(verdict="inconclusive", reason="refused")
        return res
    # pairwise agreement through the oracle values: a spelling is 'ok' iff it equals the oracle at every n,
    # so two spellings disagree iff their ok/wrong pattern differs for some goal
    for gi, g in enumerate(goals):
        pats = {}
        for name, text, _, per_goal in analysed:
            pats.setdefault(per_goal[gi][0], []).append((name, text, per_goal[gi][1]))
        if "ok" in pats and "wrong" in pats:
            name, text, detail = pats["wrong"][0]
            kind = "hostile-identifier-changes-result" if name.startswith("rename:") else "spelling-changes-result"
            key = None
            if name.startswith("rename:"):
                new = name.split("->")[1]
                if new in ("pi", "e", "oo", "inf", "nan", "zoo"):
                    key = "identifier-read-as-CAS-constant"
            if key is None and float_in_probability_expression(text, detail):
                key = "float-literal-inside-distribution-parameter-expression-kept-as-double"
            res["violations"].append({"kind": kind, "key": key, "variant": name, "goal": P.monom_str(g),
                                      "detail": f"goal E({P.monom_str(g)}): spelling '{pats['ok'][0][0]}' is analysed correctly but '{name}' gives {detail}\n--- text of the deviating spelling:\n{text[:700]}"})
    # a spelling that is refused with an error while another one is analysed is not a C19 violation (the property
    # speaks of the closed forms that are yielded; refusals are C18's subject) - it is counted for the record
    refused = [o for o in outcomes if o[2] == "refused"]
    if refused and analysed:
        res["extra"]["spelling-refused-while-other-analysed"] = len(refused)
    res["extra"]["spellings_analysed"] = len(analysed)
    res["nontrivial"] = len(analysed) >= 3
    res["verdict"] = "violated" if res["violations"] else "held"
    res["sample"] = {"canonical": case["text"], "spellings": [o[0] for o in outcomes], "goals": [P.monom_str(g) for g in goals],
                     "one_spelling": analysed[-1][1][:400]}
    return res
