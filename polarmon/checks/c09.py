"""C09 — moments after termination equal the expectation at loop exit.

Monitors: cli.common.get_moment_given_termination (the conditional sequence) and the values returned by
GoalsAction.handle_moment_goal / handle_central_moment_goal / handle_cumulant_goal with --after_loop.
Oracle: exact joint law from the reference engine; "stopped by n" = the source guard is false in the state
after n iterations (on the current values);  c(n) = E[M 1{stopped}] / P(stopped).  Limit: the exact c(n)
computed to n = K and 2K must have converged numerically before Polar's limit is compared with it."""
import random
from fractions import Fraction

from .. import polar_api as P
from ..gen import programs as G
from ..lang.ast import Program, program_variables, cond_vars, assigned_vars
from ..lang.printer import program_str
from ..ref.engine import Engine, Unsupported, CapExceeded, DomainError, AP
from ..ref import laws
from . import common as K
from .. import diagnose

ID = "C09"
RULE = ("cases = generated guarded loops (guards ==, inequalities, compound; guard variables re-drawn or reassigned in the body; "
        "terminating a.s. or with positive probability) x goal kinds {E, c2, k2, k3}; non-trivial = the conditional sequence was "
        "compared at >= 2 n with P(stopped by n) > 0 or a limit was compared after the reference sequence converged; "
        "distinct = (program text, goals, values) fingerprint")
ASSUMPTIONS = [
    "'stopped by n' is the event that the source guard is false in the state after n iterations",
    "limits: only compared when the exact reference sequence has numerically converged (|c(2K)-c(K)| < 1e-12 scale); otherwise inconclusive",
    "reference engine and laws as in C01",
]
UNINIT_COUNTERFACTUAL = True   # worker: unattributed violations are re-run with explicit initial assignments (diagnose.attribute_uninit)
TIMEOUT = {"quick": 20, "thorough": 150}
DEADLINE = {"quick": 85, "thorough": 1000}
MIN_DECIDING = {"quick": 15, "thorough": 200}
NCASES = {"quick": 110, "thorough": 2000}


def designed_cases(seed, tier):
    """geometric loops with a state-independent continuation probability 1-q and growth factor a: the exit moments of x diverge
    iff a**k * (1-q) >= 1; both sides of the boundary are generated"""
    from ..lang.parser import parse_program
    out = []
    n = 10 if tier == "quick" else 120
    for j in range(n):
        cs = K.harness_seed(seed, ID + "-geo", j)
        r = random.Random(cs)
        q = r.choice([Fraction(1, 2), Fraction(1, 3), Fraction(3, 4), Fraction(1, 4)])
        a = r.choice([1, 2, 2, 3, Fraction(3, 2), Fraction(1, 2)])
        c = r.choice([0, 1, 1])
        text = (f"stop = 0\nx = 1\nsteps = 0\nwhile stop == 0:\n    stop = Bernoulli({q})\n    x = {a}*x + {c}\n    steps = steps + 1\nend\n")
        prog = parse_program(text)
        pv = program_variables(prog)
        inits = {v: Fraction(r.randint(1, 9), 7) for v in pv}
        goals = [{"x": 1}, {r.choice(["x", "steps"]): 1}]
        kinds = [r.choice(["E", "c2", "k2"]), r.choice(["c2", "k2", "k3", "E"])]
        out.append({"id": f"geo-{cs}", "text": text, "ast": prog.to_json(), "params": {}, "inits": K.frac_enc(inits), "goals": goals, "kinds": kinds,
                    "N": 6, "K": 30 if tier == "quick" else 50, "features": ["designed:geometric-exit", f"growth*continue={'>=1' if a * (1 - q) >= 1 else '<1'}"]})
    # compound guards over two or three DIFFERENT finite variables, each redrawn in the body (so each needs its own saved old value):
    # c == 0 || d == 0, c == 0 && d == 1, (c == 0 || d == 0) && e == 1, with an init-only variable in some of them
    n2 = 5 if tier == "quick" else 60
    for j in range(n2):
        cs = K.harness_seed(seed, ID + "-guard2", j)
        r = random.Random(cs)
        p1, p2, p3 = (r.choice(["1/2", "1/3", "2/3", "1/4"]) for _ in range(3))
        shape = r.choice(["or", "or", "and", "or-and", "or-init"])
        guard = {"or": "c == 0 || d == 0", "and": "c == 0 && d == 0", "or-and": "(c == 0 || d == 0) && f == 0",
                 "or-init": "(c == 0 || d == 0) && g == 1"}[shape]
        order = r.sample(["c = Bernoulli(%s)" % p1, "d = Bernoulli(%s)" % p2, "x = x + 1"], 3)
        extra = (["f = Bernoulli(%s)" % p3] if shape == "or-and" else [])
        init = "c = 0\nd = 0\nx = 0\ny = 0" + ("\nf = 0" if shape == "or-and" else "") + ("\ng = Bernoulli(%s)" % p3 if shape == "or-init" else "")
        upd_y = r.choice(["y = y + c", "y = y + d + 1", "y = 2*y + 1 {1/2} y"])
        text = f"{init}\nwhile {guard}:\n" + "".join(f"    {l}\n" for l in order + extra + [upd_y]) + "end\n"
        prog = parse_program(text)
        goals = [{"x": 1}, {r.choice(["x", "y"]): r.choice([1, 2])}, {"x": 1, "c": 1}]
        out.append({"id": f"guard2-{cs}", "text": text, "ast": prog.to_json(), "params": {}, "inits": K.frac_enc({}), "goals": goals, "kinds": ["E", "E", "E"],
                    "N": 6, "K": 40 if tier == "quick" else 60, "features": ["designed:guard-over-several-redrawn-variables", "guard-shape:" + shape]})
    return out


def generate(seed, tier):
    cases = designed_cases(seed, tier)
    for i in range(NCASES[tier]):
        cs = K.harness_seed(seed, ID, i)
        rng = random.Random(cs)
        prog, feats, meta = G.generate(cs, rng.choice(["guarded", "guarded", "guarded", "discrete", "counter", "counter"]))
        if prog.guard == ("true",):
            g = G.Gen(random.Random(cs + 1), "guarded")
            g.fin = {k: set(v) for k, v in meta["fin"].items()}
            if not g.fin:
                continue
            prog.guard = g.make_guard()
        params, inits = G.instantiate_params(rng, meta, prog)
        pv = program_variables(prog)
        goals = G.goal_monomials(rng, pv, max_deg=2, count=2, prefer=meta["data"] or None)
        kinds = [rng.choice(["E", "E", "E", "c2", "k2", "k3", "tl"]) for _ in goals]
        cases.append({"id": f"gen-{cs}", "text": program_str(prog), "ast": prog.to_json(), "params": K.frac_enc(params),
                      "inits": K.frac_enc(inits), "goals": goals, "kinds": kinds, "N": 6 if tier == "quick" else 8,
                      "K": 30 if tier == "quick" else 50, "features": feats})
    # guard shapes that the profile lottery produces rarely: a fixed number per run
    want = 5 if tier == "quick" else 50
    WANT = ("guard-two-variables-or", "guard-mixes-reassigned-and-initial-only-variable", "body-starts-with-conjunctive-if")
    have = {f: sum(1 for c in cases if f in c["features"]) for f in WANT}
    j = 0
    while min(have.values()) < want and j < 6000:
        cs = K.harness_seed(seed, ID + "-guardshape", j)
        j += 1
        prog, feats, meta = G.generate(cs, "guarded")
        hit = [f for f in WANT if f in feats and have[f] < want]
        if not hit or prog.guard == ("true",):
            continue
        for f in hit:
            have[f] += 1
        rng = random.Random(cs)
        params, inits = G.instantiate_params(rng, meta, prog)
        goals = G.goal_monomials(rng, program_variables(prog), max_deg=2, count=2, prefer=meta["data"] or None)
        cases.insert(2 * sum(have.values()), {"id": f"gen-{cs}", "text": program_str(prog), "ast": prog.to_json(), "params": K.frac_enc(params),
                                              "inits": K.frac_enc(inits), "goals": goals, "kinds": ["E" for _ in goals], "N": 6 if tier == "quick" else 8,
                                              "K": 30 if tier == "quick" else 50, "features": feats})
    return cases


def worker_init(tier):
    P.load()


def cond_seq(eng, dists, monomial):
    """list of c(n) or None where P(stopped by n) = 0"""
    out = []
    for d in dists:
        stopped = {st: p for st, p in d.items() if not eng.guard_holds(st)}
        ps = sum(stopped.values(), Fraction(0))
        if ps == 0:
            out.append(None)
        else:
            out.append(eng.moment(stopped, monomial) / ps)
    return out


TAIL_A = Fraction(-3, 2)   # threshold of the lower tail bound goals P(M > a) >= ?


def goal_value(kind, raw):
    """raw: dict k -> conditional raw moment E[M^k | stopped]"""
    m1 = raw[1]
    if kind == "tl":
        den = raw[2] - 2 * TAIL_A * m1 + TAIL_A ** 2
        if den == 0:
            raise ZeroDivisionError
        return (m1 - TAIL_A) ** 2 / den
    if kind == "E":
        return m1
    if kind in ("c2", "k2"):
        return raw[2] - m1 ** 2
    if kind == "k3":
        return raw[3] - 3 * raw[2] * m1 + 2 * m1 ** 3
    raise ValueError(kind)


def run_case(case, tier):
    import sympy
    prog = Program.from_json(case["ast"])
    params = K.frac_dec(case["params"])
    inits = K.frac_dec(case["inits"])
    N, KK = case["N"], case["K"]
    goals, kinds = case["goals"], case["kinds"]
    res = {"fingerprint": K.fingerprint(case["text"], goals, kinds, case["params"], case["inits"]),
           "features": case.get("features", []), "events": {}, "violations": [], "comparisons": 0, "refusals": [], "extra": {}}
    try:
        eng = Engine(prog, params, inits, max_states=20000 if tier == "quick" else 60000)
        dists = eng.run(N)
        if K.declared_types_violated(prog, eng, dists):
            res.update(verdict="inconclusive", reason="declared-type-false")
            return res
    except (Unsupported, CapExceeded, DomainError, laws.Divergent) as e:
        res.update(verdict="inconclusive", reason="oracle-" + type(e).__name__, detail=str(e)[:100])
        return res
    guard_vars = cond_vars(prog.guard)
    guard_reassigned = bool(guard_vars & set(assigned_vars(prog.body)))
    values = K.symbol_values(params, inits)
    P.reset_settings()
    try:
        program, rb = P.prepare(case["text"])
    except Exception as e:
        res.update(verdict="inconclusive", reason="refused", refusal=P.refusal_key(e))
        return res
    if getattr(program, "abstracted_const_store", {}):
        # conditions Polar replaced by probability symbols: they need a value, as in C01; outside the oracle's shapes nothing is decided
        av = K.abstraction_values(program, prog, params)
        if av is None:
            res.update(verdict="inconclusive", reason="abstraction-outside-oracle")
            return res
        values.update(av)
        res["events"]["abstracted-conditions"] = len(av)
    from cli.common import get_moment_given_termination
    from cli.actions.goals_action import GoalsAction
    from cli import ArgumentParser
    from symengine.lib.symengine_wrapper import sympify as se_sympify
    args = ArgumentParser().get_defaults()
    args.after_loop = True
    ga = GoalsAction(args)
    ga.initialize_program(program, rb)
    # long reference run for limits
    long_dists = None
    try:
        with K.soft_timeout(6 if tier == "quick" else 60):
            eng2 = Engine(prog, params, inits, max_states=20000 if tier == "quick" else 60000)
            long_dists = eng2.run(2 * KK)
    except K.SoftTimeout:
        long_dists = None
        res["extra"]["limit-oracle-soft-timeout"] = 1
    except (CapExceeded, Unsupported, DomainError) as e:
        res["extra"]["limit-oracle-" + type(e).__name__] = 1
    compared = 0
    nontrivial = False
    samples = []
    for g, kind in zip(goals, kinds):
        order = {"E": 1, "c2": 2, "k2": 2, "k3": 3, "tl": 2}[kind]
        mono = se_sympify(P.monom_str(g))
        # ---- (1) the conditional sequence (raw moment of the goal monomial)
        try:
            with K.soft_timeout(8 if tier == "quick" else 40):
                seq, is_exact = get_moment_given_termination(mono, ga.solvers, rb, args, program)
            res["events"]["get_moment_given_termination"] = res["events"].get("get_moment_given_termination", 0) + 1
        except K.SoftTimeout:
            res["extra"]["sequence-soft-timeout"] = res["extra"].get("sequence-soft-timeout", 0) + 1
            continue
        except Exception as e:
            res["refusals"].append(P.refusal_key(e))
            continue
        ref = cond_seq(eng, dists, g)
        polar_vals = []
        defined = 0
        bad = None
        for n in range(N + 1):
            if ref[n] is None:
                polar_vals.append(None)
                continue
            defined += 1
            try:
                pv = P.eval_at(seq, n, values)
            except P.Leftover as e:
                bad = {"kind": "leftover-symbol-in-conditional-sequence", "n": n, "symbols": e.names,
                       "detail": f"moment-given-termination of {P.monom_str(g)} at n={n} (P(stopped)>0) still contains {e.names}: {e.value}"}
                polar_vals.append("leftover")
                break
            except P.NotANumber as e:
                bad = {"kind": "conditional-sequence-not-a-number", "n": n,
                       "detail": f"moment-given-termination of {P.monom_str(g)} at n={n} (P(stopped)>0) is {e}"}
                polar_vals.append("nan")
                break
            polar_vals.append(pv)
            res["comparisons"] += 1
            if not P.values_equal(pv, ref[n]):
                bad = {"kind": "wrong-conditional-moment", "n": n,
                       "detail": f"E[{P.monom_str(g)} | stopped by {n}]: polar={P.val_str(pv)} reference={P.val_str(ref[n])}; sequence={str(seq)[:200]}"}
                break
        if bad:
            bad["goal"] = P.monom_str(g)
            bad["key"] = diagnose.classify_termination_violation(bad, seq, ref, values, N, guard_reassigned)
            res["violations"].append(bad)
        if defined:
            compared += 1
        if defined >= 2:
            nontrivial = True
        # ---- (2) the limit reported with --after_loop
        if long_dists is None:
            continue
        try:
            with K.soft_timeout(6 if tier == "quick" else 60):
                if kind == "E":
                    lim, _ = ga.handle_moment_goal([mono])
                elif kind == "c2":
                    lim, _ = ga.handle_central_moment_goal([2, mono])
                elif kind == "tl":
                    # the handler only prints: P(M > a) >= <bound>
                    import io, contextlib, re as _re
                    buf = io.StringIO()
                    with contextlib.redirect_stdout(buf):
                        ga.handle_tail_bound_lower_goal([mono, se_sympify(str(TAIL_A))])
                    mm = _re.search(r"^P\(.* > .*?\) >= (.*)$", buf.getvalue(), _re.M)
                    if not mm:
                        res["refusals"].append("after_loop:tail-bound-line-not-found")
                        continue
                    lim = sympy.sympify(mm.group(1).strip())
                else:
                    lim, _ = ga.handle_cumulant_goal([int(kind[1]), mono])
            res["events"]["GoalsAction.after_loop"] = res["events"].get("GoalsAction.after_loop", 0) + 1
        except K.SoftTimeout:
            # sympy's limit_seq can run away; the conditional sequence above has been compared already
            res["extra"]["limit-soft-timeout"] = res["extra"].get("limit-soft-timeout", 0) + 1
            continue
        except Exception as e:
            res["refusals"].append("after_loop:" + P.refusal_key(e))
            continue

        def ref_goal(d):
            stopped = {st: p for st, p in d.items() if not eng2.guard_holds(st)}
            ps = sum(stopped.values(), Fraction(0))
            if ps == 0:
                return None
            raw = {}
            for k in range(1, order + 1):
                raw[k] = eng2.moment(stopped, {v: e * k for v, e in g.items()}) / ps
            try:
                return goal_value(kind, raw)
            except ZeroDivisionError:
                return None
        cK, c2K = ref_goal(long_dists[KK]), ref_goal(long_dists[2 * KK])
        if cK is None or c2K is None:
            res["extra"]["limit-undefined"] = res["extra"].get("limit-undefined", 0) + 1
            continue
        scale = max(1, abs(c2K))
        converged = abs(c2K - cK) < Fraction(1, 10 ** 12) * scale
        lim_s = sympy.sympify(lim)
        if lim_s.free_symbols:
            try:
                lim_v = P.eval_at(lim_s, None, values)
            except (P.Leftover, P.NotANumber) as e:
                res["violations"].append({"kind": "after-loop-not-a-number", "goal": f"{kind}({P.monom_str(g)})", "key": None,
                                          "detail": f"--after_loop value of {kind}({P.monom_str(g)}) is {str(lim)[:200]} ({e})"})
                continue
        elif lim_s in (sympy.oo, -sympy.oo) or lim_s.has(sympy.oo):
            lim_v = "oo"
        elif lim_s is sympy.nan or lim_s.has(sympy.nan) or lim_s.has(sympy.zoo):
            res["violations"].append({"kind": "after-loop-nan", "goal": f"{kind}({P.monom_str(g)})", "key": None,
                                      "detail": f"--after_loop value of {kind}({P.monom_str(g)}) is {lim}"})
            continue
        else:
            try:
                lim_v = P.eval_at(lim_s, None, values)
            except (P.Leftover, P.NotANumber) as e:
                res["violations"].append({"kind": "after-loop-not-a-number", "goal": f"{kind}({P.monom_str(g)})", "key": None,
                                          "detail": f"--after_loop value {str(lim)[:200]}: {e}"})
                continue
        if lim_v == "oo":
            # divergence claimed: the reference must not have converged
            if converged and abs(c2K) < 10 ** 6:
                res["violations"].append({"kind": "after-loop-infinite-but-converges", "goal": f"{kind}({P.monom_str(g)})", "key": None,
                                          "detail": f"reported oo but the exact conditional sequence converged: c({KK})={P.val_str(cK)} c({2*KK})={P.val_str(c2K)}"})
                compared += 1
            else:
                res["extra"]["limit-divergent-agree-or-unknown"] = res["extra"].get("limit-divergent-agree-or-unknown", 0) + 1
            continue
        if not converged:
            res["extra"]["limit-reference-not-converged"] = res["extra"].get("limit-reference-not-converged", 0) + 1
            continue
        res["comparisons"] += 1
        compared += 1
        nontrivial = True
        if not P.values_equal(lim_v, c2K, rel_tol=1e-6):
            res["violations"].append({"kind": "wrong-after-loop-value", "goal": f"{kind}({P.monom_str(g)})", "key": None,
                                      "detail": f"--after_loop {kind}({P.monom_str(g)}) = {P.val_str(lim_v)} but the exact conditional sequence converges to {P.val_str(c2K)} (c({KK})={P.val_str(cK)})"})
        if len(samples) < 2:
            samples.append({"goal": f"{kind}({P.monom_str(g)})", "after_loop": P.val_str(lim_v) if lim_v != "oo" else "oo",
                            "reference_c(2K)": P.val_str(c2K), "sequence": str(seq)[:150],
                            "reference_sequence": [None if x is None else P.val_str(x) for x in ref[:5]]})
    P.reset_settings()
    if compared == 0 and not res["violations"]:
        res.update(verdict="inconclusive", reason="refused" if res["refusals"] else "never-stopped-within-N")
        return res
    res["nontrivial"] = nontrivial
    res["verdict"] = "violated" if res["violations"] else "held"
    res["sample"] = {"program": case["text"], "goals": samples}
    return res
