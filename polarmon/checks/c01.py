"""C01 — closed-form moments equal the exact expected values at every iteration.

Monitor: the value of RecurrenceSolver(recurrences).get(monomial) (API path of cli.common.get_moment)
evaluated at n = 0..N and at sampled parameter / initial values, and for a fraction of the cases the
lines printed by the real CLI (polar.main, --goals ... --at_n k); oracle: exact forward propagation of the
source AST (ref/engine.py)."""
import os
import random
import re
import tempfile
from fractions import Fraction

from .. import polar_api as P
from ..gen import programs as G
from ..gen import corpus as CORPUS
from ..lang.ast import Program, program_variables
from ..lang.printer import program_str
from . import common as K
from .. import diagnose

ID = "C01"
RULE = ("cases = seeded generated loop programs (profiles discrete/mixed/continuous/guarded/linear/nested/multiassign/"
        "symbolic/delay/counter) + shipped .prob corpus files + statement-level mutations of them, each with 2-4 goal "
        "monomials (degree <= 3, mixed products), random rational parameter/initial values; a case is non-trivial when "
        "Polar returned a closed form and >= 1 goal was compared at n=0..N against the exact law with a non-constant "
        "reference sequence or a probabilistic program; distinct = distinct (program text, goals, values) fingerprints")
ASSUMPTIONS = [
    "language semantics as stated in the property and documentation/loop-guards-termination.ipynb, implemented in polarmon/ref/engine.py",
    "textbook moment formulas in polarmon/ref/laws.py (cross-checked against mpmath quadrature by the oracle self-test)",
    "sympy evaluates Polar's returned expression correctly at integer n and rational parameter values",
    "n ranges over 0..N only (N=6..8 discrete, 3..4 continuous); all-n reach for an instance comes from chaining with C03/C04",
]
UNINIT_COUNTERFACTUAL = True   # worker: unattributed violations are re-run with explicit initial assignments (diagnose.attribute_uninit)
TIMEOUT = {"quick": 18, "thorough": 120}
DEADLINE = {"quick": 80, "thorough": 1000}
MIN_DECIDING = {"quick": 40, "thorough": 300}
NCASES = {"quick": 110, "thorough": 2600}


def generate(seed, tier):
    cases = []
    n = NCASES[tier]
    n_corpus = 20 if tier == "quick" else 400
    for i in range(n):
        cs = K.harness_seed(seed, ID, i)
        rng = random.Random(cs)
        prog, feats, meta = G.generate(cs)
        params, inits = G.instantiate_params(rng, meta, prog)
        pv = program_variables(prog)
        goals = G.goal_monomials(rng, pv, max_deg=3 if tier == "quick" else 4, count=rng.choice([2, 3]),
                                 prefer=meta["data"] or None)
        cont = bool(meta["draws"])
        N = (3 if cont else 6) if tier == "quick" else (4 if cont else 8)
        cases.append({
            "id": f"gen-{cs}", "kind": "gen", "text": program_str(prog), "ast": prog.to_json(),
            "params": K.frac_enc(params), "inits": K.frac_enc(inits), "goals": goals, "N": N,
            "features": feats, "cli": (i % 5 == 0),
        })
    cases += CORPUS.cases(seed, tier, n_corpus, ID)
    return cases


def worker_init(tier):
    P.load()


def run_case(case, tier):
    prog = Program.from_json(case["ast"])
    params = K.frac_dec(case["params"])
    inits = K.frac_dec(case["inits"])
    goals = case["goals"]
    N = case["N"]
    res = {"fingerprint": K.fingerprint(case["text"], goals, case["params"], case["inits"]),
           "features": case.get("features", []), "events": {}, "violations": [], "comparisons": 0, "refusals": []}
    eng_out = []
    import time
    t_start = time.time()
    lf = K.load_factor()
    budget = TIMEOUT[tier] * 0.85   # nominal seconds (elapsed time is divided by the load factor); per-case time box: goals that do not fit are skipped, the compared ones still count
    try:
        with K.soft_timeout(budget * 0.4):
            table = K.oracle_moments(prog, params, inits, goals, N, max_states=20000 if tier == "quick" else 100000,
                                     engine_out=eng_out)
    except K.SoftTimeout:
        res.update(verdict="inconclusive", reason="oracle-cap", detail="reference engine time box")
        return res
    except K.OracleSkip as e:
        res.update(verdict="inconclusive", reason=e.reason.split(":")[0], detail=e.reason)
        return res
    values = K.symbol_values(params, inits)
    P.reset_settings()
    try:
        program, rb = P.prepare(case["text"])
        res["events"]["normalize_program"] = 1
    except Exception as e:
        res.update(verdict="inconclusive", reason="refused", refusal=P.refusal_key(e))
        return res
    abstracted = bool(getattr(program, "abstracted_const_store", {}))
    if abstracted:
        av = K.abstraction_values(program, prog, params)
        if av is None:
            res.update(verdict="inconclusive", reason="abstraction-outside-oracle")
            return res
        values.update(av)
        res["events"]["abstracted-conditions"] = len(av)
    compared_goals = 0
    nontrivial = False
    sample_rows = []
    for g, ref in zip(goals, table):
        left = budget - (time.time() - t_start) / lf
        if left < 1.5:
            res["events"]["goal-skipped-time-box"] = res["events"].get("goal-skipped-time-box", 0) + 1
            continue
        try:
            with K.soft_timeout(left):
                cf, is_exact, recs = P.closed_form(program, rb, g)
            res["events"]["RecurrenceSolver.get"] = res["events"].get("RecurrenceSolver.get", 0) + 1
        except K.SoftTimeout:
            res["events"]["goal-skipped-time-box"] = res["events"].get("goal-skipped-time-box", 0) + 1
            # the interrupted analysis may have left partial state in the builder: start from a fresh one
            try:
                program, rb = P.prepare(case["text"])
            except Exception:
                break
            continue
        except Exception as e:
            res["refusals"].append(P.refusal_key(e))
            continue
        compared_goals += 1
        bad = compare_closed_form(cf, is_exact, ref, values, N, res, g)
        if bad:
            for v in bad:
                v["goal"] = P.monom_str(g)
                v["key"] = diagnose.classify_moment_violation(case, v, recs, program)
            res["violations"] += bad
        if len(set(map(str, ref))) > 1 or K.has_draw_or_choice(prog):
            nontrivial = True
        if len(sample_rows) < 2:
            sample_rows.append({"goal": P.monom_str(g), "closed_form": str(cf)[:200], "is_exact": bool(is_exact),
                                "ref_values": [P.val_str(x) for x in ref[:4]]})
    if case.get("cli") and compared_goals and budget - (time.time() - t_start) / lf > 0.45 * budget:
        try:
            with K.soft_timeout(budget - (time.time() - t_start) / lf):
                cli_viol, ncmp = cli_compare(case, goals, table, values, N)
            res["events"]["polar.main"] = 1
            res["comparisons"] += ncmp
            for v in cli_viol:
                v["key"] = diagnose.classify_moment_violation(case, v, None, program)
            res["violations"] += cli_viol
        except P.CliRefused as e:
            res["refusals"].append("cli:" + e.key)
        except K.SoftTimeout:
            res["events"]["cli-skipped-time-box"] = 1
            P.reset_settings()
    if compared_goals == 0:
        if res["events"].get("goal-skipped-time-box"):
            res.update(verdict="inconclusive", reason="timeout", detail="no goal fitted the per-case time box")
            return res
        res.update(verdict="inconclusive", reason="refused", refusal=(res["refusals"] or ["?"])[0])
        return res
    res["nontrivial"] = nontrivial
    res["verdict"] = "violated" if res["violations"] else "held"
    res["sample"] = {"program": case["text"], "values": {k: str(v) for k, v in values.items() if k in case["text"] or k[:-1] in case["text"]},
                     "goals": sample_rows}
    return res


def compare_closed_form(cf, is_exact, ref, values, N, res, goal=None, tol_inexact=1e-9):
    """compare Polar's closed form with the reference values ref[0..N]; returns list of violation dicts"""
    out = []
    for n in range(0, N + 1):
        try:
            pv = P.eval_at(cf, n, values)
        except P.Leftover as e:
            out.append({"kind": "leftover-symbol", "n": n, "detail": f"symbols {e.names} remain at n={n}: {e.value}", "symbols": e.names})
            break
        except P.NotANumber as e:
            out.append({"kind": "not-a-number", "n": n, "detail": f"value at n={n} is {e}"})
            break
        res["comparisons"] += 1
        rv = ref[n]
        exact_ref = isinstance(rv, Fraction)
        if is_exact and exact_ref:
            ok = P.values_equal(pv, rv)
        elif is_exact:
            ok = P.values_equal(pv, rv, rel_tol=1e-15)  # reference itself is numeric (quadrature / rounding to 20 digits)
        else:
            ok = P.values_equal(pv, rv, rel_tol=tol_inexact)
        if not ok:
            out.append({"kind": "wrong-moment", "n": n, "detail": f"n={n}: polar={P.val_str(pv)} reference={P.val_str(rv)} closed_form={str(cf)[:300]}",
                        "polar": P.val_str(pv), "ref": P.val_str(rv), "is_exact": bool(is_exact)})
            if len(out) >= 3:
                break
    return out


_LINE = re.compile(r"^E\((?P<m>[^|]*?)\) = (?P<rhs>.*)$")
_ATN = re.compile(r"^E\((?P<m>.*?) \| n=(?P<n>\d+)\) = (?P<val>.*?) ≅ ")


def cli_compare(case, goals, table, values, N):
    """run the real CLI on the program and compare the printed lines with the reference"""
    import sympy
    viol = []
    ncmp = 0
    at_n = N
    with tempfile.NamedTemporaryFile("w", suffix=".prob", delete=False, dir=tempfile.gettempdir()) as f:
        f.write(case["text"])
        path = f.name
    try:
        argv = [path, "--goals"] + [f"E({P.monom_str(g)})" for g in goals] + ["--at_n", str(at_n)]
        try:
            out = P.run_cli(argv)
        except SystemExit as e:
            raise P.CliRefused("SystemExit")
        except Exception as e:
            raise P.CliRefused(P.refusal_key(e))
    finally:
        os.unlink(path)
        P.reset_settings()
    want = {str(sympy.sympify(P.monom_str(g))): i for i, g in enumerate(goals)}
    nsym = sympy.Symbol("n", integer=True)
    # the numbering of generated names is process-wide: the CLI run names the abstraction probabilities _prob<k'> where the
    # API run had _prob<k>; they are created in the same order
    printed = sorted(set(re.findall(r"_prob(\d+)", out)), key=int)
    have = sorted([k for k in values if re.fullmatch(r"_prob\d+", k)], key=lambda k: int(k[5:]))
    if printed:
        if len(printed) != len(have):
            raise P.CliRefused("abstraction-symbols-not-matched")
        values = dict(values)
        vals = [values[h] for h in have]
        for pnum, v in zip(printed, vals):
            values["_prob" + pnum] = v
    for line in out.splitlines():
        line = line.strip()
        m = _ATN.match(line)
        if m:
            key = str(sympy.sympify(m.group("m")))
            if key in want:
                try:
                    pv = P.eval_at(sympy.sympify(m.group("val")), None, values)
                except (P.Leftover, P.NotANumber) as e:
                    viol.append({"kind": "cli-at-n-not-a-number", "detail": f"{line}: {e}", "goal": key})
                    continue
                ncmp += 1
                rv = table[want[key]][at_n]
                if not P.values_equal(pv, rv, rel_tol=None if isinstance(rv, Fraction) else 1e-15):
                    viol.append({"kind": "cli-at-n-wrong", "n": at_n, "detail": f"printed '{line}' but reference E={P.val_str(rv)}", "goal": key})
            continue
        m = _LINE.match(line)
        if m and "|" not in m.group("m"):
            key = str(sympy.sympify(m.group("m")))
            if key not in want:
                continue
            parts = [p.strip() for p in m.group("rhs").split(";")]
            ref = table[want[key]]
            try:
                specials = [sympy.sympify(p, locals={"n": nsym}) for p in parts[:-1]]
                formula = sympy.sympify(parts[-1], locals={"n": nsym})
            except Exception as e:
                viol.append({"kind": "cli-unparseable-line", "detail": f"{line}: {e}", "goal": key})
                continue
            for n in range(0, N + 1):
                ex = specials[n] if n < len(specials) else formula
                try:
                    pv = P.eval_at(ex, n, values)
                except (P.Leftover, P.NotANumber) as e:
                    viol.append({"kind": "cli-line-not-a-number", "n": n, "detail": f"{line}: {e}", "goal": key})
                    break
                ncmp += 1
                rv = ref[n]
                if not P.values_equal(pv, rv, rel_tol=None if isinstance(rv, Fraction) else 1e-15):
                    viol.append({"kind": "cli-line-wrong", "n": n, "detail": f"printed '{line[:200]}' gives {P.val_str(pv)} at n={n}, reference {P.val_str(rv)}", "goal": key})
                    break
    return viol, ncmp
