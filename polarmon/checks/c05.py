"""C05 — inferred finite types contain every value a variable can ever take.

Monitor: program.typedefs at the exit of TypeInferer and at the end of normalize_program (hooks.pass_monitor).
Oracle: the reference engine executes the program as it stands at that hook (through ref/ir.py) and records
the value of every variable immediately after each assignment and at each iteration boundary, for N
iterations including iterations after the guard has become false; every recorded value of a typed,
not user-declared variable must belong to the declared value set."""
import random
from fractions import Fraction

from .. import polar_api as P
from ..gen import programs as G
from ..gen import corpus as CORPUS
from ..lang.ast import Program, program_variables
from ..lang.printer import program_str
from ..ref.engine import Engine, Unsupported, CapExceeded, DomainError, AP
from ..ref import laws
from . import common as K
from . import stages as S
from .. import diagnose

ID = "C05"
RULE = ("cases = generated programs (profiles guarded/nested/multiassign/discrete/mixed/counter weighted towards guards whose "
        "variables are reassigned in the body, several assignments per variable, variables without initial value) x "
        "type_fp_iterations in {0,1,2,3,100} x {default, transform_categoricals}; non-trivial = at least one *inferred* finite "
        "type of a variable that is assigned in the loop body was checked against >= 2 distinct observed values or states; "
        "distinct = (program text, settings) fingerprint")
ASSUMPTIONS = [
    "meaning of the IR as in C02; reachable values are observed for N iterations from the initial state (N=6 quick, 9 thorough), "
    "not to a fixpoint unless the state set stops growing (reported as exhaustive_cases)",
    "variables without initial value start from the symbolic value <name>0, represented by an arbitrary rational",
]
TIMEOUT = {"quick": 15, "thorough": 90}
DEADLINE = {"quick": 75, "thorough": 1000}
MIN_DECIDING = {"quick": 60, "thorough": 600}
NCASES = {"quick": 240, "thorough": 9000}


def generate(seed, tier):
    cases = []
    for i in range(NCASES[tier]):
        cs = K.harness_seed(seed, ID, i)
        rng = random.Random(cs)
        profile = rng.choice(["guarded", "guarded", "guarded", "nested", "multiassign", "multiassign", "discrete", "mixed", "symbolic", "counter", "delay", "abstract"])
        prog, feats, meta = G.generate(cs, profile)
        params, inits = G.instantiate_params(rng, meta, prog)
        cfg = {"type_fp_iterations": rng.choice([0, 1, 2, 3, 100, 100, 100])}
        if rng.random() < 0.25:
            cfg["transform_categoricals"] = True
        if rng.random() < 0.15:
            cfg["cond2arithm"] = True
        cases.append({"id": f"gen-{cs}", "text": program_str(prog), "ast": prog.to_json(), "params": K.frac_enc(params),
                      "inits": K.frac_enc(inits), "N": 6 if tier == "quick" else 9, "settings": cfg,
                      "features": feats + [f"fp_iter:{cfg['type_fp_iterations']}"]})
    # a fixed number of programs whose finite choices mix numeric and symbolic probabilities (rare under the profile lottery)
    want, have, j = (10 if tier == "quick" else 150), 0, 0
    while have < want and j < 4000:
        cs = K.harness_seed(seed, ID + "-symprob", j)
        j += 1
        prog, feats, meta = G.generate(cs, "symbolic")
        if "fin-choice-symbolic-probability" not in feats:
            continue
        have += 1
        params, inits = G.instantiate_params(random.Random(cs), meta, prog)
        cases.insert(3 * have, {"id": f"gen-{cs}", "text": program_str(prog), "ast": prog.to_json(), "params": K.frac_enc(params),
                                "inits": K.frac_enc(inits), "N": 6, "settings": {"type_fp_iterations": 100}, "features": feats + ["fp_iter:100"]})
    # backward copy chains ending in an unbounded variable (w = z; z = y; y = x; x = x + 1 {1/2} x) under small fixed-point budgets:
    # every chain variable is unbounded, but each learns it one typer round later than its source
    from ..lang.parser import parse_program
    nchain = 8 if tier == "quick" else 80
    for j in range(nchain):
        cs = K.harness_seed(seed, ID + "-chain", j)
        r = random.Random(cs)
        depth = r.choice([3, 4, 4, 5, 6])
        names = ["w", "z", "y", "v", "u", "t"][:depth] + ["x"]
        src = r.choice(["x = x + 1 {1/2} x", "x = x + 1", "x = x + c"])
        lines = [f"{a_} = {b_}" for a_, b_ in zip(names, names[1:])] + [src]
        init = "\n".join(f"{v} = 0" for v in names) + "\nc = 0\ns = 0"
        text = f"{init}\nwhile true:\n    c = Bernoulli(1/2)\n" + "".join(f"    {l}\n" for l in lines) + "    if w == 1:\n        s = s + 1\n    end\nend\n"
        try:
            prog = parse_program(text)
        except Exception:
            continue
        cfg = {"type_fp_iterations": r.choice([1, 1, 2, 3])}
        cases.insert(5 * (j + 1), {"id": f"chain-{cs}", "text": text, "ast": prog.to_json(), "params": K.frac_enc({}), "inits": K.frac_enc({}),
                                   "N": depth + 4, "settings": cfg, "features": ["designed:backward-copy-chain-to-unbounded", f"fp_iter:{cfg['type_fp_iterations']}"]})
    for c in CORPUS.cases(seed, tier, 30 if tier == "quick" else 300, ID, N=5):
        c["settings"] = {}
        cases.append(c)
    return cases


def read_before_write(body):
    """variables of a statement list that are read (anywhere: condition, right-hand side, parameter, default) by a statement that
    comes before the first top-level statement assigning them"""
    def reads(x, acc):
        if isinstance(x, tuple):
            if len(x) == 2 and x[0] == "var" and isinstance(x[1], str):
                acc.add(x[1])
            else:
                for y in x:
                    reads(y, acc)
        elif isinstance(x, list):
            for y in x:
                reads(y, acc)
        return acc
    written, out = set(), set()
    for st in body:
        if st[0] == "assign":
            rs = reads(st[2:], set())
            # an IR assignment 'x = rhs | cond : x' reads x itself through its default only when the condition fails: that is the
            # "keeps its value" case, which the boundary states already cover - not counted as a read of the old value
            out |= (rs - {st[1]}) - written
            written.add(st[1])
        elif st[0] == "simult":
            out |= reads(st[2], set()) - written
            written |= set(st[1])
        else:
            out |= reads(st[1:], set()) - written
    return out


def worker_init(tier):
    P.load()


def _has_undef(x):
    return isinstance(x, AP) and any(g[0][0][0] == "undef" for m in x.t for g in m if isinstance(g[0][0], tuple))


def run_case(case, tier):
    prog = Program.from_json(case["ast"])
    params = K.frac_dec(case["params"])
    inits = K.frac_dec(case["inits"])
    N = case["N"]
    cfg = case.get("settings", {})
    res = {"fingerprint": K.fingerprint(case["text"], cfg), "features": case.get("features", []),
           "events": {}, "violations": [], "comparisons": 0, "refusals": [], "extra": {}}
    user_declared = {v for v, _, _ in prog.typedefs}
    src_vars = set(program_variables(prog))
    try:
        seng = Engine(prog, params, inits, max_states=20000)
        sd = seng.run(N)
        bad = K.declared_types_violated(prog, seng, sd)
        if bad:
            res.update(verdict="inconclusive", reason="declared-type-false", detail=str(bad))
            return res
    except (Unsupported, CapExceeded, DomainError, laws.Divergent) as e:
        pass  # the source program itself is outside the oracle; stage programs may still be executable
    counts = {}
    try:
        stages, program, refusal = S.collect_stages(case["text"], cfg, counts)
    finally:
        P.reset_settings()
    for k, v in counts.items():
        res["events"][k + ".execute"] = v
    if refusal:
        res["refusals"].append(refusal)
    watch = [st for st in stages if st.name == "TypeInferer"]
    if stages and program is not None and stages[-1].name != "TypeInferer":
        watch.append(stages[-1])
    if not watch:
        res.update(verdict="inconclusive", reason="refused" if refusal else "type-inferer-not-reached")
        return res
    checked_types = 0
    nontrivial = False
    for st in watch:
        if st.ast is None:
            res["extra"]["stage-unreadable"] = res["extra"].get("stage-unreadable", 0) + 1
            continue
        inferred = {v: vals for v, vals in st.types.items() if v not in user_declared}
        if not inferred:
            continue
        observed = {v: set() for v in inferred}

        def on_value(var, val, it, observed=observed):
            if var in observed:
                observed[var].add(val)
        try:
            # auxiliaries start *undefined*: a symbolic generator that propagates through copies and arithmetic,
            # so that a value derived from a never-assigned auxiliary is recognisable and not counted
            ai = dict(inits)
            for v in program_variables(st.ast):
                if v not in src_vars:
                    ai[v] = AP.gen(("undef", v))
            eng = Engine(st.ast, params, ai, max_states=20000 if tier == "quick" else 100000, on_value=on_value)
            dists = eng.run(N)
        except (Unsupported, CapExceeded, DomainError, laws.Divergent) as e:
            key = "stage-" + type(e).__name__
            res["extra"][key] = res["extra"].get(key, 0) + 1
            continue
        # values held at iteration boundaries n >= 1 (a value held at a boundary is observable: it is what E_n reports).
        # The value a variable without initial assignment has *before its first assignment* is not recorded at boundary 0:
        # it is unobservable unless it is read or survives to a boundary, and then the assignment that copies it
        # (default / right-hand side) reports it through on_value.
        for d in dists[1:]:
            for stt in d:
                for v in inferred:
                    if v in eng.index:
                        observed[v].add(stt[eng.index[v]])
        # ... except when the body READS the variable (in a condition or a right-hand side) before its first assignment of the iteration:
        # then the value held at boundary 0 decides a branch / enters a computation in the first iteration and is observable
        for v in read_before_write(st.ast.body):
            if v in inferred and v in eng.index:
                for stt in dists[0]:
                    observed[v].add(stt[eng.index[v]])
        seen_sets = [frozenset(d) for d in dists]
        if len(seen_sets) >= 2 and seen_sets[-1] == seen_sets[-2]:
            res["extra"]["exhaustive_cases"] = 1
        body_vars = set(program_variables(Program([], [], ("true",), st.ast.body)))
        for v, vals in inferred.items():
            if any(x is None for x in vals):
                res["extra"]["type-unreadable"] = res["extra"].get("type-unreadable", 0) + 1
                continue
            if v not in eng.index:
                continue
            checked_types += 1
            tset = set(vals)
            obs = observed[v]
            res["comparisons"] += len(obs)
            if v in body_vars and len(obs) >= 2:
                nontrivial = True
            bad = [x for x in obs if not _has_undef(x) and (isinstance(x, AP) or x not in tset)]
            if bad:
                viol = {"kind": "value-outside-inferred-type", "stage": st.name, "variable": v,
                        "detail": f"at exit of {st.name} (settings {cfg}) {v} : Finite({sorted(map(str, tset))}) but the variable holds {sorted(map(str, bad))[:4]} within {N} iterations",
                        "type": sorted(map(str, tset)), "bad_values": sorted(map(str, bad))[:6]}
                viol["key"] = diagnose.classify_type_violation(case, viol, st, inits)
                res["violations"].append(viol)
    if checked_types == 0 and not res["violations"]:
        res.update(verdict="inconclusive", reason="no-inferred-type" if not refusal else "refused")
        return res
    res["nontrivial"] = nontrivial
    res["verdict"] = "violated" if res["violations"] else "held"
    res["sample"] = {"program": case["text"], "settings": cfg, "inferred_types": {v: [str(x) for x in vals] for v, vals in watch[-1].types.items() if v not in user_declared},
                     "types_checked": checked_types, "iterations": N}
    return res
