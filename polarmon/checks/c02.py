"""C02 — normalization preserves the program's distribution over its variables.

Monitor: every depth-0 Transformer.execute inside normalize_program (hooks.pass_monitor) plus the parser's
output (stage 0).  Each stage program is executed by the reference engine through ref/ir.py and its joint
law over the *source* variables at iteration boundaries 0..N is compared with the law of the source AST
(exact joint distribution for discrete programs, mixed moments up to degree 3 otherwise).  Second run with
all auxiliary variables overwritten by arbitrary values at every boundary (scramble invariance)."""
import itertools
import random
from fractions import Fraction

from .. import polar_api as P
from ..gen import programs as G
from ..gen import corpus as CORPUS
from ..lang.ast import Program, program_variables
from ..lang.printer import program_str
from ..ref.engine import Engine, Unsupported, CapExceeded, DomainError, AP
from ..ref import laws
from . import common as K
from . import stages as S
from .. import diagnose

ID = "C02"
RULE = ("cases = generated programs (all profiles) and corpus files x normalization settings {default, cond2arithm, "
        "transform_categoricals, both}; per case every pass exit is one observation; non-trivial = at least 3 stage "
        "programs were executed by the reference engine and compared with the source law on a program containing a "
        "condition or random construct; distinct = (program text, settings, values) fingerprint")
ASSUMPTIONS = [
    "meaning of the IR: 'x = rhs | cond : default', first-match IfStatem, guard (documented in program/assignment/assignment.py)",
    "reference engine and laws as in C01",
    "continuous programs: equality of laws is observed through mixed moments of the source variables up to total degree 3 only",
    "abstracted conditions (_prob symbols) are outside the oracle: those stages are counted inconclusive",
]
TIMEOUT = {"quick": 18, "thorough": 120}
DEADLINE = {"quick": 80, "thorough": 1000}
MIN_DECIDING = {"quick": 40, "thorough": 300}
NCASES = {"quick": 170, "thorough": 4000}
CONFIGS = [{}, {"cond2arithm": True}, {"transform_categoricals": True}, {"cond2arithm": True, "transform_categoricals": True}]


def generate(seed, tier):
    cases = []
    for i in range(NCASES[tier]):
        cs = K.harness_seed(seed, ID, i)
        rng = random.Random(cs)
        profile = rng.choice(["nested", "nested", "multiassign", "multiassign", "guarded", "guarded", "discrete", "mixed",
                              "continuous", "linear", "symbolic", "delay", "counter", "abstract", "abstract", "abstract"])
        prog, feats, meta = G.generate(cs, profile)
        params, inits = G.instantiate_params(rng, meta, prog)
        cont = bool(meta["draws"])
        cfg = CONFIGS[0] if i % 2 == 0 else rng.choice(CONFIGS[1:])
        cases.append({"id": f"gen-{cs}", "text": program_str(prog), "ast": prog.to_json(), "params": K.frac_enc(params),
                      "inits": K.frac_enc(inits), "N": (3 if cont else 5) if tier == "quick" else (4 if cont else 6),
                      "settings": cfg, "features": feats + ["cfg:" + ("+".join(sorted(cfg)) or "default")]})
    # abstraction preconditions: programs whose abstracted event depends on the finite part of the same guard (must be
    # refused or handled exactly) - a fixed number per run, whatever the profile lottery produced
    want, j = (4 if tier == "quick" else 40), 0
    DEP = ("abstract-derived-value-dependent-on-finite-conjunct", "abstract-second-condition-on-derived-value")
    have = {f: sum(1 for c in cases if f in c["features"]) for f in DEP}
    while min(have.values()) < want and j < 4000:
        cs = K.harness_seed(seed, ID + "-dep", j)
        j += 1
        prog, feats, meta = G.generate(cs, "abstract")
        hit = [f for f in DEP if f in feats and have[f] < want]
        if not hit:
            continue
        for f in hit:
            have[f] += 1
        params, inits = G.instantiate_params(random.Random(cs), meta, prog)
        cases.insert(0, {"id": f"gen-{cs}", "text": program_str(prog), "ast": prog.to_json(), "params": K.frac_enc(params),
                         "inits": K.frac_enc(inits), "N": 3, "settings": {}, "features": feats + ["cfg:default"]})
    for c in CORPUS.cases(seed, tier, 25 if tier == "quick" else 300, ID, N=4):
        c["settings"] = {}
        cases.append(c)
    return cases


def folded_by_design(prog, v):
    """loop-constant folding (a documented mechanism of ConstantsTransformer): a variable that is never assigned in the body and whose
    only initial assignment is an unconditional deterministic polynomial over other loop constants (kr = 2*kq with kq = 1 {1/2} 2) is
    replaced by that polynomial everywhere.  Its value stays a fixed function of surviving variables whose joint law IS compared, so
    its disappearance loses nothing; a constant initialised by a choice or a draw must survive."""
    from ..lang.ast import rhs_vars
    body_assigned = {a[1] for a in K._all_assigns(prog.body)}
    if v in body_assigned:
        return False
    defs = [a for a in K._all_assigns(prog.init) if a[1] == v]
    if len(defs) != 1 or defs[0][2][0] != "poly" or len(defs[0]) > 3:
        return False
    top = [st for st in prog.init if st[0] == "assign" and st[1] == v]
    if len(top) != 1:
        return False   # assigned inside an if-statement of the init block
    return not (rhs_vars(defs[0][2]) & body_assigned)


def worker_init(tier):
    P.load()


def moments_table(eng, dists, names, deg):
    monos = []
    for d in range(1, deg + 1):
        for combo in itertools.combinations_with_replacement(names, d):
            m = {}
            for v in combo:
                m[v] = m.get(v, 0) + 1
            monos.append(m)
    return monos, [[eng.moment(d, m) for m in monos] for d in dists]


def law_summary(eng, dists, names):
    """('exact', [marginal dict per n]) or ('moments', monos, table)"""
    if all(eng.is_discrete_dist(d) for d in dists):
        return ("exact", [eng.marginal(d, names) for d in dists])
    deg = 3 if len(names) <= 3 else 2
    monos, tab = moments_table(eng, dists, names, deg)
    return ("moments", monos, tab)


def compare_summaries(src, stg, names_src, names_common):
    """returns None if equal else a description"""
    if src[0] == "exact" and stg[0] == "exact":
        idx = [names_src.index(v) for v in names_common]
        for n, (a, b) in enumerate(zip(src[1], stg[1])):
            pa = {}
            for k, p in a.items():
                kk = tuple(k[i] for i in idx)
                pa[kk] = pa.get(kk, 0) + p
            if pa != b:
                diff = [(k, str(pa.get(k, 0)), str(b.get(k, 0))) for k in set(pa) | set(b) if pa.get(k, 0) != b.get(k, 0)][:3]
                return n, f"joint law differs at boundary n={n}: (state over {names_common}, P_source, P_stage) = {[(tuple(map(str, k)), x, y) for k, x, y in diff]}"
        return None
    return "kind-mismatch"


def compare_laws(seng, sd, eng, dd, src_vars, names, discrete, res):
    """compare the law of the stage program (eng, dd) with the source (seng, sd) over `names`; returns None or (n, message)"""
    if discrete:
        ssum = ("exact", [seng.marginal(d, src_vars) for d in sd])
        if all(eng.is_discrete_dist(d) for d in dd):
            tsum = ("exact", [eng.marginal(d, names) for d in dd])
            res["comparisons"] += len(dd)
            return compare_summaries(ssum, tsum, src_vars, names)
        return (0, "stage program has continuous values although the source is discrete")
    deg = 3 if len(names) <= 3 else 2
    monos, stab = moments_table(seng, sd, names, deg)
    _, ttab = moments_table(eng, dd, names, deg)
    for n in range(len(sd)):
        for m, a, b in zip(monos, stab[n], ttab[n]):
            res["comparisons"] += 1
            if not P.values_equal(b, a, rel_tol=None if isinstance(a, Fraction) and isinstance(b, Fraction) else 1e-25):
                return (n, f"E[{P.monom_str(m)}] at boundary n={n}: source {P.val_str(a)} vs stage {P.val_str(b)}")
    return None


def run_case(case, tier):
    prog = Program.from_json(case["ast"])
    params = K.frac_dec(case["params"])
    inits = K.frac_dec(case["inits"])
    N = case["N"]
    cfg = case.get("settings", {})
    res = {"fingerprint": K.fingerprint(case["text"], cfg, case["params"], case["inits"]), "features": case.get("features", []),
           "events": {}, "violations": [], "comparisons": 0, "refusals": [], "extra": {}}
    max_states = 20000 if tier == "quick" else 100000
    src_vars = program_variables(prog)
    try:
        seng = Engine(prog, params, inits, max_states=max_states)
        sd = seng.run(N)
        discrete = all(seng.is_discrete_dist(d) for d in sd)
        bad = K.declared_types_violated(prog, seng, sd)
        if bad:
            res.update(verdict="inconclusive", reason="declared-type-false", detail=str(bad))
            return res
    except (Unsupported, CapExceeded, DomainError, laws.Divergent) as e:
        res.update(verdict="inconclusive", reason="oracle-" + type(e).__name__, detail=str(e)[:100])
        return res
    counts = {}
    try:
        stages, program, refusal = S.collect_stages(case["text"], cfg, counts)
    finally:
        P.reset_settings()
    for k, v in counts.items():
        res["events"][k + ".execute"] = v
    if refusal:
        res["refusals"].append(refusal)
    compared = 0
    skipped = 0
    first_bad = None
    for st in stages:
        if st.ast is None:
            skipped += 1
            res["extra"]["stage-unreadable"] = res["extra"].get("stage-unreadable", 0) + 1
            continue
        stage_vars = program_variables(st.ast)
        common = [v for v in src_vars if v in stage_vars]
        dropped = [v for v in src_vars if v not in stage_vars]
        # a dropped variable must be loop-constant in the source
        bad_drop = None
        for v in dropped:
            vals = {stt[seng.index[v]] for d in sd for stt in d}
            if len(vals) != 1 and not folded_by_design(prog, v):
                bad_drop = v
        if bad_drop is not None:
            res["violations"].append({"kind": "variable-dropped", "stage": st.name, "key": None,
                                      "detail": f"after {st.name} the source variable {bad_drop} no longer exists although it is not constant"})
            first_bad = first_bad or st.name
            continue
        if not common:
            continue
        stage_params = dict(params)
        abst = st.extra.get("abstracted")
        if abst:
            okp = True
            for pname, c in abst.items():
                pv = K.prob_of_condition(c, prog, params)
                if pv is None:
                    okp = False
                    break
                stage_params[pname] = pv
            if not okp:
                skipped += 1
                res["extra"]["stage-abstraction-outside-oracle"] = res["extra"].get("stage-abstraction-outside-oracle", 0) + 1
                continue
        elif abst is None:
            skipped += 1
            continue
        for mode in ("plain", "scrambled"):
            try:
                ai = S.aux_inits(st.ast, set(src_vars), inits, salt=0 if mode == "plain" else 3)
                eng = Engine(st.ast, stage_params, ai, max_states=max_states,
                             scramble=S.make_scrambler(set(src_vars)) if mode == "scrambled" else None)
                dd = eng.run(N)
            except (Unsupported, CapExceeded, laws.Divergent) as e:
                skipped += 1
                key = "stage-" + type(e).__name__
                res["extra"][key] = res["extra"].get(key, 0) + 1
                break
            except DomainError as e:
                res["violations"].append({"kind": "stage-ill-defined", "stage": st.name, "mode": mode, "key": None,
                                          "detail": f"program after {st.name} is ill-defined at a reachable state ({mode}): {e}"})
                first_bad = first_bad or st.name
                break
            try:
                bad = compare_laws(seng, sd, eng, dd, src_vars, common, discrete, res)
            except (CapExceeded, Unsupported) as e:
                skipped += 1
                key = "stage-moments-" + type(e).__name__
                res["extra"][key] = res["extra"].get(key, 0) + 1
                break
            abstracted_vars = set()
            if bad and abst:
                # the abstraction changes the joint law with the variables of the abstracted condition by design (known
                # finding); anything that still differs once those variables are projected away is a different defect
                from ..lang.ast import cond_vars
                for c in abst.values():
                    cond_vars(c, abstracted_vars)
                # ... and everything computed from them (y = y + u is correlated with the condition on u as well)
                from ..lang.ast import rhs_vars
                # ... and everything they are computed from (w = u + d: the event on w is a function of d as well)
                pvars = set(src_vars)
                changed = True
                while changed:
                    changed = False
                    for a in K._all_assigns(prog.body):
                        if a[1] in abstracted_vars and not (rhs_vars(a[2]) & pvars) <= abstracted_vars:
                            abstracted_vars |= rhs_vars(a[2]) & pvars
                            changed = True
                        if a[1] not in abstracted_vars and rhs_vars(a[2]) & abstracted_vars:
                            abstracted_vars.add(a[1])
                            changed = True
                reduced = [v for v in common if v not in abstracted_vars]
                try:
                    bad2 = compare_laws(seng, sd, eng, dd, src_vars, reduced, discrete, res) if reduced else None
                except (CapExceeded, Unsupported):
                    bad2 = None
                if bad2:
                    bad = bad2
                    abstracted_vars = None  # not explained by the abstraction
            if bad:
                n, msg = bad if isinstance(bad, tuple) else (None, str(bad))
                kind = "law-changed" if mode == "plain" else "aux-carries-information"
                v = {"kind": kind, "stage": st.name, "stage_index": st.index, "mode": mode, "n": n,
                     "detail": f"after pass #{st.index} {st.name} ({mode} run, settings {cfg}): {msg}"}
                v["key"] = diagnose.classify_stage_violation(case, v, st, stages, abstraction_explains=bool(abstracted_vars))
                res["violations"].append(v)
                first_bad = first_bad or st.name
                break
            compared += 1
        if first_bad:
            break  # later stages inherit the defect; name the first failing pass only
    res["extra"]["stages-compared"] = compared
    if compared == 0 and not res["violations"]:
        res.update(verdict="inconclusive", reason="refused" if refusal else "no-stage-comparable")
        return res
    res["nontrivial"] = compared >= 6 and (K.has_draw_or_choice(prog) or "if" in case["text"])
    res["verdict"] = "violated" if res["violations"] else "held"
    res["sample"] = {"program": case["text"], "settings": cfg, "stages_compared": compared,
                     "passes": [s.name for s in stages], "N": N, "mode": "exact joint law" if discrete else "mixed moments"}
    return res
