"""Worker subprocess: imports one check module, executes cases read as JSON lines from stdin, writes one
JSON result line per case to the original stdout (Polar's own prints are diverted)."""
import importlib
import io
import json
import os
import sys
import time
import traceback


def main():
    check_id, tier = sys.argv[1], sys.argv[2]
    out = os.fdopen(os.dup(1), "w")
    devnull = open(os.devnull, "w")
    os.dup2(devnull.fileno(), 1)
    sys.stdout = io.StringIO()
    sys.setrecursionlimit(20000)
    mod = importlib.import_module(f"polarmon.checks.{check_id.lower()}")
    if hasattr(mod, "worker_init"):
        mod.worker_init(tier)
    history = []
    for line in sys.stdin:
        line = line.strip()
        if not line:
            continue
        case = json.loads(line)
        t0 = time.time()
        sys.stdout = io.StringIO()
        try:
            res = mod.run_case(case, tier)
            if getattr(mod, "UNINIT_COUNTERFACTUAL", False) and any(v.get("key") is None for v in res.get("violations", [])):
                from . import diagnose
                diagnose.attribute_uninit(mod, case, res, tier)
        except BaseException as e:  # harness/oracle bug: never a verdict about Polar
            if isinstance(e, (KeyboardInterrupt, SystemExit)):
                raise
            if type(e).__name__ in ("CapExceeded", "Unsupported", "SoftTimeout") and "polarmon/ref/" in traceback.format_exc()[-700:]:
                # the reference engine declined (size cap / construct outside the oracle) somewhere the check did not guard
                res = {"verdict": "inconclusive", "reason": "oracle-" + type(e).__name__, "detail": str(e)[:100]}
            else:
                res = {"verdict": "inconclusive", "reason": "oracle-error:" + type(e).__name__,
                       "trace": traceback.format_exc()[-1500:]}
        res["wall"] = round(time.time() - t0, 3)
        res["history_len"] = len(history)
        history.append(case.get("id"))
        out.write(json.dumps(res, default=str) + "\n")
        out.flush()


if __name__ == "__main__":
    main()
