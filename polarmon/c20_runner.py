"""Executes a list of analyses sequentially in ONE fresh interpreter (as polar.main does for several benchmark
files) and prints one JSON line with the semantic summary of each: closed forms evaluated at n=0..N and at the
given parameter point, inferred types, refusals.  Used by C20: the same analysis after different histories /
under different PYTHONHASHSEED values must give the same summary."""
import json
import sys
import io
from fractions import Fraction


def state_fingerprint():
    """H14: process-global state an analysis can leave changed"""
    import settings
    from program.assignment import FunctionalAssignment
    from program.transformer.loop_guard_transformer import LoopGuardTransformer
    import utils.identifiers as ids
    fp = {k: getattr(settings, k) for k in dir(settings) if not k.startswith("_")}
    fp["FunctionalAssignment.exact_func_moments"] = FunctionalAssignment.exact_func_moments
    fp["LoopGuardTransformer.trivial_guard"] = LoopGuardTransformer.trivial_guard
    fp["unique_var_counter"] = ids._count_unique_var
    try:
        from utils.finite_power_reduction import get_reduced_powers
        fp["cache:get_reduced_powers"] = get_reduced_powers.cache_info().currsize
    except Exception:
        pass
    return {k: str(v) for k, v in fp.items()}


def analyse_cli(job):
    """one invocation of polar.main over several benchmark files (as `polar.py a.prob b.prob --goals ...`); returns the printed
    goal lines per benchmark"""
    import os, re, tempfile
    from polarmon import polar_api as P
    d = tempfile.mkdtemp(prefix="c20cli")
    paths = []
    try:
        for k, text in enumerate(job["cli"]["files"]):
            pth = os.path.join(d, f"f{k}.prob")
            with open(pth, "w") as f:
                f.write(text)
            paths.append(pth)
        argv = paths + ["--goals"] + job["cli"]["goals"]
        if job["cli"].get("at_n") is not None:
            argv += ["--at_n", str(job["cli"]["at_n"])]
        if job["cli"].get("invariants"):
            argv += ["--invariants"]
        try:
            out = P.run_cli(argv)
        except SystemExit:
            return {"id": job.get("id"), "cli_blocks": "SystemExit"}
        except Exception as e:
            return {"id": job.get("id"), "cli_blocks": "error:" + type(e).__name__}
        finally:
            P.reset_settings()
        out = re.sub(r"\x1b\[[0-9;]*m", "", out)
        blocks = out.split("- Analysis Result -")[1:]
        res = []
        for b in blocks:
            lines = [l.strip() for l in b.splitlines() if re.match(r"^(E\(|[a-z_]\w* = |[a-z_]\w* \| n=)", l.strip())]
            if job["cli"].get("invariants"):
                # the printed basis of the invariant ideal of this benchmark (a set: compared sorted)
                lines += sorted(l.strip() for l in b.split("Invariants")[-1].splitlines() if l.strip().endswith("= 0")) if "Invariants" in b else ["<no invariants section>"]
            res.append(lines)
        return {"id": job.get("id"), "cli_blocks": res}
    finally:
        import shutil
        shutil.rmtree(d, ignore_errors=True)


def analyse(job):
    from polarmon import polar_api as P
    from polarmon.checks import common as K
    if job.get("cli"):
        return analyse_cli(job)
    out = {"id": job.get("id"), "goals": {}, "types": None, "refusal": None}
    P.set_settings(**job.get("settings", {}))
    values = {k: Fraction(v[0], v[1]) for k, v in job.get("values", {}).items()}
    N = job.get("N", 4)
    try:
        program, rb = P.prepare(job["text"])
    except Exception as e:
        out["refusal"] = type(e).__name__
        out["refusal_where"] = P.refusal_key(e)
        return out
    if job.get("synth"):
        # ordered list of synthesized invariants (free parameters set to 1, overall sign normalised)
        try:
            import sympy
            from symengine import sympify as se
            from unsolvable_analysis import UnsolvInvSynthesizer
            sols = UnsolvInvSynthesizer.synth_inv([se(v) for v in job["synth"]["cand"]], job["synth"]["deg"], program)
            lst = []
            for c, f in (sols or []):
                c = sympy.sympify(c)
                c = c.xreplace({x: 1 for x in c.free_symbols if x.name.startswith("_")})
                # a solution family is only determined up to a constant factor: normalise to the primitive part with positive
                # leading coefficient
                c = sympy.expand(c)
                if c != 0:
                    c = sympy.Poly(c, *sorted(c.free_symbols, key=str)).primitive()[1].as_expr()
                    if sympy.Poly(c, *sorted(c.free_symbols, key=str)).LC() < 0:
                        c = -c
                lst.append(str(sympy.factor(c)))
            out["synth"] = lst
        except Exception as e:
            out["synth"] = "error:" + type(e).__name__
        return out
    src = set(job.get("source_vars", []))
    types_src, types_aux = {}, []
    for v, t in program.typedefs.items():
        vals = sorted(str(x) for x in getattr(t, "values", []))
        if str(v) in src:
            types_src[str(v)] = vals
        else:
            types_aux.append(vals)
    out["types"] = {"source": types_src, "aux": sorted(types_aux)}
    goals = job["goals"]
    order = job.get("goal_order", list(range(len(goals))))
    for gi in order:
        g = goals[gi]
        name = P.monom_str(g)
        try:
            cf, is_exact, recs = P.closed_form(program, rb, g)
        except Exception as e:
            out["goals"][name] = {"error": type(e).__name__}
            continue
        vals = []
        for n in range(N + 1):
            try:
                vals.append(P.val_str(P.eval_at(cf, n, values)))
            except P.Leftover as e:
                vals.append("leftover:" + ",".join(sorted(s if not s.startswith("_") else "_aux" for s in e.names)))
            except P.NotANumber as e:
                vals.append("nan")
        out["goals"][name] = {"values": vals, "is_exact": bool(is_exact)}
    if job.get("after_loop"):
        # the conditional sequence 'moment given termination' (cli.common), the quantity behind --after_loop
        try:
            from cli.common import get_moment_given_termination
            from cli import ArgumentParser
            from symengine.lib.symengine_wrapper import sympify as se
            args = ArgumentParser().get_defaults()
            solvers = {}
            term = {}
            for gi in order:
                g = goals[gi]
                name = P.monom_str(g)
                try:
                    seq, _ = get_moment_given_termination(se(name), solvers, rb, args, program)
                except Exception as e:
                    term[name] = {"error": type(e).__name__}
                    continue
                vals = []
                for n in range(N + 1):
                    try:
                        vals.append(P.val_str(P.eval_at(seq, n, values)))
                    except P.Leftover as e:
                        vals.append("leftover")
                    except P.NotANumber:
                        vals.append("nan")
                term[name] = vals
            out["termination"] = term
        except Exception as e:
            out["termination"] = "error:" + type(e).__name__
    if job.get("invariants"):
        try:
            import sympy
            from invariants import InvariantIdeal
            cfs = {}
            for gi in order:
                g = goals[gi]
                cf, _, _ = P.closed_form(program, rb, g)
                cfs[f"E({P.monom_str(g)})"] = cf
            basis = InvariantIdeal(cfs).compute_basis()
            out["invariants"] = sorted(str(sympy.expand(b)) for b in basis)
        except Exception as e:
            out["invariants"] = "error:" + type(e).__name__
    return out


def main():
    jobs = json.loads(sys.stdin.read())
    real_stdout = sys.stdout
    sys.stdout = io.StringIO()
    from polarmon import polar_api as P
    P.load()
    results = []
    for job in jobs:
        before = state_fingerprint()
        r = analyse(job)
        after = state_fingerprint()
        r["globals_changed"] = {k: [before[k], after[k]] for k in after if before.get(k) != after[k]}
        results.append(r)
    real_stdout.write(json.dumps(results) + "\n")
    real_stdout.flush()


if __name__ == "__main__":
    main()
