"""./check <Cxx> <quick|thorough> [--replay file] [--cases N] [--workers N]"""
import hashlib
import importlib
import json
import os
import sys
import time

from . import harness

ROOT = harness.ROOT


def load_known():
    p = os.path.join(ROOT, "known_findings.json")
    if not os.path.exists(p):
        return []
    with open(p) as f:
        return json.load(f).get("findings", [])


def validate_evidence(ev):
    req = ["property_id", "tier", "seed", "level", "coverage", "wall_s"]
    for k in req:
        assert k in ev, f"evidence lacks {k}"
    cov = ev["coverage"]
    for k in ("evaluations", "distinct_nontrivial", "rule", "samples"):
        assert k in cov, f"coverage lacks {k}"
    assert isinstance(cov["samples"], list)
    try:  # full schema validation when jsonschema is importable (it is in the tooling venv / .deps)
        import jsonschema
        with open("/root/.vp/EVIDENCE.schema.json") as f:
            jsonschema.validate(ev, json.load(f))
    except ImportError:
        pass
    except FileNotFoundError:
        pass


def merge_counts(dst, src):
    for k, v in (src or {}).items():
        dst[k] = dst.get(k, 0) + v


def main(argv=None):
    argv = list(sys.argv[1:] if argv is None else argv)
    if not argv:
        print(__doc__)
        return 2
    check_id = argv[0].upper()
    tier = "quick"
    replay = None
    ncases = None
    show = None
    nworkers = int(os.environ.get("VERIF_WORKERS", "16"))
    i = 1
    while i < len(argv):
        a = argv[i]
        if a in ("quick", "thorough"):
            tier = a
        elif a == "--replay":
            replay = argv[i + 1]
            i += 1
        elif a == "--cases":
            ncases = int(argv[i + 1])
            i += 1
        elif a == "--workers":
            nworkers = int(argv[i + 1])
            i += 1
        elif a == "--show":
            show = argv[i + 1]
            i += 1
        i += 1
    if not any(a in ("quick", "thorough") for a in argv[1:]):
        tier = os.environ.get("VERIF_TIER", tier)
    seed = int(os.environ.get("VERIF_SEED", "0"))
    mod = importlib.import_module(f"polarmon.checks.{check_id.lower()}")
    t0 = time.time()

    if replay:
        with open(replay) as f:
            rp = json.load(f)
        cases = [rp["case"]]
        tier = rp.get("tier", tier)
    else:
        cases = mod.generate(seed, tier)
        if ncases is not None:
            cases = cases[:ncases]
    lf = harness.load_factor()
    timeout = mod.TIMEOUT[tier] * lf
    deadline = float(os.environ.get("VERIF_DEADLINE", mod.DEADLINE[tier])) * lf  # env override for development sweeps only
    env_extra = dict(getattr(mod, "WORKER_ENV", None) or {})
    env_extra["VERIF_LOAD_FACTOR"] = str(lf)
    results = harness.run_cases(check_id, tier, cases, timeout, nworkers=nworkers, deadline_s=deadline,
                                env_extra=env_extra, progress=bool(os.environ.get("VERIF_PROGRESS")),
                                timeout_scale=lf, min_deciding=(mod.MIN_DECIDING[tier] if not replay and ncases is None else 0))

    known = [k for k in load_known() if check_id in k.get("properties", [k.get("property")]) and k.get("status") == "open"]
    known_keys = {k["key"]: k for k in known}

    verdicts = {"held": 0, "violated": 0, "inconclusive": 0}
    inconc = {}
    events, features, refusals, kf_seen = {}, {}, {}, {}
    comparisons = 0
    nontrivial_fps = set()
    samples = []
    new_violations = []
    oracle_errors = []
    extra = {}
    for case, res in results:
        if res is None:
            res = {"verdict": "inconclusive", "reason": "no-result"}
        if show is not None:
            line = f"{case.get('id')} {res.get('verdict')} {res.get('reason','')} {res.get('refusal','')} {res.get('refusals','')} {res.get('detail','')} wall={res.get('wall')}"
            if show in line:
                print("----", line)
                print(case.get("text", json.dumps({k: v for k, v in case.items() if k not in ('ast',)}, default=str))[:2500])
                for v in res.get("violations", []):
                    print("   VIOL", v.get("kind"), v.get("key"), str(v.get("detail"))[:500])
        v = res.get("verdict", "inconclusive")
        verdicts[v] = verdicts.get(v, 0) + 1
        if v == "inconclusive":
            r = res.get("reason", "?")
            inconc[r] = inconc.get(r, 0) + 1
            if r.startswith("oracle-error"):
                oracle_errors.append((case.get("id"), res.get("trace", "")))
        merge_counts(events, res.get("events"))
        merge_counts(extra, res.get("extra"))
        for ft in res.get("features", []):
            features[ft] = features.get(ft, 0) + 1
        for rf in res.get("refusals", []) or ([res["refusal"]] if res.get("refusal") else []):
            refusals[rf] = refusals.get(rf, 0) + 1
        comparisons += res.get("comparisons", 0)
        if v in ("held", "violated") and res.get("nontrivial"):
            nontrivial_fps.add(res.get("fingerprint", case.get("id")))
        if v == "held" and res.get("sample") is not None and len(samples) < 4 and res.get("nontrivial"):
            samples.append(res["sample"])
        for viol in res.get("violations", []):
            key = viol.get("key")
            if key and key in known_keys:
                kf_seen[key] = kf_seen.get(key, 0) + 1
            else:
                new_violations.append((case, viol))

    # verdict
    rc = 0
    # one line per listed open finding of this property, observed in this run or not (the count says which)
    for key in sorted(known_keys):
        cnt = kf_seen.get(key, 0)
        print(f"KNOWN-FINDING: property={check_id} {known_keys[key]['what']} [key={key}; seen {cnt}x in this run]")
    replay_dir = os.path.join(ROOT, "replays", check_id)
    seen_sig = set()
    for case, viol in new_violations:
        sig = (viol.get("key"), viol.get("kind"))
        blob = json.dumps({"check": check_id, "tier": tier, "seed": seed, "case": case, "violation": viol}, indent=1, default=str)
        h = hashlib.sha256(blob.encode()).hexdigest()[:12]
        os.makedirs(replay_dir, exist_ok=True)
        path = os.path.join(replay_dir, f"{h}.json")
        if len(seen_sig) < 40 or sig not in seen_sig:
            with open(path, "w") as f:
                f.write(blob)
            print(f"VIOLATION property={check_id} replay={path}")
            print(f"  kind={viol.get('kind')} key={viol.get('key')} :: {str(viol.get('detail'))[:300]}")
        seen_sig.add(sig)
        rc = 1
    deciding = verdicts["held"] + verdicts["violated"]
    min_dec = mod.MIN_DECIDING[tier] if not replay and ncases is None else 1
    if rc == 0 and deciding < min_dec:
        print(f"INCONCLUSIVE property={check_id} deciding monitor reached on {deciding} cases (< {min_dec}); reasons={inconc}")
        rc = 2
    if oracle_errors:
        print(f"NOTE {len(oracle_errors)} oracle/harness errors (counted inconclusive); first: {oracle_errors[0][0]}\n{oracle_errors[0][1][-600:]}")
        if len(oracle_errors) > max(2, len(results) // 10) and rc == 0:
            print(f"INCONCLUSIVE property={check_id} too many oracle errors")
            rc = 2

    wall = time.time() - t0
    if not samples:
        for case, res in results:
            if res and res.get("sample") is not None:
                samples.append(res["sample"])
                if len(samples) >= 2:
                    break
    ev = {
        "property_id": check_id,
        "tier": tier,
        "seed": seed,
        "level": "exploration",
        "coverage": {
            "evaluations": len(results),
            "distinct_nontrivial": len(nontrivial_fps),
            "rule": mod.RULE,
            "samples": samples or [{"note": "no sample available"}],
            "verdicts": verdicts,
            "comparisons": comparisons,
            "monitor_events": events,
            "features": dict(sorted(features.items())),
            "refusals": dict(sorted(refusals.items(), key=lambda kv: -kv[1])[:40]),
            "inconclusive": inconc,
            "known_findings_seen": kf_seen,
            "exhaustive": False,
            "load_factor": lf,
            "case_timeout_s": round(timeout, 1),
            "deadline_s": round(deadline, 1),
        },
        "assumptions": getattr(mod, "ASSUMPTIONS", []),
        "wall_s": round(wall, 2),
        "violations": len(new_violations),
    }
    if extra:
        ev["coverage"]["extra"] = extra
    if not replay:
        try:
            validate_evidence(ev)
        except Exception as e:  # an invalid evidence file is reported, never hidden; the verdict above stands
            print(f"NOTE evidence file does not validate: {str(e)[:200]}")
        # VERIF_EVIDENCE_DIR: development runs against a patched scratch tree (tools/seedrun.py --worktree) write elsewhere,
        # so that evidence/ only ever holds what a run against /repo itself produced
        evdir = os.environ.get("VERIF_EVIDENCE_DIR") or os.path.join(ROOT, "evidence")
        os.makedirs(evdir, exist_ok=True)
        with open(os.path.join(evdir, f"{check_id}.json"), "w") as f:
            json.dump(ev, f, indent=1, default=str)
    print(f"{check_id} {tier} seed={seed}: cases={len(results)} held={verdicts['held']} violated={verdicts['violated']} "
          f"inconclusive={verdicts['inconclusive']} {inconc} comparisons={comparisons} distinct_nontrivial={len(nontrivial_fps)} "
          f"wall={wall:.1f}s rc={rc}")
    return rc


if __name__ == "__main__":
    sys.exit(main())
