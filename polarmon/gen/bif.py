"""Generator of Bayesian networks and BIF texts for C15 (pure Python, no Polar import).

A network *spec* is JSON-serialisable:
  {"netname": str,
   "vars": [ {"name": str, "domain": [str..], "parents": [name..], "rows": [[dec, ..] ..]} .. ]}   # topological order
`rows` is aligned with itertools.product(*parent domains) (first parent slowest) and every `dec` is a canonical
decimal string ("0.25"), so the CPT is exact.  `render(spec, mode, rng)` writes the network as BIF text in one of the
notations of bayesnet/bif-syntax.lark: table (own value slowest, parents in product order), default + entries,
entries only, and mixed (default overwritten by table overwritten by entries, attributes in any textual order).
`negatives(spec, rng, tol)` returns mutated documents with the expected acceptance outcome.
"""
import itertools
import random
from fractions import Fraction

# ------------------------------------------------------------------ names
PLAIN_NAMES = ["rain", "sprinkler", "wet", "smoke", "lung", "bronc", "xray", "dysp", "alarm", "burglary", "tub",
               "either", "asia", "age", "sex", "job", "travel", "grade", "x", "y", "z", "a", "b", "c", "s", "t", "q",
               "o", "i", "v1", "v2", "node3", "lambda", "sin", "exp", "normal", "in", "max"]
# names that need sanitising (upper case, '-', digits, '_')
MESSY_NAMES = ["Pollution", "Smoker", "Cancer", "Xray", "Dyspnoea", "JohnCalls", "MaryCalls", "ASIA-ViS1t", "tub-er",
               "DYSP", "HISTORY", "CVP", "PCWP", "LVED-VOLUME", "Stroke_Volume", "ERR-LOW-OUTPUT", "HR_EKG", "A", "S",
               "O", "R", "T", "N", "I", "Q", "X-1", "X_1", "V-2-b", "Node-7", "K9", "a-", "b--c", "P_", "G_0", "Bernoulli",
               "Normal", "Count", "Continue", "Ind_x", "Inf_x", "PKA", "P38", "Mek", "Akt-1"]
# groups that collide after sanitising (lower case, everything but [A-Za-z0-9_] removed)
COLLIDING = [["ASIA", "asia"], ["Tub-er", "tuber"], ["X-1", "X1", "x1"], ["A-B", "AB", "ab"], ["Smoke", "smoke", "SMOKE"],
             ["lung", "Lung-"], ["count", "Count"], ["H-R", "HR", "hr1"], ["ab", "A-B", "ab1", "ab2", "ab3"],
             ["V_1", "v_1"], ["aSiAvIs1t", "ASIA-ViS1t", "asiavis1t"]]
# names colliding with the helper variables of the queries (count / continue / ind_<t> / inf_<t>)
HELPER_LIKE = ["count", "continue", "Count", "CONTINUE", "count1", "continue7"]
# sanitised name is a constant of symengine/sympy (Polar's parser turns it into the constant)
CONSTANT_NAMES = ["E", "Pi", "PI", "e", "pi", "oo", "zoo", "nan", "NaN", "OO"]
# sanitised name is a keyword of the .prob grammar (Polar's parser refuses the generated program)
KEYWORD_NAMES = ["If", "End", "True", "While", "Else", "types", "FALSE", "elif"]

PLAIN_VALUES = [["yes", "no"], ["true", "false"], ["low", "medium", "high"], ["a", "b", "c", "d"], ["young", "adult", "old"],
                ["T", "F"], ["car", "train", "other"], ["s0", "s1", "s2", "s3"], ["LOW", "NORMAL", "HIGH", "VERYHIGH"]]
MESSY_VALUES = [["has-visited", "no-visit"], ["0", "1", "2", "3"], ["<5", "5-10", ">10", "+inf"], ["True", "False"],
                ["1", "0"], ["a.b", "a_b", "a-b", "a/b"], ["0.5", "1.5", "2.5"], ["x*", "y*", "z*"], ["-1", "+1"],
                ["V_1", "v_1", "V-1", "v-1"], ["yes", "Yes", "YES"], ["3", "2", "1", "0"], ["<1/2", ">1/2"]]


def _dec(units, d):
    """canonical decimal string of units / 10**d (at least one digit after the point, no trailing zeros)"""
    s = 10 ** d
    ip, fp = divmod(units, s)
    frac = f"{fp:0{d}d}".rstrip("0") if d else ""
    return f"{ip}.{frac or '0'}"


def dec_to_frac(s):
    return Fraction(s)


def frac_to_dec(fr):
    """exact decimal string of a Fraction whose denominator divides a power of ten"""
    d = 0
    while (fr * 10 ** d).denominator != 1:
        d += 1
        if d > 30:
            raise ValueError("not a decimal fraction")
    return _dec(int(fr * 10 ** d), d)


def random_row(rng, k, style=None):
    """k exact decimals summing to 1"""
    style = style or rng.choice(["coarse", "coarse", "fine", "fine", "det", "zeros", "tiny", "uniformish"])
    if style == "det":
        j = rng.randrange(k)
        return ["1.0" if i == j else "0.0" for i in range(k)]
    if style == "tiny":
        d = rng.choice([5, 6, 7])
        s = 10 ** d
        units = [0] * k
        j = rng.randrange(k)
        units[j] = rng.choice([1, 2, 5, 13])
        rest = s - units[j]
        others = [i for i in range(k) if i != j]
        cuts = sorted(rng.randrange(0, rest + 1) for _ in range(len(others) - 1))
        parts = [b - a for a, b in zip([0] + cuts, cuts + [rest])]
        for i, p in zip(others, parts):
            units[i] = p
        return [_dec(u, d) for u in units]
    d = {"coarse": rng.choice([1, 1, 2]), "fine": rng.choice([3, 4, 6]), "zeros": rng.choice([1, 2]),
         "uniformish": 2}[style]
    s = 10 ** d
    if style == "uniformish":
        base = s // k
        units = [base] * k
        units[rng.randrange(k)] += s - base * k
    else:
        lo = 0 if style == "zeros" else 1
        while True:
            w = [rng.random() ** rng.choice([1, 2, 3]) for _ in range(k)]
            if style == "zeros":
                w[rng.randrange(k)] = 0.0
            tot = sum(w) or 1.0
            units = [int(s * x / tot) for x in w]
            units[rng.randrange(k)] += s - sum(units)
            if all(u >= lo for u in units) and sum(units) == s:
                if style != "zeros" and min(units) == 0:
                    continue
                break
    return [_dec(u, d) for u in units]


def pick_names(rng, n, profile):
    """n distinct BIF identifiers; returns (names, features)"""
    feats = set()
    names = []

    def add(x):
        if x not in names:
            names.append(x)

    if profile == "constname":
        add(rng.choice(CONSTANT_NAMES))
        feats.add("name-constant")
    elif profile == "keyword":
        add(rng.choice(KEYWORD_NAMES))
        feats.add("name-keyword")
    if profile in ("collide", "messy", "constname", "keyword") and rng.random() < (0.9 if profile == "collide" else 0.3):
        grp = rng.choice(COLLIDING)
        for x in rng.sample(grp, min(len(grp), rng.choice([2, 2, 3]), max(1, n - len(names)))):
            add(x)
        feats.add("name-collision")
    if profile != "plain" and rng.random() < 0.25:
        add(rng.choice(HELPER_LIKE))
        feats.add("name-helper-like")
    pool = PLAIN_NAMES if profile == "plain" else (MESSY_NAMES + PLAIN_NAMES[:12])
    guard = 0
    while len(names) < n:
        x = rng.choice(pool)
        guard += 1
        if guard > 200:
            x = f"v{len(names)}x{guard}"
        # avoid accidental collisions/constants/keywords outside their profile
        sx = sanitise(x)
        if any(sanitise(y) == sx for y in names):
            continue
        if sx in SANITISED_CONSTANTS or sx in SANITISED_KEYWORDS:
            continue
        add(x)
    names = names[:n]
    rng.shuffle(names)
    if any(x != sanitise(x) for x in names):
        feats.add("name-needs-sanitising")
    return names, feats


def sanitise(name):
    """what a reader of code_generator.__generate_mapping__ expects before uniquifying (used for feature tagging only)"""
    import re
    return re.sub("[^A-Za-z0-9_]+", "", name.lower())


SANITISED_CONSTANTS = {"e", "pi", "oo", "zoo", "nan"}
SANITISED_KEYWORDS = {"if", "end", "true", "false", "while", "else", "elif", "types"}


def gen_spec(rng, tier="quick", profile=None):
    """random DAG + CPTs.  returns (spec, features)"""
    profile = profile or rng.choice(["plain", "messy", "messy", "messy", "collide", "collide"])
    n = rng.choice([2, 3, 3, 4, 4, 5, 5, 6] if tier == "quick" else [2, 3, 3, 4, 4, 5, 5, 6, 6, 7])
    names, feats = pick_names(rng, n, profile)
    feats.add(f"profile-{profile}")
    vars_ = []
    # keep the joint small enough for Polar: cap the product of domain sizes
    cap = 700 if tier == "quick" else 1600
    # Polar's analysis time is governed by the largest CPT (rows = product of the parents' domain sizes):
    # <= 8 rows: < 4 s, 12 rows: ~7-25 s, >= 16 rows: minutes
    if tier == "quick":
        max_rows = rng.choice([8, 8, 8, 8, 9])
    else:
        max_rows = rng.choice([8, 8, 9, 9, 12, 12, 12, 16])
    prod = 1
    for i, nm in enumerate(names):
        k = rng.choice([2, 2, 2, 3, 3, 4])
        while prod * k * (2 ** (n - i - 1)) > cap and k > 2:
            k -= 1
        prod *= k
        pool = rng.choice(MESSY_VALUES if (profile != "plain" and rng.random() < 0.5) else PLAIN_VALUES)
        pool = [x for x in pool]
        if len(pool) < k:
            pool = pool + [f"w{j}" for j in range(k)]
        if rng.random() < 0.5:
            dom = pool[:k]
        else:
            dom = rng.sample(pool, k)
        if i == 0:
            npar = 0
        else:
            npar = min(i, rng.choice([0, 1, 1, 1, 2, 2, 3]))
        # limit CPT size
        cands = list(range(i))
        rng.shuffle(cands)
        parents = []
        rows_n = 1
        for c in cands:
            if len(parents) >= npar:
                break
            if rows_n * len(vars_[c]["domain"]) > max_rows:
                continue
            parents.append(c)
            rows_n *= len(vars_[c]["domain"])
        pnames = [vars_[c]["name"] for c in parents]
        pool_rows = None
        if rows_n > 1 and rng.random() < 0.45:
            pool_rows = [random_row(rng, k) for _ in range(rng.choice([1, 2, 2, 3]))]
        rows = []
        for _ in range(rows_n):
            rows.append(list(rng.choice(pool_rows)) if pool_rows else random_row(rng, k))
        vars_.append({"name": nm, "domain": dom, "parents": pnames, "rows": rows})
        feats.add(f"parents-{len(pnames)}")
        feats.add(f"domain-{k}")
    feats.add(f"vars-{n}")
    if any(any(0 < Fraction(x) < Fraction(1, 10 ** 4) for x in r) for v in vars_ for r in v["rows"]):
        feats.add("tiny-probabilities")
    if any(any(Fraction(x) == 0 for x in r) for v in vars_ for r in v["rows"]):
        feats.add("zero-probabilities")
    netname = rng.choice(["unknown", "net", "Bayes-Net_1", "G", "asia"])
    return {"netname": netname, "vars": vars_}, sorted(feats)


# ------------------------------------------------------------------ oracle-side helpers on specs
def spec_index(spec):
    return {v["name"]: v for v in spec["vars"]}


def parent_combos(spec, var):
    idx = spec_index(spec)
    return list(itertools.product(*[idx[p]["domain"] for p in var["parents"]]))


def joint(spec):
    """dict: tuple of value indices (in spec var order) -> Fraction (only positive entries)"""
    idx = {v["name"]: i for i, v in enumerate(spec["vars"])}
    vs = spec["vars"]
    doms = [len(v["domain"]) for v in vs]
    out = {}
    # spec order is topological
    cpts = []
    for v in vs:
        pi = [idx[p] for p in v["parents"]]
        pd = [doms[j] for j in pi]
        rows = [[Fraction(x) for x in r] for r in v["rows"]]
        cpts.append((pi, pd, rows))
    for assign in itertools.product(*[range(d) for d in doms]):
        p = Fraction(1)
        for vi, (pi, pd, rows) in enumerate(cpts):
            r = 0
            for j, d in zip(pi, pd):
                r = r * d + assign[j]
            p *= rows[r][assign[vi]]
            if p == 0:
                break
        if p != 0:
            out[assign] = p
    return out


def sample_positive_assignment(rng, spec):
    """an assignment (value indices) with positive probability (ancestral sampling over positive entries)"""
    idx = {v["name"]: i for i, v in enumerate(spec["vars"])}
    doms = [len(v["domain"]) for v in spec["vars"]]
    a = []
    for vi, v in enumerate(spec["vars"]):
        r = 0
        for p in v["parents"]:
            r = r * doms[idx[p]] + a[idx[p]]
        row = [Fraction(x) for x in v["rows"][r]]
        pos = [i for i, x in enumerate(row) if x > 0]
        a.append(rng.choice(pos))
    return a


def gen_queries(rng, spec, tier="quick", count=3):
    """evidence sets (with positive probability) and target powers, as CLI strings"""
    qs = []
    vs = spec["vars"]
    n = len(vs)
    for j in range(count):
        a = sample_positive_assignment(rng, spec)
        m = min(n, rng.choice([1, 1, 2, 2, 3]))
        ev_idx = rng.sample(range(n), m)
        if rng.random() < 0.15:
            ev_idx.append(ev_idx[0])  # repeated evidence (same value) is a legal conjunction
        ev = [(vs[i]["name"], vs[i]["domain"][a[i]]) for i in ev_idx]
        # values containing '=' cannot be written in a query string (none are generated)
        sep_eq = rng.choice([" = ", "=", " =", "= "])
        sep_c = rng.choice([", ", ",", " , "])
        evs = sep_c.join(f"{x}{sep_eq}{y}" for x, y in ev)
        if j % 2 == 0:
            t = rng.randrange(n)
            k = rng.choice([1, 2, 2, 3] if tier == "quick" else [1, 2, 3, 3, 4])
            tgt = vs[t]["name"] + (f"**{k}" if (k > 1 or rng.random() < 0.3) else "")
            qs.append({"type": "exact", "target": vs[t]["name"], "power": k, "evidence": ev,
                       "string": f"{tgt} {rng.choice(['|', ' | ', '|  '])} {evs}"})
        else:
            qs.append({"type": "time", "evidence": ev, "string": evs})
    return qs


# ------------------------------------------------------------------ documents
def _fmt_num(rng, dec, plain=False):
    """a FLOAT spelling of the canonical decimal string with the same value"""
    if plain:
        return dec
    r = rng.random()
    fr = Fraction(dec)
    if r < 0.6:
        return dec
    if r < 0.7:
        return dec + rng.choice(["0", "00"])
    if r < 0.78 and dec.startswith("0.") and dec != "0.0":
        return dec[1:]                       # .25
    if r < 0.84 and dec.endswith(".0"):
        return dec[:-1]                      # 1.
    if r < 0.94 and fr != 0:
        ip, fp = dec.split(".")
        d = len(fp)
        units = int(ip + fp)
        return f"{units}{rng.choice(['e', 'E'])}-{d}"          # 25e-2  (INT _EXP)
    if fr != 0:
        ip, fp = dec.split(".")
        d = len(fp)
        units = int(ip + fp)
        return f"{units}.0{rng.choice(['e', 'E'])}-{d:02d}"    # 25.0E-02
    return dec


def build_doc(spec, mode, rng):
    """document = {"netname", "netprops", "vars": [{name, domain, props}], "probs": [{name, parents, attrs, eff}], ...}
    attrs: list of ["table", [dec..]] | ["default", [dec..]] | ["entry", [values..], [dec..]]
    eff[row] = index into attrs of the attribute that determines this row.
    mode: 'table' | 'entries' | 'default' | 'mixed'"""
    idx = spec_index(spec)
    probs = []
    for v in spec["vars"]:
        k = len(v["domain"])
        combos = parent_combos(spec, v)
        rows = v["rows"]
        nrows = len(rows)
        m = mode
        if m == "mixed":
            m = rng.choice(["table", "entries", "default", "full", "table+entries", "default+table"])
        if not v["parents"]:
            # entries are impossible without parents (value_list needs >= 1 value)
            m = {"entries": rng.choice(["table", "default"]), "default": "default", "table": "table",
                 "full": "default+table", "table+entries": "table", "default+table": "default+table"}[m]
        attrs = []
        eff = [None] * nrows

        def table_of(rs):
            return [rs[r][i] for i in range(k) for r in range(nrows)]

        if m == "table":
            attrs.append(["table", table_of(rows)])
            eff = [0] * nrows
        elif m == "entries":
            order = list(range(nrows))
            rng.shuffle(order)
            for r in order:
                attrs.append(["entry", list(combos[r]), list(rows[r])])
                eff[r] = len(attrs) - 1
        elif m == "default":
            # default = most frequent row; entries for the others (+ some redundant ones)
            cnt = {}
            for r in rows:
                cnt[tuple(r)] = cnt.get(tuple(r), 0) + 1
            best = max(cnt.items(), key=lambda kv: (kv[1], kv[0]))[0]
            if rng.random() < 0.3:
                best = tuple(rng.choice(rows))
            attrs.append(["default", list(best)])
            users = [r for r in range(nrows) if tuple(rows[r]) == best]
            keep_default = set(users)
            # some rows equal to the default may nevertheless get an explicit entry, but keep >= 1 user
            for r in users[1:]:
                if rng.random() < 0.25:
                    keep_default.discard(r)
            order = [r for r in range(nrows) if r not in keep_default]
            rng.shuffle(order)
            for r in range(nrows):
                if r in keep_default:
                    eff[r] = 0
            for r in order:
                attrs.append(["entry", list(combos[r]), list(rows[r])])
                eff[r] = len(attrs) - 1
        elif m == "default+table":
            attrs.append(["default", random_row(rng, k)])   # fully overwritten by the table
            attrs.append(["table", table_of(rows)])
            eff = [1] * nrows
        elif m in ("full", "table+entries"):
            # table with some rows replaced by other valid rows, which the entries then overwrite
            over = [r for r in range(nrows) if rng.random() < 0.5] or [rng.randrange(nrows)]
            trs = [list(r) for r in rows]
            for r in over:
                if rng.random() < 0.8:
                    trs[r] = random_row(rng, k)
            if m == "full":
                attrs.append(["default", random_row(rng, k)])
            attrs.append(["table", table_of(trs)])
            ti = len(attrs) - 1
            eff = [ti] * nrows
            rng.shuffle(over)
            for r in over:
                attrs.append(["entry", list(combos[r]), list(rows[r])])
                eff[r] = len(attrs) - 1
        else:
            raise AssertionError(m)
        # textual order of the attributes is irrelevant for the assembly (default, then table, then entries)
        if rng.random() < 0.35 and len(attrs) > 1:
            perm = list(range(len(attrs)))
            rng.shuffle(perm)
            inv = {old: new for new, old in enumerate(perm)}
            attrs = [attrs[old] for old in perm]
            eff = [inv[e] for e in eff]
        probs.append({"name": v["name"], "parents": list(v["parents"]), "attrs": attrs, "eff": eff, "mode": m,
                      # a `property` line inside a probability block is in the grammar, but bayesnet/transformer.py
                      # (__add_cpt__: `else: assert False`) dies with AssertionError on it -> not generated
                      "props": []})
    vorder = list(range(len(spec["vars"])))
    porder = list(range(len(spec["vars"])))
    if rng.random() < 0.7:
        rng.shuffle(vorder)
    if rng.random() < 0.7:
        rng.shuffle(porder)
    doc = {
        "netname": spec["netname"],
        "netprops": rng.choice([[], [], ["version 2.0"], ["version 2.0", "author generator"]]),
        "vars": [{"name": spec["vars"][i]["name"], "domain": list(spec["vars"][i]["domain"]),
                  "props": ["position = (10, 20)"] if rng.random() < 0.15 else []} for i in vorder],
        "probs": [probs[i] for i in porder],
        "interleave": rng.random() < 0.3,
        "style_seed": rng.randrange(1 << 30),
    }
    return doc


def doc_text(doc):
    """serialise a document (formatting choices are derived from doc['style_seed'])"""
    rng = random.Random(doc["style_seed"])
    plain = rng.random() < 0.3

    def sep():
        return rng.choice([", ", ", ", " ", " | ", ","]) if not plain else ", "

    def nums(xs):
        out = ""
        for i, x in enumerate(xs):
            if i:
                out += sep()
            out += _fmt_num(rng, x, plain)
        return out

    def vals(xs):
        out = ""
        for i, x in enumerate(xs):
            if i:
                out += rng.choice([", ", ", ", " ", " | "]) if not plain else ", "
            out += x
        return out

    def comment():
        if plain or rng.random() > 0.12:
            return ""
        return rng.choice([" // a comment; with table 0.1 0.9", " /* block\n comment */"])

    blocks = []
    head = ""
    if rng.random() < 0.2 and not plain:
        head = "/* generated network */\n"
    nb = "network " + doc["netname"] + " {\n" + "".join(f"  property {p};\n" for p in doc["netprops"]) + "}\n"
    vblocks = []
    for v in doc["vars"]:
        lines = [f"  type discrete [ {len(v['domain'])} ] {{ {vals(v['domain'])} }};{comment()}\n"]
        for p in v["props"]:
            lines.insert(rng.randrange(len(lines) + 1), f"  property {p};\n")
        vblocks.append(f"variable {v['name']} {{\n" + "".join(lines) + "}\n")
    pblocks = []
    for p in doc["probs"]:
        hdr = p["name"]
        if p["parents"]:
            hdr += " | " + ", ".join(p["parents"]) if rng.random() < 0.8 or plain else " " + " ".join(p["parents"])
        lines = []
        for a in p["attrs"]:
            if a[0] == "table":
                lines.append(f"  table {nums(a[1])};{comment()}\n")
            elif a[0] == "default":
                lines.append(f"  default {nums(a[1])};{comment()}\n")
            else:
                lines.append(f"  ({vals(a[1])}) {nums(a[2])};{comment()}\n")
        for pr in p.get("props", []):
            lines.insert(rng.randrange(len(lines) + 1), f"  property {pr};\n")
        pblocks.append(f"probability ( {hdr} ) {{\n" + "".join(lines) + "}\n")
    if doc.get("interleave"):
        blocks = vblocks + pblocks
        rng.shuffle(blocks)
    else:
        blocks = vblocks + pblocks
    return head + nb + "".join(blocks)


def render(spec, mode, rng):
    doc = build_doc(spec, mode, rng)
    return doc_text(doc), doc


# ------------------------------------------------------------------ negative space / tolerance
def _row_of_attr(doc_prob, spec, row, k):
    """(attr, positions) : positions of the k probabilities of CPT row `row` inside its effective attribute"""
    a = doc_prob["attrs"][doc_prob["eff"][row]]
    nrows = len(doc_prob["eff"])
    if a[0] == "table":
        return a, a[1], [row + i * nrows for i in range(k)]
    if a[0] == "default":
        return a, a[1], list(range(k))
    return a, a[2], list(range(k))


def mutations(spec, rng, tol_dec, count=6):
    """list of {"kind", "expect": 'reject'|'accept'|'either', "text", "detail", ["spec": perturbed spec]}.
    Only *effective* rows are perturbed (a row that is overwritten later is never touched), so the expected
    outcome follows from the property text alone."""
    tol = Fraction(tol_dec)
    out = []
    idx = spec_index(spec)
    kinds = ["sum-accept", "sum-accept", "sum-reject", "sum-reject", "missing-entry", "short-row", "long-row",
             "table-short", "table-long", "dup-entry-bad", "dup-entry-same", "short-condition", "missing-cpt",
             "sum-reject-big"]
    rng.shuffle(kinds)
    tries = 0
    while len(out) < count and tries < 60:
        kind = kinds[tries % len(kinds)]
        tries += 1
        mode = rng.choice(["table", "entries", "default", "mixed"])
        if kind in ("missing-entry", "dup-entry-bad", "dup-entry-same", "short-condition"):
            mode = rng.choice(["entries", "default", "mixed"])
        if kind in ("table-short", "table-long"):
            mode = rng.choice(["table", "mixed"])
        doc = build_doc(spec, mode, rng)
        pi = rng.randrange(len(doc["probs"]))
        p = doc["probs"][pi]
        v = idx[p["name"]]
        k = len(v["domain"])
        nrows = len(v["rows"])
        detail = None
        expect = "reject"
        newspec = None
        if kind.startswith("sum-"):
            row = rng.randrange(nrows)
            a, arr, pos = _row_of_attr(p, spec, row, k)
            if kind == "sum-accept":
                delta = tol * rng.choice([Fraction(1, 2), Fraction(1, 10), Fraction(9, 10), Fraction(1, 100)])
                expect = "accept"
            elif kind == "sum-reject":
                delta = tol * rng.choice([Fraction(2), Fraction(11, 10), Fraction(3, 2), Fraction(10)])
            else:
                delta = rng.choice([Fraction(1, 10), Fraction(1, 2), Fraction(1)])
                if delta <= tol:
                    continue
            sign = rng.choice([1, -1])
            j = rng.randrange(k)
            cur = Fraction(arr[pos[j]])
            if sign < 0 and cur - delta < 0:
                js = [jj for jj in range(k) if Fraction(arr[pos[jj]]) - delta >= 0]
                if not js:
                    sign = 1
                else:
                    j = rng.choice(js)
                    cur = Fraction(arr[pos[j]])
            newv = cur + sign * delta
            arr[pos[j]] = frac_to_dec(newv)
            detail = f"{a[0]} row {row} of {p['name']}: value {j} {frac_to_dec(cur)} -> {arr[pos[j]]} (delta {'+' if sign > 0 else '-'}{frac_to_dec(delta)}, tol {tol_dec})"
            if expect == "accept":
                # every row determined by the same attribute positions changes (default: all its users)
                newspec = {"netname": spec["netname"], "vars": []}
                for vv in spec["vars"]:
                    vv2 = {"name": vv["name"], "domain": list(vv["domain"]), "parents": list(vv["parents"]),
                           "rows": [list(r) for r in vv["rows"]]}
                    if vv["name"] == p["name"]:
                        for r in range(nrows):
                            if a[0] == "default" and p["eff"][r] == p["eff"][row] or r == row:
                                vv2["rows"][r][j] = arr[pos[j]]
                    newspec["vars"].append(vv2)
        elif kind == "missing-entry":
            # drop an attribute that is the only source of >= 1 row, leaving that row unspecified
            if not v["parents"]:
                continue
            cands = [ai for ai, a in enumerate(p["attrs"]) if a[0] in ("entry", "default") and ai in p["eff"]]
            # the row must not be covered by an earlier layer (default/table) once the attribute is gone
            has_table = any(a[0] == "table" for a in p["attrs"])
            has_default = any(a[0] == "default" for a in p["attrs"])
            ok = []
            for ai in cands:
                a = p["attrs"][ai]
                if a[0] == "entry" and not has_table and not has_default:
                    ok.append(ai)
                if a[0] == "default" and not has_table:
                    ok.append(ai)
            if not ok:
                continue
            ai = rng.choice(ok)
            gone = p["attrs"][ai]
            p["attrs"] = [a for i, a in enumerate(p["attrs"]) if i != ai]
            detail = f"{p['name']}: removed {gone[0]} {gone[1] if gone[0] == 'entry' else ''} (no default/table covers its rows)"
        elif kind in ("short-row", "long-row"):
            has_table = any(a[0] == "table" for a in p["attrs"])
            has_default = any(a[0] == "default" for a in p["attrs"])
            # only rows that nothing else covers: the malformed row is then the only specification of a CPT row
            cands = [ai for ai, a in enumerate(p["attrs"]) if ai in p["eff"] and not has_table
                     and (a[0] == "default" or (a[0] == "entry" and not has_default))]
            if not cands:
                continue
            ai = rng.choice(cands)
            a = p["attrs"][ai]
            arr = a[2] if a[0] == "entry" else a[1]
            if kind == "long-row":
                arr.insert(rng.randrange(len(arr) + 1), "0.0")
                detail = f"{p['name']}: {a[0]} has {k + 1} probabilities (sum still 1) for a domain of size {k}"
            else:
                j = rng.randrange(k)
                x = Fraction(arr.pop(j))
                jj = rng.randrange(k - 1)
                arr[jj] = frac_to_dec(Fraction(arr[jj]) + x)
                detail = f"{p['name']}: {a[0]} has {k - 1} probabilities (sum still 1) for a domain of size {k}"
        elif kind in ("table-short", "table-long"):
            cands = [ai for ai, a in enumerate(p["attrs"]) if a[0] == "table" and ai in p["eff"]]
            if not cands:
                continue
            a = p["attrs"][cands[0]]
            if kind == "table-short":
                n_drop = rng.choice([1, 1, k, nrows])
                n_drop = min(n_drop, len(a[1]) - 1)
                del a[1][len(a[1]) - n_drop:]
                detail = f"{p['name']}: table lacks {n_drop} of {k * nrows} values"
            else:
                extra = rng.choice([["0.0"], ["1.0"], ["0.0"] * k, list(v["rows"][0])])
                a[1].extend(extra)
                detail = f"{p['name']}: table has {len(extra)} values too many ({k * nrows} expected)"
        elif kind in ("dup-entry-bad", "dup-entry-same"):
            cands = [ai for ai, a in enumerate(p["attrs"]) if a[0] == "entry"]
            if not cands:
                continue
            ai = rng.choice(cands)
            a = p["attrs"][ai]
            dup = ["entry", list(a[1]), list(a[2])]
            if kind == "dup-entry-bad":
                j = rng.randrange(k)
                dup[2][j] = frac_to_dec(Fraction(dup[2][j]) + 2 * tol)
                detail = f"{p['name']}: second entry for {a[1]} whose probabilities sum to 1+2*tol"
            else:
                expect = "either"
                detail = f"{p['name']}: entry for {a[1]} written twice (identical, valid)"
            p["attrs"].insert(rng.randrange(len(p["attrs"]) + 1), dup)
        elif kind == "short-condition":
            cands = [ai for ai, a in enumerate(p["attrs"]) if a[0] == "entry" and ai in p["eff"] and len(a[1]) >= 2]
            has_lower = any(a[0] in ("table", "default") for a in p["attrs"])
            if not cands or has_lower:
                continue
            a = p["attrs"][rng.choice(cands)]
            a[1].pop(rng.randrange(len(a[1])))
            detail = f"{p['name']}: an entry names only {len(a[1])} of {len(v['parents'])} parent values and nothing else covers its row"
        elif kind == "missing-cpt":
            if any(p["name"] in q["parents"] for q in doc["probs"]) and rng.random() < 0.5:
                continue
            del doc["probs"][pi]
            detail = f"{p['name']}: no probability block at all"
        out.append({"kind": kind, "expect": expect, "text": doc_text(doc), "detail": detail,
                    **({"spec": newspec} if newspec else {})})
    return out


# ------------------------------------------------------------------ transcribed textbook networks (fixed cases)
def _v(name, domain, parents, rows):
    return {"name": name, "domain": domain, "parents": parents, "rows": rows}


CANCER = {"netname": "unknown", "vars": [
    _v("Pollution", ["low", "high"], [], [["0.9", "0.1"]]),
    _v("Smoker", ["True", "False"], [], [["0.3", "0.7"]]),
    # rows in product order of (Pollution, Smoker): (low,True) (low,False) (high,True) (high,False)
    _v("Cancer", ["True", "False"], ["Pollution", "Smoker"],
       [["0.03", "0.97"], ["0.001", "0.999"], ["0.05", "0.95"], ["0.02", "0.98"]]),
    _v("Xray", ["positive", "negative"], ["Cancer"], [["0.9", "0.1"], ["0.2", "0.8"]]),
    _v("Dyspnoea", ["True", "False"], ["Cancer"], [["0.65", "0.35"], ["0.3", "0.7"]]),
]}
CANCER_QUERIES = [
    {"type": "time", "evidence": [["Xray", "positive"], ["Dyspnoea", "True"]], "string": "Xray = positive, Dyspnoea = True"},
    {"type": "exact", "target": "Cancer", "power": 2, "evidence": [["Xray", "positive"], ["Dyspnoea", "True"]],
     "string": "Cancer**2 | Xray = positive, Dyspnoea = True"},
    {"type": "exact", "target": "Xray", "power": 1, "evidence": [["Smoker", "True"]], "string": "Xray | Smoker = True"},
]

# the `survey` network of Scutari & Denis with its published variable names (A, S, E, O, R, T); the copy shipped in
# /repo/bayesnet/repo/small/survey.bif renames E to E_x
SURVEY = {"netname": "unknown", "vars": [
    _v("A", ["young", "adult", "old"], [], [["0.3", "0.5", "0.2"]]),
    _v("S", ["M", "F"], [], [["0.6", "0.4"]]),
    # product order of (A, S): (young,M) (young,F) (adult,M) (adult,F) (old,M) (old,F)
    _v("E", ["high", "uni"], ["A", "S"],
       [["0.75", "0.25"], ["0.64", "0.36"], ["0.72", "0.28"], ["0.7", "0.3"], ["0.88", "0.12"], ["0.9", "0.1"]]),
    _v("O", ["emp", "self"], ["E"], [["0.96", "0.04"], ["0.92", "0.08"]]),
    _v("R", ["small", "big"], ["E"], [["0.25", "0.75"], ["0.2", "0.8"]]),
    # product order of (O, R): (emp,small) (emp,big) (self,small) (self,big)
    _v("T", ["car", "train", "other"], ["O", "R"],
       [["0.48", "0.42", "0.1"], ["0.58", "0.24", "0.18"], ["0.56", "0.36", "0.08"], ["0.7", "0.21", "0.09"]]),
]}
SURVEY_QUERIES = [
    {"type": "exact", "target": "T", "power": 1, "evidence": [["E", "uni"]], "string": "T | E = uni"},
    {"type": "time", "evidence": [["O", "self"], ["R", "big"]], "string": "O = self, R = big"},
    {"type": "exact", "target": "E", "power": 1, "evidence": [["S", "F"]], "string": "E | S = F"},
]
FIXED = [("corpus-cancer", CANCER, CANCER_QUERIES, ["corpus", "name-needs-sanitising"]),
         ("corpus-survey-E", SURVEY, SURVEY_QUERIES, ["corpus", "name-constant", "name-needs-sanitising"])]
