"""Workload from the .prob files shipped in the repository (and statement-level mutations of them)."""
import glob
import os
import random
from fractions import Fraction as F

from ..lang.parser import parse_program, ParseError
from ..lang.printer import program_str
from .programs import declared_values
from ..lang.ast import Program, program_variables, program_symbols, walk_stmts, expr_vars

REPO = os.environ.get("POLAR_REPO", "/repo")


def corpus_files():
    fs = sorted(glob.glob(os.path.join(REPO, "**", "*.prob"), recursive=True))
    return [f for f in fs if os.path.getsize(f) > 0]


def param_kinds(prog: Program):
    """guess the admissible domain of each symbolic constant from where it is used"""
    kinds = {}
    syms = set(program_symbols(prog))

    def mark(e, kind):
        for v in expr_vars(e):
            if v in syms:
                if kinds.get(v) != "prob":
                    kinds[v] = kind

    for blk in (prog.init, prog.body):
        for s in walk_stmts(blk):
            rs = [s[2]] if s[0] == "assign" else (s[2] if s[0] == "simult" else [])
            for r in rs:
                if r[0] == "choice":
                    for _, p in r[1]:
                        mark(p, "prob")
                elif r[0] == "draw":
                    fam, ps = r[1], r[2]
                    if fam in ("Bernoulli", "Categorical"):
                        for p in ps:
                            mark(p, "prob")
                    elif fam in ("Normal", "Laplace") and len(ps) == 2:
                        mark(ps[1], "pos")
                    elif fam in ("DistExp", "Gamma", "Beta"):
                        for p in ps:
                            mark(p, "pos")
    for s in syms:
        kinds.setdefault(s, "real")
    return kinds


def instantiate(rng, prog):
    kinds = param_kinds(prog)
    nprob = max(1, sum(1 for k in kinds.values() if k == "prob"))
    vals = {}
    for name, kind in sorted(kinds.items()):
        if kind == "prob":
            # several probabilities may be used in one choice: keep the sum below 1
            vals[name] = F(rng.randint(1, 9), 10 * nprob + 1)
        elif kind == "pos":
            vals[name] = F(rng.randint(1, 30), rng.choice([7, 11, 13]))
        else:
            vals[name] = F(rng.randint(-20, 20), rng.choice([3, 7, 11])) or F(5, 7)
    inits = {}
    declared = declared_values(prog)
    for v in program_variables(prog):
        if v in declared and declared[v]:
            inits[v] = rng.choice(declared[v])
        else:
            # stand-in for the symbolic initial value <v>0: never an integer / half-integer, so that it cannot be
            # confused with a designed program constant
            inits[v] = F(7 * rng.randint(-3, 3) + rng.choice([1, 2, 3, 4, 5, 6]), 7) + F(rng.choice([0, 1, 2]), 11)
    return vals, inits


def cases(seed, tier, count, prop, goals_per=2, max_vars=12, N=None):
    from ..checks.common import frac_enc, harness_seed
    files = corpus_files()
    rng = random.Random(harness_seed(seed, prop + "-corpus", 0))
    rng.shuffle(files)
    out = []
    for f in files:
        if len(out) >= count:
            break
        try:
            text = open(f).read()
            prog = parse_program(text)
        except (ParseError, OSError):
            continue
        pv = program_variables(prog)
        if len(pv) > max_vars:
            continue
        params, inits = instantiate(rng, prog)
        goals = []
        for v in rng.sample(pv, min(goals_per, len(pv))):
            goals.append({v: rng.choice([1, 1, 2])})
        from ..checks.common import has_draw_or_choice
        out.append({
            "id": "corpus-" + os.path.relpath(f, REPO), "kind": "corpus", "text": text, "ast": prog.to_json(),
            "params": frac_enc(params), "inits": frac_enc(inits), "goals": goals,
            "N": N or (5 if tier == "quick" else 7), "features": ["corpus"], "cli": False,
        })
    return out
