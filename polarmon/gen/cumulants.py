"""Case generators for C11 (central moments / cumulants / tail bounds / Gram-Charlier / Cornish-Fisher).

Cheap and Polar-free: random finite laws with rational probabilities, random rational cumulant vectors,
and small probabilistic loop program templates (text) with random constants.  Fractions are encoded as
[numerator, denominator] pairs so the cases are plain JSON."""
import random
from fractions import Fraction as F


def fe(x):
    x = F(x)
    return [x.numerator, x.denominator]


def fd(p):
    return F(int(p[0]), int(p[1]))


def fs(x):
    """program-text rendering of a rational"""
    x = F(x)
    if x.denominator == 1:
        return str(x.numerator)
    return f"{x.numerator}/{x.denominator}"


# ------------------------------------------------------------------ finite laws
def random_law(rng, max_points=6):
    """random finite distribution: list of (value, prob) with distinct rational values, probs sum to 1"""
    style = rng.choice(["int", "int", "rat", "lattice", "twopoint", "signed", "point"])
    if style == "point":
        return [(F(rng.randint(-4, 6), rng.choice([1, 2, 3])), F(1))]
    npts = 2 if style == "twopoint" else rng.randint(2, max_points)
    vals = set()
    while len(vals) < npts:
        if style == "int":
            vals.add(F(rng.randint(0, 9)))
        elif style == "lattice":
            vals.add(F(rng.randint(0, 12), 4))
        elif style == "signed":
            vals.add(F(rng.randint(-6, 6)))
        else:
            vals.add(F(rng.randint(-9, 9), rng.choice([1, 2, 3, 5, 7])))
    vals = sorted(vals)
    den = rng.choice([2, 3, 4, 5, 6, 7, 8, 10, 12, 16, 19, 30, 100])
    den = max(den, npts)
    # random composition of den into npts positive parts
    cuts = sorted(rng.sample(range(1, den), npts - 1))
    parts = [b - a for a, b in zip([0] + cuts, cuts + [den])]
    return [(v, F(w, den)) for v, w in zip(vals, parts)]


def conversion_cases(rng_seed_fn, n_cases, tier):
    """kinds: centrals / cumulants (finite law, orders <= 10), comb, highorder (two-point law, orders 41..70)"""
    cases = []
    max_order = 10 if tier == "quick" else 12
    for i in range(n_cases):
        cs = rng_seed_fn(i)
        rng = random.Random(cs)
        r = i % 10
        if r in (0, 1, 2):
            sub = "centrals"
        elif r in (3, 4, 5):
            sub = "cumulants"
        elif r in (6, 7, 8):
            sub = "comb"
        else:
            sub = "highorder"
        if sub == "comb":
            pairs = []
            top = 80 if tier == "quick" else 200
            for _ in range(12):
                style = rng.choice(["small", "mid", "big", "edge", "over"])
                if style == "small":
                    n = rng.randint(0, 12)
                elif style == "mid":
                    n = rng.randint(13, 40)
                else:
                    n = rng.randint(41, top)
                if style == "edge":
                    k = rng.choice([0, 1, n, max(n - 1, 0)])
                elif style == "over":
                    k = n + rng.randint(1, 5)
                else:
                    k = rng.randint(0, n)
                pairs.append([n, k])
            cases.append({"id": f"conv-comb-{cs}", "kind": "conv", "sub": "comb", "pairs": pairs})
        elif sub == "highorder":
            # two-point law a + b*Bernoulli(p): exact central moments by definition, cumulants by the
            # p-derivative recursion of the Bernoulli cumulants
            order = rng.choice([41, 45, 50, 55, 57, 58, 60, 64, 70]) if tier == "quick" else rng.randint(41, 90)
            p = F(rng.randint(1, 9), 10)
            a = F(rng.randint(-2, 3))
            b = F(rng.choice([1, 2, -1, 3]), rng.choice([1, 1, 2]))
            cases.append({"id": f"conv-high-{cs}", "kind": "conv", "sub": "highorder", "order": order,
                          "p": fe(p), "a": fe(a), "b": fe(b), "what": rng.choice(["centrals", "cumulants"])})
        else:
            law = random_law(rng)
            order = rng.choice([1, 2, 3, 4, 5, 6, 8, max_order])
            cases.append({"id": f"conv-{sub}-{cs}", "kind": "conv", "sub": sub, "order": order,
                          "law": [[fe(v), fe(p)] for v, p in law],
                          "symbolic": rng.random() < 0.25})
    return cases


# ------------------------------------------------------------------ cumulant vectors for the expansions
def expansion_cases(rng_seed_fn, n_cases, tier):
    cases = []
    maxL = 6 if tier == "quick" else 8
    for i in range(n_cases):
        cs = rng_seed_fn(i)
        rng = random.Random(cs)
        which = ["gc", "cf", "cf-eps"][i % 3]
        if which == "gc":
            L = rng.choice([0, 1, 2, 3, 4, 4, 5, 5, 6, maxL])
        else:
            L = rng.choice([2, 3, 4, 4, 5, 5, 6, maxL]) if i % 15 != 1 else 1
        s = F(rng.choice([1, 2, 3, 1, 3, 5]), rng.choice([1, 2, 1, 3]))
        sigma2 = s * s
        square = True
        if which == "gc" and rng.random() < 0.3:
            sigma2 = F(rng.choice([2, 3, 5, 7, 1]), rng.choice([1, 2, 3]))
            square = False
        mu = F(rng.randint(-6, 6), rng.choice([1, 2, 3]))
        if rng.random() < 0.15:
            mu = F(0)
        kap = {1: mu, 2: sigma2}
        sparse = rng.random() < 0.2
        for r in range(3, L + 1):
            g = F(rng.randint(-8, 8), rng.choice([1, 2, 3, 5, 7]))
            if sparse and rng.random() < 0.5:
                g = F(0)
            kap[r] = g
        kap = {r: kap[r] for r in range(1, L + 1)}
        cases.append({"id": f"exp-{which}-{cs}", "kind": "exp", "sub": which, "L": L,
                      "cumulants": [fe(kap[r]) for r in range(1, L + 1)], "sigma": fe(s) if square else None})
    return cases


# ------------------------------------------------------------------ program templates
PROBS = [F(1, 2), F(1, 3), F(1, 4), F(2, 3), F(3, 4), F(1, 5), F(1, 10), F(9, 10), F(3, 10), F(2, 5)]


def _p(rng):
    return rng.choice(PROBS)


def t_walk_pos(rng):
    x0 = rng.randint(1, 4)
    a, b = rng.randint(0, 3), rng.randint(1, 4)
    p = _p(rng)
    text = f"x = {x0}\nwhile true:\n    x = x + {a} {{{fs(p)}}} x + {b}\nend\n"
    return dict(text=text, monoms=[({"x": 1}, x0), ({"x": 2}, x0 * x0)], feats=["walk-positive"])


def t_walk3(rng):
    x0 = rng.randint(0, 3)
    p1, p2 = rng.choice([(F(1, 4), F(1, 4)), (F(1, 3), F(1, 3)), (F(1, 2), F(1, 4)), (F(1, 10), F(3, 10))])
    a, b = rng.randint(1, 3), rng.randint(2, 5)
    text = f"x = {x0}\nwhile true:\n    x = x + {a} {{{fs(p1)}}} x + {b} {{{fs(p2)}}} x\nend\n"
    return dict(text=text, monoms=[({"x": 1}, x0)], feats=["walk-3way"])


def t_walk_sym(rng):
    x0 = rng.randint(-1, 2)
    p = _p(rng)
    d = rng.randint(1, 2)
    text = f"x = {x0}\nwhile true:\n    x = x + {d} {{{fs(p)}}} x - {d}\nend\n"
    return dict(text=text, monoms=[({"x": 1}, None)], feats=["walk-signed"])


def t_bern_sum(rng):
    s0 = rng.randint(0, 3)
    c = rng.choice([1, 2, 3, F(1, 2)])
    p = _p(rng)
    text = f"s = {s0}\nwhile true:\n    u = Bernoulli({fs(p)})\n    s = s + {fs(c)}*u\nend\n"
    return dict(text=text, monoms=[({"s": 1}, s0)], feats=["bernoulli-sum"])


def t_du_sum(rng):
    lo = rng.randint(0, 2)
    hi = lo + rng.randint(1, 4)
    s0 = rng.randint(0, 2)
    text = f"s = {s0}\nd = 0\nwhile true:\n    d = DiscreteUniform({lo}, {hi})\n    s = s + d\nend\n"
    return dict(text=text, monoms=[({"s": 1}, s0), ({"d": 1, "s": 1}, 0)], feats=["discrete-uniform-sum"])


def t_geometric(rng):
    p = _p(rng)
    x0 = rng.randint(0, 2)
    c = rng.randint(1, 3)
    text = f"stop = 0\nx = {x0}\nwhile stop == 0:\n    stop = Bernoulli({fs(p)})\n    x = x + {c}\nend\n"
    return dict(text=text, monoms=[({"x": 1}, x0)], feats=["guarded-geometric"], max_order=3)


def t_mult(rng):
    x0 = rng.randint(1, 3)
    m = rng.choice([2, 3, F(3, 2)])
    p = _p(rng)
    text = f"x = {x0}\nwhile true:\n    x = {fs(m)}*x {{{fs(p)}}} x\nend\n"
    return dict(text=text, monoms=[({"x": 1}, x0)], feats=["multiplicative"])


def t_categorical(rng):
    ps = rng.choice([(F(1, 4), F(1, 4), F(1, 2)), (F(1, 3), F(1, 3), F(1, 3)), (F(1, 10), F(3, 10), F(3, 5)), (F(1, 2), F(1, 2))])
    x0 = rng.randint(0, 2)
    text = f"x = {x0}\nwhile true:\n    c = Categorical({', '.join(fs(q) for q in ps)})\n    x = x + c\nend\n"
    return dict(text=text, monoms=[({"x": 1}, x0)], feats=["categorical"])


def t_dependent(rng):
    p = _p(rng)
    x0, y0 = rng.randint(0, 2), rng.randint(0, 2)
    text = f"x = {x0}\ny = {y0}\nwhile true:\n    x = x + 1 {{{fs(p)}}} x\n    y = y + x\nend\n"
    return dict(text=text, monoms=[({"y": 1}, y0), ({"x": 1}, x0), ({"x": 1, "y": 1}, x0 * y0)], feats=["dependent-accumulator"])


def t_if_branch(rng):
    p = _p(rng)
    up, down = rng.randint(1, 3), rng.randint(0, 2)
    x0 = rng.randint(0, 3)
    text = (f"x = {x0}\nb = 0\nwhile true:\n    b = Bernoulli({fs(p)})\n    if b == 1:\n        x = x + {up}\n    else:\n"
            f"        x = x - {down}\n    end\nend\n")
    return dict(text=text, monoms=[({"x": 1}, x0 if down == 0 else None)], feats=["if-branch"])


def t_reset(rng):
    p = _p(rng)
    c = rng.randint(0, 2)
    x0 = rng.randint(0, 3)
    text = f"x = {x0}\nwhile true:\n    x = {c} {{{fs(p)}}} x + 1\nend\n"
    return dict(text=text, monoms=[({"x": 1}, min(c, x0))], feats=["reset"])


def t_du_square(rng):
    hi = rng.randint(1, 3)
    text = f"x = 1\nwhile true:\n    u = DiscreteUniform(0, {hi})\n    x = x + u**2\nend\n"
    return dict(text=text, monoms=[({"x": 1}, 1)], feats=["nonlinear-draw"])


def t_two_coins(rng):
    p, q = _p(rng), _p(rng)
    text = (f"x = 0\ny = 1\nwhile true:\n    a = Bernoulli({fs(p)})\n    b = Bernoulli({fs(q)})\n    x = x + a*b\n"
            f"    y = y + a\nend\n")
    return dict(text=text, monoms=[({"x": 1}, 0), ({"y": 1}, 1), ({"x": 1, "y": 1}, 0)], feats=["two-coins"])


def t_halving(rng):
    p = _p(rng)
    x0 = rng.randint(0, 4)
    text = f"x = {x0}\nwhile true:\n    u = Bernoulli({fs(p)})\n    x = x/2 + u\nend\n"
    return dict(text=text, monoms=[({"x": 1}, 0)], feats=["contraction"])


def t_symbolic_p(rng):
    x0 = rng.randint(1, 3)
    pv = F(rng.randint(1, 18), 19)
    text = f"x = {x0}\nwhile true:\n    x = x + 1 {{p}} x + 2\nend\n"
    return dict(text=text, monoms=[({"x": 1}, x0)], feats=["symbolic-probability"], params={"p": pv})


def t_underscore(rng):
    p = _p(rng)
    x0 = rng.randint(1, 3)
    text = f"x_1 = {x0}\nwhile true:\n    x_1 = x_1 + 1 {{{fs(p)}}} x_1 + 2\nend\n"
    return dict(text=text, monoms=[({"x_1": 1}, x0)], feats=["underscore-name"], cli=False)


def t_mixed_draws(rng):
    p = _p(rng)
    lo = rng.randint(1, 2)
    text = (f"x = 2\nwhile true:\n    u = DiscreteUniform({lo}, {lo + 2})\n    v = Bernoulli({fs(p)})\n    x = x + u*v\nend\n")
    return dict(text=text, monoms=[({"x": 1}, 2)], feats=["draw-product"])


def t_sign_flip(rng):
    p = _p(rng)
    text = f"s = 1\nx = 0\nwhile true:\n    s = -s {{{fs(p)}}} s\n    x = x + s\nend\n"
    return dict(text=text, monoms=[({"x": 1}, None), ({"s": 1}, None)], feats=["sign-flip"], max_order=4)


def t_shift_scale(rng):
    p = _p(rng)
    c = rng.randint(1, 3)
    text = f"x = 1\ny = 0\nwhile true:\n    x = x + {c} {{{fs(p)}}} x\n    y = 2*x + 1\nend\n"
    return dict(text=text, monoms=[({"y": 1}, 0), ({"x": 1}, 1)], feats=["affine-image"])


def t_simult(rng):
    p = _p(rng)
    text = f"x = 1\ny = 2\nwhile true:\n    x, y = x + y, y + 1 {{{fs(p)}}} y\nend\n"
    return dict(text=text, monoms=[({"x": 1}, 1), ({"y": 1}, 2)], feats=["simultaneous"], max_order=3)


def t_normal_mix(rng):
    p = _p(rng)
    m, v = rng.randint(-1, 2), rng.choice([1, 4, F(1, 4)])
    text = f"x = 1\nwhile true:\n    u = Normal({m}, {fs(v)})\n    x = x + u {{{fs(p)}}} x - 1\nend\n"
    return dict(text=text, monoms=[({"x": 1}, None)], feats=["continuous-normal"], max_order=4, N=4)


def t_uniform_coin(rng):
    p = _p(rng)
    hi = rng.randint(1, 3)
    text = f"x = 0\nwhile true:\n    u = Uniform(0, {hi})\n    v = Bernoulli({fs(p)})\n    x = x + u*v\nend\n"
    return dict(text=text, monoms=[({"x": 1}, None)], feats=["continuous-uniform"], max_order=4, N=4)


def t_beta_contraction(rng):
    a, b = rng.randint(1, 3), rng.randint(1, 3)
    text = f"x = 0\nwhile true:\n    u = Beta({a}, {b})\n    x = x/2 + u**2\nend\n"
    return dict(text=text, monoms=[({"x": 1}, None)], feats=["continuous-beta"], max_order=3, N=4)


def t_truncnormal(rng):
    lo, hi = rng.choice([(-1, 2), (0, 1), (-2, 2)])
    text = f"x = 0\nwhile true:\n    u = TruncNormal(0, 1, {lo}, {hi})\n    x = x + u\nend\n"
    return dict(text=text, monoms=[({"x": 1}, None)], feats=["continuous-truncnormal"], max_order=3, N=4)


TEMPLATES = [t_walk_pos, t_walk3, t_walk_sym, t_bern_sum, t_du_sum, t_geometric, t_mult, t_categorical, t_dependent,
             t_if_branch, t_reset, t_du_square, t_two_coins, t_halving, t_symbolic_p, t_underscore, t_mixed_draws,
             t_sign_flip, t_shift_scale, t_simult, t_normal_mix, t_uniform_coin, t_beta_contraction, t_truncnormal]


def _goals_for(rng, monom, lb, tier, max_order):
    """goal descriptors for one monomial: central/cumulant orders, upper-tail thresholds, lower-tail threshold"""
    deg = sum(monom.values())
    top = max(2, min(max_order, 6 // deg if tier == "quick" else 8 // deg))
    goals = []
    orders = list(range(2, top + 1))
    rng.shuffle(orders)
    for k in sorted(orders[: rng.choice([1, 2, 2, 3])]):
        goals.append({"type": "central", "k": k})
    orders = list(range(1, top + 1))
    rng.shuffle(orders)
    for k in sorted(orders[: rng.choice([1, 2, 2, 3])]):
        goals.append({"type": "cumulant", "k": k})
    if rng.random() < 0.15:
        goals.append({"type": "central", "k": 1})
    base = lb if lb is not None else 1
    a_up = F(base) + rng.choice([F(1, 2), 1, 2, 3, 5, F(7, 2)])
    goals.append({"type": "upper", "a": fe(a_up), "K": rng.choice([1, 2, 2, 3, min(4, max(2, top))])})
    if lb is not None and lb > 0:
        a_lo = F(lb) - rng.choice([0, 0, F(1, 2), F(1, 4)])
        if a_lo <= 0:
            a_lo = F(lb)
    else:
        a_lo = rng.choice([F(1, 2), F(1), F(2)])
    goals.append({"type": "lower", "a": fe(a_lo)})
    return goals


def template_case(cs, tier, idx):
    rng = random.Random(cs)
    t = TEMPLATES[idx % len(TEMPLATES)] if idx < 2 * len(TEMPLATES) else rng.choice(TEMPLATES)
    d = t(rng)
    monom, lb = rng.choice(d["monoms"]) if idx >= len(TEMPLATES) else d["monoms"][0]
    N = min(d.get("N", 9), 6 if tier == "quick" else 9)
    goals = _goals_for(rng, monom, lb, tier, min(d.get("max_order", 6), 4 if tier == "quick" else 6))
    return {"id": f"prog-{t.__name__}-{cs}", "kind": "prog", "src": "template", "template": t.__name__, "text": d["text"],
            "monom": monom, "goals": goals, "N": N, "params": {k: fe(v) for k, v in d.get("params", {}).items()},
            "inits": {}, "features": d["feats"], "cli": d.get("cli", idx % 3 == 0), "at_n": rng.randint(0, N),
            "compact": rng.random() < 0.3}


def generated_case(cs, tier, idx):
    """a program from the shared generator (profile discrete / guarded / symbolic), monomial = one data variable"""
    from . import programs as G
    from ..lang.printer import program_str
    rng = random.Random(cs)
    profile = rng.choice(["discrete", "discrete", "discrete", "symbolic", "nested", "multiassign", "guarded"])
    prog, feats, meta = G.generate(cs, profile)
    params, inits = G.instantiate_params(rng, meta, prog)
    data = meta["data"] or list(meta["fin"].keys())
    v = rng.choice(data)
    monom = {v: 1}
    N = 5 if tier == "quick" else 7
    goals = _goals_for(rng, monom, None, tier, 3)
    return {"id": f"prog-gen-{cs}", "kind": "prog", "src": "generated", "text": program_str(prog), "ast": prog.to_json(),
            "monom": monom, "goals": goals, "N": N, "params": {k: fe(x) for k, x in params.items()},
            "inits": {k: fe(x) for k, x in inits.items()}, "features": feats, "cli": (idx % 4 == 0),
            "at_n": rng.randint(0, N)}
