"""Workload generator and independent oracle pieces shared by C06 (soundness of the invariant basis) and C07
(completeness of the invariant basis).

Two workloads:
  (a) "direct":  tuples of exponential polynomials  sum_k c_k * n**j_k * b_k**n  with coefficients and bases in Q or in
      one quadratic field Q(sqrt d), handed to InvariantIdeal(...).compute_basis() as sympy expressions in several
      syntactic forms (plain, b**(-n), b**(n+1), r**(k*n), wrapped in Piecewise special cases);
  (b) "cli":     small loop programs (templates with seeded constants + documentation/loops/*.prob) run through the
      real CLI `--invariants`; goal sequences are recomputed with the reference engine (polarmon/ref/engine.py).

Oracle side (no Polar code involved): exact arithmetic in Q / Q(sqrt d) implemented here (class Fld), the ring of
exponential polynomials (class EP; an EP is identically zero iff all its coefficients are zero because n**j * b**n
with distinct (b, j) are linearly independent sequences), integer Gaussian elimination for rational null spaces.

The master process only uses the pure-python part (no sympy import at module level)."""
import glob
import math
import os
import random
import re
from fractions import Fraction as F

REPO = os.environ.get("POLAR_REPO", "/repo")
KEY_LATTICE = "lattice-rational-nullspace-not-integral"


# =====================================================================================================
# exact arithmetic in Q (d == 0) or Q(sqrt d): elements are pairs (a, b) of Fractions meaning a + b*sqrt(d)
# =====================================================================================================
class Fld:
    def __init__(self, d):
        self.d = int(d)
        self.zero = (F(0), F(0))
        self.one = (F(1), F(0))

    def rat(self, x):
        return (F(x), F(0))

    def add(self, x, y):
        return (x[0] + y[0], x[1] + y[1])

    def sub(self, x, y):
        return (x[0] - y[0], x[1] - y[1])

    def neg(self, x):
        return (-x[0], -x[1])

    def mul(self, x, y):
        if x[1] == 0 and y[1] == 0:
            return (x[0] * y[0], F(0))
        return (x[0] * y[0] + x[1] * y[1] * self.d, x[0] * y[1] + x[1] * y[0])

    def inv(self, x):
        nrm = x[0] * x[0] - self.d * x[1] * x[1]
        if nrm == 0:
            raise ZeroDivisionError("inverse of 0")
        return (x[0] / nrm, -x[1] / nrm)

    def powi(self, x, k):
        if k < 0:
            return self.powi(self.inv(x), -k)
        if x[1] == 0:
            return (x[0] ** k, F(0))
        r = self.one
        base = x
        while k:
            if k & 1:
                r = self.mul(r, base)
            k >>= 1
            if k:
                base = self.mul(base, base)
        return r

    def is_zero(self, x):
        return x[0] == 0 and x[1] == 0

    def scale(self, x, q):
        return (x[0] * q, x[1] * q)

    def dec(self, e):
        """decode ["3/2", "-1/2"]"""
        a, b = F(e[0]), F(e[1])
        if self.d == 0 and b != 0:
            raise ValueError("irrational element in Q")
        return (a, b)

    @staticmethod
    def enc(x):
        return [str(x[0]), str(x[1])]

    def show(self, x):
        if x[1] == 0:
            return str(x[0])
        s = {-1: "i", -3: "sqrt(-3)"}.get(self.d, f"sqrt({self.d})")
        return f"({x[0]} + {x[1]}*{s})"


# =====================================================================================================
# exponential polynomials  sum coef * n**j * base**n   (terms: {(base, j): coef})
# =====================================================================================================
class EP:
    __slots__ = ("fld", "terms")

    def __init__(self, fld, terms=None):
        self.fld = fld
        self.terms = {}
        if terms:
            for k, c in terms.items():
                if not fld.is_zero(c):
                    self.terms[k] = c

    @staticmethod
    def const(fld, c):
        return EP(fld, {(fld.one, 0): c})

    def add(self, o):
        f = self.fld
        t = dict(self.terms)
        for k, c in o.terms.items():
            v = f.add(t.get(k, f.zero), c)
            if f.is_zero(v):
                t.pop(k, None)
            else:
                t[k] = v
        r = EP(f)
        r.terms = t
        return r

    def scale(self, c):
        f = self.fld
        return EP(f, {k: f.mul(v, c) for k, v in self.terms.items()})

    def mul(self, o):
        f = self.fld
        t = {}
        for (b1, j1), c1 in self.terms.items():
            for (b2, j2), c2 in o.terms.items():
                k = (f.mul(b1, b2), j1 + j2)
                v = f.add(t.get(k, f.zero), f.mul(c1, c2))
                t[k] = v
        return EP(f, t)

    def powi(self, k):
        r = EP.const(self.fld, self.fld.one)
        for _ in range(k):
            r = r.mul(self)
        return r

    def is_zero(self):
        return not self.terms

    def eval(self, n):
        f = self.fld
        tot = f.zero
        for (b, j), c in self.terms.items():
            v = f.mul(c, f.powi(b, n))
            if j:
                v = f.scale(v, F(n) ** j)
            tot = f.add(tot, v)
        return tot

    def is_constant(self):
        return all(k == (self.fld.one, 0) for k in self.terms)

    def show(self):
        f = self.fld
        if not self.terms:
            return "0"
        out = []
        for (b, j), c in self.terms.items():
            s = f.show(c)
            if j:
                s += f"*n**{j}" if j > 1 else "*n"
            if b != f.one:
                bs = f.show(b)
                s += f"*({bs})**n" if not bs.isdigit() else f"*{bs}**n"
            out.append(s)
        return " + ".join(out)


def ep_from_terms(fld, terms):
    """terms: [[coef_enc, j, base_enc, form], ...]"""
    t = {}
    for coef, j, base, *_ in terms:
        k = (fld.dec(base), int(j))
        t[k] = fld.add(t.get(k, fld.zero), fld.dec(coef))
    return EP(fld, t)


# ----------------------------------------------------------------------------- polynomials in the goal symbols
# a polynomial is a list of (exponent tuple, coefficient in fld)
def monomials_upto(k, D):
    """all exponent tuples of total degree <= D in k variables, graded, constant first"""
    out = []

    def rec(i, left, cur):
        if i == k:
            out.append(tuple(cur))
            return
        for e in range(left + 1):
            cur.append(e)
            rec(i + 1, left - e, cur)
            cur.pop()

    rec(0, D, [])
    out.sort(key=lambda m: (sum(m), tuple(-x for x in m)))
    return out


def poly_eval(fld, poly, vals):
    """poly at field values vals (list aligned with the variables)"""
    cache = {}

    def pw(i, e):
        if (i, e) not in cache:
            cache[(i, e)] = fld.powi(vals[i], e)
        return cache[(i, e)]

    tot = fld.zero
    for exps, c in poly:
        v = c
        for i, e in enumerate(exps):
            if e:
                v = fld.mul(v, pw(i, e))
        tot = fld.add(tot, v)
    return tot


def poly_eval_ep(fld, poly, eps):
    """poly with the goal symbols replaced by exponential polynomials -> EP (identically 0 iff .is_zero())"""
    cache = {}

    def pw(i, e):
        if (i, e) not in cache:
            cache[(i, e)] = eps[i].powi(e) if e <= 1 else pw(i, e - 1).mul(eps[i])
        return cache[(i, e)]

    tot = EP(fld)
    for exps, c in poly:
        v = EP.const(fld, c)
        for i, e in enumerate(exps):
            if e:
                v = v.mul(pw(i, e))
        tot = tot.add(v)
    return tot


# ----------------------------------------------------------------------------- exact rational null space
def _int_row(row):
    den = 1
    for x in row:
        den = den * x.denominator // math.gcd(den, x.denominator)
    r = [int(x * den) for x in row]
    g = 0
    for x in r:
        g = math.gcd(g, x)
    if g > 1:
        r = [x // g for x in r]
    return r


def nullspace(rows, ncols):
    """basis of {v in Q^ncols : rows . v = 0}; rows are lists of Fractions.  Integer Gauss-Jordan elimination with
    content removal; returns vectors of Fractions with the free coordinate equal to 1 (RREF convention)."""
    M = [_int_row(r) for r in rows if any(x != 0 for x in r)]
    pivots = []
    r = 0
    for c in range(ncols):
        if r >= len(M):
            break
        piv = None
        best = None
        for i in range(r, len(M)):
            if M[i][c] != 0:
                sz = abs(M[i][c])
                if best is None or sz < best:
                    best, piv = sz, i
        if piv is None:
            continue
        M[r], M[piv] = M[piv], M[r]
        pr = M[r]
        p = pr[c]
        for i in range(len(M)):
            if i != r and M[i][c] != 0:
                f = M[i][c]
                g = math.gcd(p, f)
                a, b = p // g, f // g
                row = [a * x - b * y for x, y in zip(M[i], pr)]
                gg = 0
                for x in row:
                    gg = math.gcd(gg, x)
                    if gg == 1:
                        break
                if gg > 1:
                    row = [x // gg for x in row]
                M[i] = row
        pivots.append(c)
        r += 1
    M = M[:len(pivots)]
    free = [c for c in range(ncols) if c not in pivots]
    vecs = []
    for fc in free:
        v = [F(0)] * ncols
        v[fc] = F(1)
        for i, pc in enumerate(pivots):
            if M[i][fc] != 0:
                v[pc] = F(-M[i][fc], M[i][pc])
        vecs.append(v)
    return vecs


def evaluation_rows(fld, monos, value_rows):
    """value_rows: list over n of lists of goal values (field elements) -> rows (rational and sqrt parts)"""
    rows = []
    k = len(monos[0]) if monos else 0
    maxe = max((max(m) for m in monos), default=0)
    for vals in value_rows:
        pw = [[fld.one] for _ in range(k)]
        for i in range(k):
            for e in range(1, maxe + 1):
                pw[i].append(fld.mul(pw[i][-1], vals[i]))
        ra, rb = [], []
        for m in monos:
            v = fld.one
            for i, e in enumerate(m):
                if e:
                    v = fld.mul(v, pw[i][e])
            ra.append(v[0])
            rb.append(v[1])
        rows.append(ra)
        if fld.d != 0 and any(x != 0 for x in rb):
            rows.append(rb)
    return rows


def symbolic_rows(fld, monos, eps):
    """coefficient matrix of the monomials' expansions as exponential polynomials: q = sum a_m m vanishes identically
    iff a is in the null space of these rows"""
    cache = {}

    def pw(i, e):
        if (i, e) not in cache:
            cache[(i, e)] = EP.const(fld, fld.one) if e == 0 else pw(i, e - 1).mul(eps[i])
        return cache[(i, e)]

    cols = []
    keys = {}
    for m in monos:
        v = EP.const(fld, fld.one)
        for i, e in enumerate(m):
            if e:
                v = v.mul(pw(i, e))
        cols.append(v)
        for k in v.terms:
            keys.setdefault(k, len(keys))
    rows_a = [[F(0)] * len(monos) for _ in keys]
    rows_b = [[F(0)] * len(monos) for _ in keys]
    for ci, v in enumerate(cols):
        for k, c in v.terms.items():
            rows_a[keys[k]][ci] = c[0]
            rows_b[keys[k]][ci] = c[1]
    return rows_a + [r for r in rows_b if any(x != 0 for x in r)]


def vec_to_poly(fld, monos, vec):
    den = 1
    for x in vec:
        den = den * x.denominator // math.gcd(den, x.denominator)
    return [(m, fld.rat(x * den)) for m, x in zip(monos, vec) if x != 0]


def poly_str(fld, poly, names):
    out = []
    for exps, c in poly:
        ms = "*".join((f"[{names[i]}]" + (f"**{e}" if e > 1 else "")) for i, e in enumerate(exps) if e)
        cs = fld.show(c)
        out.append(f"{cs}*{ms}" if ms else cs)
    return " + ".join(out) if out else "0"


# =====================================================================================================
# generator of direct cases (master side, pure python)
# =====================================================================================================
RAT_GROUPS = {
    "pow2": ["2", "4", "8", "1/2", "1/4", "16", "-2", "-4", "-1/2", "1/8", "-8"],
    "pow3": ["3", "9", "27", "1/3", "1/9", "-3", "-1/3"],
    "mix23": ["2", "3", "6", "12", "18", "2/3", "3/2", "4/9", "1/6", "4", "9"],
    "indep": ["2", "3", "5", "7", "1/2", "1/3", "1/5", "-2", "-3", "10", "3/5"],
    "sign": ["-1", "2", "-2", "1/2", "3", "-1/2"],
    # composite bases sharing several primes with proportional multiplicities (the prime-exponent system is rank deficient:
    # a redundant constraint precedes an independent one) and non-saturated binomial ideals ({12, 18, 2, 3}, {2, -2, -1})
    "shared": ["6", "30", "10", "1/6", "5/6", "36", "-6", "12", "18", "15", "2/3", "3/2", "10/3", "100", "1/36", "60", "2", "3", "-1"],
}
# quadratic fields: d -> list of (a, b) meaning a + b*sqrt(d)
QF_GROUPS = {
    5: [("1/2", "1/2"), ("1/2", "-1/2"), ("3/2", "1/2"), ("3/2", "-1/2"), ("-1", "0"), ("2", "0"), ("0", "1"), ("5", "0"),
        ("-1/2", "1/2"), ("-1/2", "-1/2")],
    -1: [("0", "1"), ("0", "-1"), ("1", "1"), ("1", "-1"), ("2", "0"), ("-1", "0"), ("0", "2"), ("-4", "0"), ("1/2", "1/2"),
         ("3", "4"), ("3", "-4")],
    -3: [("-1/2", "1/2"), ("-1/2", "-1/2"), ("1/2", "1/2"), ("1/2", "-1/2"), ("-1", "0"), ("3", "0"), ("0", "1"), ("2", "0")],
    2: [("0", "1"), ("1", "1"), ("1", "-1"), ("3", "2"), ("3", "-2"), ("2", "0"), ("-1", "0"), ("0", "-1"), ("1/2", "0")],
}
GOAL_NAMES = [
    ["E(x)", "E(y)", "E(z)", "E(w)"],
    ["x", "y", "z", "w"],
    ["E(x)", "c2(x)", "E(y)", "k3(y)"],
    ["E(x**2)", "E(x*y)", "c2(y)", "E(y)"],
    ["a", "b", "c", "s"],
]
SMALL_COEFS = ["1", "1", "1", "2", "-1", "3", "1/2", "-2", "1/3", "5", "-1/2"]

_PERFECT = {"4": ("2", 2), "8": ("2", 3), "16": ("2", 4), "9": ("3", 2), "27": ("3", 3), "1/4": ("2", -2), "1/8": ("2", -3),
            "1/9": ("3", -2), "1/2": ("2", -1), "1/3": ("3", -1), "1/5": ("5", -1), "1/6": ("6", -1)}


def _pick_form(rng, d, base):
    """syntactic form in which the exponential is handed to Polar"""
    r = rng.random()
    if r < 0.6:
        return ["plain"]
    if d == 0 and base[0] in _PERFECT and r < 0.8:
        root, k = _PERFECT[base[0]]
        return ["mulexp", root, k]          # root**(k*n)
    if r < 0.9:
        return ["shift", rng.choice([1, 1, -1, 2])]   # base**(n+sh) * base**(-sh)
    return ["plain"]


def gen_direct(cs, tier, allow_alg=True, rational_share=0.6):
    """one direct case (dict, JSON-serialisable)"""
    rng = random.Random(cs)
    feats = []
    algebraic = allow_alg and rng.random() > rational_share
    if algebraic:
        d = rng.choice([5, -1, -3, 2, 5, -1])
        pool_all = [list(b) for b in QF_GROUPS[d]]
        feats.append(f"field:sqrt({d})")
        group = f"qf{d}"
    else:
        d = 0
        group = rng.choice(["pow2", "pow2", "pow3", "mix23", "indep", "sign", "shared", "shared"])
        pool_all = [[b, "0"] for b in RAT_GROUPS[group]]
        feats.append("field:Q")
    feats.append(f"bases:{group}")
    fld = Fld(d)
    theme = rng.choice(["pure-exp", "pure-exp", "exp-sum", "exp-sum", "poly-mix", "derived", "derived", "conj" if d else "exp-sum",
                        "const"])
    feats.append(f"theme:{theme}")
    k = rng.choice([2, 2, 3, 3, 4]) if tier == "quick" else rng.choice([2, 3, 3, 4, 4])
    nb = rng.choice([1, 2, 2, 3]) if theme != "pure-exp" else min(k, rng.choice([2, 3, 3, 4]))
    pool = rng.sample(pool_all, min(nb, len(pool_all)))
    one = ["1", "0"]

    def coef():
        if d and rng.random() < 0.25:
            return [rng.choice(["0", "1", "1/2", "-1"]), rng.choice(["1", "-1", "1/2", "1/5" if d == 5 else "2"])]
        return [rng.choice(SMALL_COEFS), "0"]

    def conj(x):
        return [x[0], str(-F(x[1]))]

    goals_terms = []   # list of term lists [coef, j, base]
    if theme == "pure-exp":
        for i in range(k):
            b = pool[i % len(pool)] if i < len(pool) else rng.choice(pool)
            c = ["1", "0"] if rng.random() < 0.7 else coef()
            t = [[c, 0, b]]
            if i >= len(pool):     # a product / power of pool bases, to create relations
                b1, b2 = rng.choice(pool), rng.choice(pool)
                t = [[c, 0, Fld.enc(fld.mul(fld.dec(b1), fld.dec(b2)))]]
            goals_terms.append(t)
    elif theme in ("exp-sum", "const"):
        for i in range(k):
            nt = rng.choice([1, 1, 2, 2, 3])
            t = []
            for _ in range(nt):
                b = rng.choice(pool + [one])
                j = rng.choice([0, 0, 0, 1, 1, 2]) if b == one else rng.choice([0, 0, 0, 0, 1])
                t.append([coef(), j, b])
            goals_terms.append(t)
        if theme == "const":
            goals_terms[rng.randrange(k)] = [[coef(), 0, one]]
            if k >= 3 and rng.random() < 0.5:
                goals_terms[-1] = [list(x) for x in goals_terms[0]]          # a duplicated sequence
    elif theme == "poly-mix":
        for i in range(k):
            nt = rng.choice([1, 2, 2])
            t = [[coef(), rng.choice([0, 1, 1, 2, 3]), one] for _ in range(nt)]
            if rng.random() < 0.35:
                t.append([coef(), rng.choice([0, 0, 1]), rng.choice(pool)])
            goals_terms.append(t)
    elif theme == "conj":
        prs = [b for b in pool_all if F(b[1]) != 0]
        for i in range(k):
            b = rng.choice(prs)
            c = coef()
            t = [[c, 0, b], [conj(c), 0, conj(b)]]      # rational-valued: c*b**n + conj(c)*conj(b)**n
            if rng.random() < 0.3:
                t.append([[rng.choice(SMALL_COEFS), "0"], rng.choice([0, 0, 1]), one])
            goals_terms.append(t)
    elif theme == "derived":
        nbase = 2 if k <= 3 else rng.choice([2, 3])
        for i in range(nbase):
            nt = rng.choice([1, 1, 2])
            t = []
            for _ in range(nt):
                b = rng.choice(pool + [one])
                j = rng.choice([0, 1, 1, 2]) if b == one else rng.choice([0, 0, 0, 1])
                t.append([coef(), j, b])
            goals_terms.append(t)
        eps0 = [ep_from_terms(fld, t) for t in goals_terms]
        while len(goals_terms) < k:
            i, j2 = rng.randrange(nbase), rng.randrange(nbase)
            kind = rng.choice(["prod", "square-plus", "linear", "diff-squares"])
            if kind == "prod":
                e = eps0[i].mul(eps0[j2])
            elif kind == "square-plus":
                e = eps0[i].mul(eps0[i]).add(eps0[j2].scale(fld.rat(F(rng.choice([1, -1, 2])))))
            elif kind == "linear":
                e = eps0[i].scale(fld.rat(F(rng.choice([2, 3, -1])))).add(eps0[j2]).add(EP.const(fld, fld.rat(rng.choice([0, 1, -2]))))
            else:
                e = eps0[i].mul(eps0[i]).add(eps0[j2].mul(eps0[j2]).scale(fld.rat(-1)))
            if e.is_zero() or len(e.terms) > 6:
                e = eps0[i].add(EP.const(fld, fld.rat(1)))
            goals_terms.append([[Fld.enc(c), j, Fld.enc(b)] for (b, j), c in e.terms.items()])
            feats.append(f"derived:{kind}")
    # drop zero coefficients / merge, attach forms
    goals = []
    names = list(rng.choice(GOAL_NAMES))[:k]
    order = list(range(k))
    rng.shuffle(order)
    for gi in order:
        ep = ep_from_terms(fld, goals_terms[gi])
        terms = []
        for (b, j), c in ep.terms.items():
            be = Fld.enc(b)
            form = ["plain"] if b == fld.one else _pick_form(rng, d, be)
            terms.append([Fld.enc(c), j, be, form])
        rng.shuffle(terms)
        wrap = rng.choice(["none", "none", "none", "piecewise", "piecewise", "sum"]) if terms else "none"
        specials = []
        if wrap != "none":
            specials = [str(rng.randint(-3, 5)) for _ in range(rng.choice([1, 1, 2, 3]))]
        goals.append({"name": names[len(goals)], "terms": terms, "wrap": wrap, "specials": specials})
        if wrap != "none":
            feats.append("wrap:" + wrap)
        for t in terms:
            if t[3][0] != "plain":
                feats.append("form:" + t[3][0])
            if t[1] > 0 and t[2] != ["1", "0"]:
                feats.append("n^j*b^n")
    feats.append(f"k={k}")
    return {"id": f"direct-{cs}", "kind": "direct", "d": d, "goals": goals, "features": sorted(set(feats))}


def fixed_direct_cases():
    """hand-written tuples that must always be part of the workload (pre-observed P10/P11 witnesses and controls)"""
    def g(name, *terms, wrap="none", specials=()):
        return {"name": name, "wrap": wrap, "specials": list(specials),
                "terms": [[[c, "0"], j, [b, "0"], ["plain"]] for c, j, b in terms]}
    out = []
    tuples = [
        ("p11-4-8", [g("E(x)", ("1", 0, "4")), g("E(y)", ("1", 0, "8"))]),
        ("ctl-2-4", [g("E(x)", ("1", 0, "2")), g("E(y)", ("1", 0, "4"))]),
        ("p10-4-2", [g("E(x)", ("1", 0, "4")), g("E(y)", ("1", 0, "2"))]),
        ("p10-9-27-3", [g("x", ("1", 0, "9"), wrap="piecewise", specials=("3",)), g("y", ("1", 0, "27")), g("z", ("1", 0, "3"))]),
        ("ctl-2-half", [g("E(x)", ("1", 0, "2")), g("E(y)", ("1", 0, "1/2"))]),
        ("ctl-test-suite", [g("v", ("1", 0, "1")), g("w", ("1", 0, "1")), g("x", ("1/2", 1, "1"), ("1", 0, "1")),
                            g("y", ("1/2", 1, "1"), ("1", 0, "1"))]),
        ("ctl-sign", [g("x", ("1", 0, "-1")), g("y", ("1", 1, "2"))]),
        ("p10-m4-8", [g("x", ("1", 0, "-4")), g("y", ("1", 0, "8"))]),
        ("ctl-2-3-6", [g("x", ("1", 0, "2")), g("y", ("1", 0, "3")), g("z", ("1", 0, "6"))]),
        ("ctl-indep", [g("x", ("1", 0, "2")), g("y", ("1", 0, "3"))]),
        # rank-deficient prime-exponent systems (two primes with proportional multiplicities, a third one independent)
        ("rd-6-30", [g("x", ("1", 0, "6")), g("y", ("1", 0, "30"))]),
        ("rd-sixth-fivesixths", [g("s", ("1", 0, "1/6"), ("-1", 0, "5/6"), ("4", 0, "1")), g("x", ("1", 0, "1/6")), g("y", ("1", 0, "5/6"))]),
        ("rd-10-30", [g("x", ("1", 0, "10")), g("y", ("2", 0, "30"))]),
        ("rd-m6-6", [g("x", ("1", 0, "-6")), g("y", ("1", 0, "6"))]),
        ("rd-6-36", [g("x", ("1", 0, "6")), g("y", ("1", 0, "36"))]),
        ("rd-2over3-3over2", [g("x", ("1", 0, "2/3")), g("y", ("1", 0, "3/2"))]),
        ("rd-10-100", [g("x", ("1", 0, "10")), g("y", ("1", 0, "100"))]),
        # relations that need division by an exponential (saturation of the binomial ideal)
        ("sat-12-18-2-3", [g("a", ("1", 0, "12")), g("b", ("1", 0, "18")), g("c", ("1", 0, "2")), g("d", ("1", 0, "3"))]),
        ("sat-2-m2-m1", [g("x", ("1", 0, "2")), g("y", ("1", 0, "-2")), g("z", ("1", 0, "-1"))]),
    ]
    for name, goals in tuples:
        out.append({"id": f"fixed-{name}", "kind": "direct", "d": 0, "goals": goals, "features": ["fixed", "field:Q", "k=%d" % len(goals)]})
    # Fibonacci / Lucas (Binet), Gaussian integers
    out.append({"id": "fixed-binet", "kind": "direct", "d": 5, "features": ["fixed", "field:sqrt(5)", "k=2"], "goals": [
        {"name": "a", "wrap": "piecewise", "specials": ["0", "1"], "terms": [[["0", "1/5"], 0, ["1/2", "1/2"], ["plain"]], [["0", "-1/5"], 0, ["1/2", "-1/2"], ["plain"]]]},
        {"name": "b", "wrap": "none", "specials": [], "terms": [[["1", "0"], 0, ["1/2", "1/2"], ["shift", 1]], [["1", "0"], 0, ["1/2", "-1/2"], ["shift", 1]]]},
    ]})
    out.append({"id": "fixed-fib-lucas2", "kind": "direct", "d": 5, "features": ["fixed", "field:sqrt(5)", "k=2"], "goals": [
        {"name": "x", "wrap": "none", "specials": [], "terms": [[["0", "1/5"], 0, ["1/2", "1/2"], ["plain"]], [["0", "-1/5"], 0, ["1/2", "-1/2"], ["plain"]]]},
        {"name": "y", "wrap": "none", "specials": [], "terms": [[["1", "1/2"], 0, ["3/2", "1/2"], ["plain"]], [["1", "-1/2"], 0, ["3/2", "-1/2"], ["plain"]]]},
    ]})
    out.append({"id": "fixed-gauss", "kind": "direct", "d": -1, "features": ["fixed", "field:sqrt(-1)", "k=2"], "goals": [
        {"name": "x", "wrap": "none", "specials": [], "terms": [[["1", "0"], 0, ["1", "1"], ["plain"]], [["1", "0"], 0, ["1", "-1"], ["plain"]]]},
        {"name": "y", "wrap": "none", "specials": [], "terms": [[["1", "0"], 0, ["2", "0"], ["plain"]]]},
    ]})
    return out


def order_cases(direct, cli, tier="quick"):
    """quick: expected-slow cases first (CLI documentation loops, algebraic tuples), then CLI cases spread evenly among
    the direct ones, so that a watchdog timeout never sits at the tail of a run; thorough: a fixed shuffle, so that a
    deadline cut (few workers / loaded machine) removes cases of every kind proportionally"""
    if tier != "quick":
        allc = list(direct) + list(cli)
        random.Random(20240607).shuffle(allc)
        return allc
    def weight(c):
        if c["kind"] == "cli":
            fs = c.get("features", [])
            return 0 if ("cli:doc-loop" in fs or "cli:fibonacci+lucas2" in fs) else 2
        if c["d"] != 0:
            return 1
        return 2
    heavy = [c for c in cli + direct if weight(c) < 2]
    heavy.sort(key=weight)
    cli2 = [c for c in cli if weight(c) == 2]
    rest = [c for c in direct if weight(c) == 2]
    out = list(heavy)
    step = max(1, len(rest) // max(1, len(cli2)))
    ci = 0
    for i, c in enumerate(rest):
        out.append(c)
        if i % step == step - 1 and ci < len(cli2):
            out.append(cli2[ci])
            ci += 1
    return out + cli2[ci:]


def case_setup(case):
    """-> (fld, names, eps, s) for a direct case; s = largest special-case index (-1 if none)"""
    fld = Fld(case["d"])
    names = [g["name"] for g in case["goals"]]
    eps = [ep_from_terms(fld, g["terms"]) for g in case["goals"]]
    s = -1
    for g in case["goals"]:
        if g["wrap"] != "none":
            s = max(s, len(g["specials"]) - 1)
    return fld, names, eps, s


# =====================================================================================================
# sympy side (worker only)
# =====================================================================================================
def sym_n():
    import sympy as sp
    return sp.Symbol("n", integer=True)


def sqrt_sym(d):
    import sympy as sp
    if d == 0:
        return sp.Integer(0)
    if d == -1:
        return sp.I
    if d < 0:
        return sp.sqrt(-d) * sp.I
    return sp.sqrt(d)


def to_sym(x, d):
    import sympy as sp
    a = sp.Rational(x[0].numerator, x[0].denominator)
    if x[1] == 0:
        return a
    return a + sp.Rational(x[1].numerator, x[1].denominator) * sqrt_sym(d)


def build_closed_form(goal, fld):
    """sympy expression for one goal of a direct case (what Polar's solvers would hand to InvariantIdeal)"""
    import sympy as sp
    n = sym_n()
    d = fld.d
    expr = sp.Integer(0)
    parts = []
    for coef, j, base, form in goal["terms"]:
        c = fld.dec(coef)
        b = fld.dec(base)
        if b == fld.one:
            e = sp.Integer(1)
        elif form[0] == "mulexp":
            root, k = sp.Rational(form[1]), int(form[2])
            e = sp.Pow(root, k * n)
        elif form[0] == "shift":
            sh = int(form[1])
            c = fld.mul(c, fld.powi(b, -sh))
            e = sp.Pow(to_sym(b, d), n + sh)
        else:
            e = sp.Pow(to_sym(b, d), n)
        parts.append(to_sym(c, d) * n ** int(j) * e)
    expr = sp.Add(*parts) if parts else sp.Integer(0)
    wrap = goal.get("wrap", "none")
    sp_vals = [sp.Rational(v) for v in goal.get("specials", [])]
    if wrap == "piecewise" and sp_vals:
        conds = [(v, n <= i) for i, v in enumerate(sp_vals)]
        return sp.Piecewise(*conds, (expr, True))
    if wrap == "sum" and sp_vals and len(parts) >= 1:
        # 2*Piecewise(.., (f1, True)) + Piecewise(.., (f2, True))  with 2*f1 + f2 == expr
        f1 = parts[0] / 2
        f2 = sp.Add(*parts[1:]) if len(parts) > 1 else sp.Integer(0)
        p1 = sp.Piecewise(*[(v, n <= i) for i, v in enumerate(sp_vals)], (f1, True))
        p2 = sp.Piecewise((sp_vals[0] + 1, n <= 0), (f2, True))
        return 2 * p1 + p2
    return expr


def to_fld(expr, fld):
    """sympy number -> element of fld, or raise ValueError"""
    import sympy as sp
    e = sp.expand(sp.sympify(expr))
    if e.free_symbols:
        raise ValueError(f"free symbols in coefficient {e}")
    if not e.is_Rational:
        e = sp.expand(sp.radsimp(e))
    if e.is_Rational:
        return (F(int(e.p), int(e.q)), F(0))
    d = fld.d
    if d == 0:
        e2 = sp.nsimplify(e)
        if e2.is_Rational:
            return (F(int(e2.p), int(e2.q)), F(0))
        raise ValueError(f"irrational coefficient {e}")
    s = sqrt_sym(d)
    if d > 0:
        rt = sp.sqrt(d)
        conj = e.xreplace({rt: -rt})
    else:
        conj = e.xreplace({sp.I: -sp.I})
    a = sp.expand((e + conj) / 2)
    b = sp.expand((e - conj) / (2 * s))
    if not (a.is_Rational and b.is_Rational) or sp.expand(a + b * s - e) != 0:
        raise ValueError(f"coefficient {e} not in Q(sqrt({d}))")
    return (F(int(a.p), int(a.q)), F(int(b.p), int(b.q)))


def detect_field(exprs):
    """quadratic field needed for the numbers occurring in the sympy expressions: 0, d, or None (unsupported)"""
    import sympy as sp
    reals = set()
    has_i = False
    for e in exprs:
        e = sp.sympify(e)
        has_i = has_i or e.has(sp.I)
        for p in e.atoms(sp.Pow):
            if p.exp.is_Rational and not p.exp.is_Integer:
                if p.exp.q != 2 or not p.base.is_Rational:
                    return None
                val = sp.Rational(p.base)
                sf = 1
                for pr, m in _factor_small(abs(int(val.p * val.q))).items():
                    if m % 2:
                        sf *= pr
                if val < 0:
                    has_i = True
                if sf != 1:
                    reals.add(sf)
    if len(reals) > 1:
        return None
    if has_i and reals:
        return -min(reals) if reals == {3} else None   # sqrt(3)*I is treated as sqrt(-3); anything else is unsupported
    if has_i:
        return -1
    return min(reals) if reals else 0


def general_branch(expr):
    """own version of 'the general case of every Piecewise', and the largest special index k of conditions n <= k"""
    import sympy as sp
    s = [-1]

    def cond_max(c):
        if isinstance(c, (sp.Or, sp.And)):
            for a in c.args:
                cond_max(a)
        elif isinstance(c, sp.core.relational.Relational):
            lhs, rhs = c.lhs, c.rhs
            if isinstance(c, sp.Le) and lhs.is_Symbol and rhs.is_Integer:
                s[0] = max(s[0], int(rhs))
            elif isinstance(c, sp.Lt) and lhs.is_Symbol and rhs.is_Integer:
                s[0] = max(s[0], int(rhs) - 1)
            elif isinstance(c, sp.Ge) and rhs.is_Symbol and lhs.is_Integer:
                s[0] = max(s[0], int(lhs))
            elif isinstance(c, sp.Eq) and lhs.is_Symbol and rhs.is_Integer:
                s[0] = max(s[0], int(rhs))
            else:
                raise ValueError(f"unrecognised special-case condition {c}")

    def rec(e):
        if isinstance(e, sp.Piecewise):
            dflt = None
            for val, c in e.args:
                if c == True:  # noqa: E712
                    dflt = val
                else:
                    cond_max(c)
            if dflt is None:
                raise ValueError("Piecewise without default branch")
            return rec(dflt)
        if not e.args:
            return e
        return e.func(*[rec(a) for a in e.args])

    out = rec(sp.sympify(expr))
    return out, s[0]


def sympy_to_ep(expr, fld):
    """convert a sympy exponential polynomial in n (numbers in fld) to an EP, or raise ValueError.  Own structural
    converter: expand, then every term must be  number * n**j * prod base_i**(a_i*n + c_i)."""
    import sympy as sp
    n = sym_n()
    e = sp.expand(sp.sympify(expr).xreplace({sp.Symbol("n"): n}))
    e = sp.expand(sp.expand_power_exp(e)) if hasattr(sp, "expand_power_exp") else sp.expand(e, power_exp=True)
    out = EP(fld)
    for term in sp.Add.make_args(e):
        coef = fld.one
        j = 0
        base = fld.one
        for fac in sp.Mul.make_args(term):
            if fac == n:
                j += 1
            elif isinstance(fac, sp.Pow) and fac.base == n and fac.exp.is_Integer and fac.exp >= 0:
                j += int(fac.exp)
            elif not fac.free_symbols:
                coef = fld.mul(coef, to_fld(fac, fld))
            elif isinstance(fac, sp.Pow) and not fac.base.free_symbols and fac.exp.free_symbols == {n}:
                ex = sp.expand(fac.exp)
                a = ex.coeff(n, 1)
                c0 = ex.coeff(n, 0)
                if sp.expand(a * n + c0 - ex) != 0 or not a.is_Rational or not c0.is_Rational:
                    raise ValueError(f"exponent {ex} not linear in n")
                if a.is_Integer and c0.is_Integer:
                    b0 = to_fld(fac.base, fld)
                    base = fld.mul(base, fld.powi(b0, int(a)))
                    if c0 != 0:
                        coef = fld.mul(coef, fld.powi(b0, int(c0)))
                else:
                    base = fld.mul(base, to_fld(sp.Pow(fac.base, a), fld))     # e.g. 2**(n/2) -> sqrt(2)**n
                    if c0 != 0:
                        coef = fld.mul(coef, to_fld(sp.Pow(fac.base, c0), fld))
            else:
                raise ValueError(f"factor {fac} is not part of an exponential polynomial in n")
        out = out.add(EP(fld, {(base, j): coef}))
    return out


def basis_to_polys(basis, names, fld, subs=None):
    """Polar's basis (sympy expressions in Symbol(<goal name>)) -> list of (poly, sympy expr) in our representation"""
    import sympy as sp
    gens = [sp.Symbol(nm) for nm in names]
    out = []
    for b in basis:
        e = sp.sympify(b)
        if subs:
            e = e.subs(subs)
        extra = e.free_symbols - set(gens)
        if extra:
            raise ValueError(f"basis element {b} contains symbols {sorted(map(str, extra))} besides the goals")
        P = sp.Poly(e, *gens)
        poly = [(tuple(int(x) for x in m), to_fld(c, fld)) for m, c in P.terms()]
        out.append((poly, e))
    return out


def poly_to_sympy(poly, names, fld):
    import sympy as sp
    gens = [sp.Symbol(nm) for nm in names]
    e = sp.Integer(0)
    for exps, c in poly:
        t = to_sym(c, fld.d)
        for g, k in zip(gens, exps):
            if k:
                t = t * g ** k
        e += t
    return e


def ideal_membership(q_exprs, basis_polys, names, fld):
    """[remainder == 0 for q in q_exprs] modulo the ideal generated by basis_polys (own representation, coefficients in
    fld) via a grevlex Groebner basis (sympy).  Irrational coefficients a + b*sqrt(d) are written a + b*w with a new
    indeterminate w and the generator w**2 - d, so that sympy only ever computes over QQ:
    Q(sqrt d)[x] = Q[w, x]/(w**2 - d), hence a rational q lies in the ideal iff it lies in <basis(w), w**2 - d>."""
    import sympy as sp
    gens = [sp.Symbol(nm) for nm in names]
    if not basis_polys:
        return [sp.expand(q) == 0 for q in q_exprs], None
    w = sp.Symbol("w_sqrt_d")
    irrational = any(c[1] != 0 for poly in basis_polys for _, c in poly)
    exprs = []
    for poly in basis_polys:
        e = sp.Integer(0)
        for exps, c in poly:
            t = sp.Rational(c[0].numerator, c[0].denominator)
            if c[1] != 0:
                t = t + sp.Rational(c[1].numerator, c[1].denominator) * w
            for g, k in zip(gens, exps):
                if k:
                    t = t * g ** k
            e += t
        exprs.append(e)
    allgens = gens
    if irrational:
        exprs.append(w ** 2 - fld.d)
        allgens = [w] + gens
    G = sp.groebner(exprs, *allgens, order="grevlex", domain=sp.QQ)
    res = []
    for q in q_exprs:
        _, r = G.reduce(sp.expand(q))
        res.append(sp.expand(r) == 0)
    return res, G


# =====================================================================================================
# monitoring hooks on the real Polar classes (call-through wrappers; record arguments and results)
# =====================================================================================================
LOG = {"events": {}, "lattices": [], "closed_forms": [], "bases": [], "abstracted": []}
_hooked = False


def reset_log():
    LOG["events"] = {}
    LOG["lattices"] = []
    LOG["closed_forms"] = []
    LOG["bases"] = []
    LOG["abstracted"] = []


def _count(name):
    LOG["events"][name] = LOG["events"].get(name, 0) + 1


def install_hooks():
    global _hooked
    if _hooked:
        return
    from .. import polar_api as P
    P.load()
    from invariants.invariant_ideal import InvariantIdeal
    from invariants.exponent_lattice import ExponentLattice
    from invariants.lattice_ideal import LatticeIdeal

    def wrap(cls, name, label, after=None, before=None):
        orig = getattr(cls, name)

        def w(self, *a, **k):
            _count(label)
            if before:
                before(self, *a, **k)
            r = orig(self, *a, **k)
            if after:
                after(self, r)
            return r
        w.__wrapped__ = orig
        setattr(cls, name, w)

    wrap(InvariantIdeal, "__init__", "InvariantIdeal.__init__",
         before=lambda self, cfs: LOG["closed_forms"].append(dict(cfs)),
         after=lambda self, r: LOG["abstracted"].append((dict(self.closed_forms), dict(self.base_to_symbol))))
    wrap(InvariantIdeal, "compute_basis", "InvariantIdeal.compute_basis", after=lambda self, r: LOG["bases"].append(set(r)))
    wrap(ExponentLattice, "compute_basis", "ExponentLattice.compute_basis",
         after=lambda self, r: LOG["lattices"].append((list(self.bases), [list(v) for v in r])))
    wrap(ExponentLattice, "compute_basis_rational", "ExponentLattice.compute_basis_rational")
    wrap(ExponentLattice, "compute_basis_kauers", "ExponentLattice.compute_basis_kauers")
    wrap(LatticeIdeal, "compute_basis", "LatticeIdeal.compute_basis")
    try:
        from cli.actions.goals_action import GoalsAction
        wrap(GoalsAction, "handle_invariants", "GoalsAction.handle_invariants")
        wrap(GoalsAction, "handle_all_goals", "GoalsAction.handle_all_goals")
    except Exception:
        pass
    _hooked = True


def _factor_small(m):
    """trial-division factorisation of a positive integer"""
    out = {}
    p = 2
    while p * p <= m:
        while m % p == 0:
            out[p] = out.get(p, 0) + 1
            m //= p
        p += 1
    if m > 1:
        out[m] = out.get(m, 0) + 1
    return out


def lattice_diagnosis(fld_hint=None):
    """diagnostic predicates over the exponent lattices Polar returned during the last call (from the hook log):
       bad_vectors      : returned vectors v with prod bases**v != 1 (exact check; rational or quadratic bases)
       nonintegral      : all bases rational and the rational kernel basis (free variable = 1) of the prime-exponent
                          matrix (with the parity column for the factor -1) has a non-integer entry
    """
    import sympy as sp
    diag = {"bad_vectors": [], "nonintegral": False, "all_rational": None, "bases": [], "lattice": [],
            "irrational_coefficients": irrational_coefficients()}
    for bases, vecs in LOG["lattices"]:
        diag["bases"] = [str(b) for b in bases]
        diag["lattice"] = vecs
        allrat = all(sp.sympify(b).is_Rational for b in bases)
        diag["all_rational"] = allrat
        try:
            d = 0 if allrat else detect_field(bases)
            if d is None:
                continue
            fld = Fld(d)
            bs = [to_fld(b, fld) for b in bases]
            for v in vecs:
                prod = fld.one
                for b, e in zip(bs, v):
                    prod = fld.mul(prod, fld.powi(b, int(e)))
                if prod != fld.one:
                    diag["bad_vectors"].append(list(map(int, v)))
        except (ValueError, ZeroDivisionError):
            pass
        if allrat and bases:
            primes = {}
            neg = [0] * len(bases)
            for i, b in enumerate(bases):
                r = sp.Rational(b)
                if r < 0:
                    neg[i] = 1
                for p, m in _factor_small(abs(int(r.p))).items():
                    primes.setdefault(p, [0] * len(bases))[i] += m
                for p, m in _factor_small(int(r.q)).items():
                    primes.setdefault(p, [0] * len(bases))[i] -= m
            rows = [[F(x) for x in mult] + ([F(0)] if any(neg) else []) for mult in primes.values()]
            ncols = len(bases) + (1 if any(neg) else 0)
            if any(neg):
                rows.append([F(x) for x in neg] + [F(2)])
            ker = nullspace(rows, ncols)
            if any(x.denominator != 1 for v in ker for x in v):
                diag["nonintegral"] = True
    return diag


class _Budget(BaseException):
    pass


def recompute_with_algebraic_domain(names, budget_s=12):
    """DIAGNOSIS ONLY (never decides a verdict): repeat the elimination of InvariantIdeal.compute_basis on Polar's own
    intermediate data (abstracted closed forms, returned exponent lattice) with groebner(..., extension=True), i.e. over
    QQ<alpha> instead of sympy's EX domain.  Returns the list of elimination-ideal generators or None (budget/exception)."""
    import signal
    import sympy as sp
    if not LOG["abstracted"] or not LOG["lattices"]:
        return None
    cfs, b2s = LOG["abstracted"][-1]
    _bases, vecs = LOG["lattices"][-1]
    ev = dict(LOG["events"])

    def onalarm(*_a):
        raise _Budget()

    old = signal.signal(signal.SIGALRM, onalarm)
    signal.setitimer(signal.ITIMER_REAL, budget_s)
    try:
        from invariants.lattice_ideal import LatticeIdeal
        bsyms = list(b2s.values())
        polys = [sy - cf for sy, cf in cfs.items()] + list(LatticeIdeal(vecs, bsyms).compute_basis())
        n = sym_n()
        G = sp.groebner(polys, n, *bsyms, *cfs.keys(), extension=True)
        forb = set(bsyms) | {n}
        return [g for g in G if not (forb & g.free_symbols)]
    except _Budget:
        return None
    except Exception:
        return None
    finally:
        signal.setitimer(signal.ITIMER_REAL, 0)
        signal.signal(signal.SIGALRM, old)
        LOG["events"] = ev


def irrational_coefficients():
    """do the polynomials Polar hands to sympy.groebner have irrational (algebraic) coefficients?  Then sympy picks the
    EX coefficient domain (no reliable zero test)."""
    import sympy as sp
    if not LOG["abstracted"]:
        return False
    cfs, _ = LOG["abstracted"][-1]
    for cf in cfs.values():
        cf = sp.sympify(cf)
        if cf.has(sp.I) or any(p.exp.is_Rational and not p.exp.is_Integer for p in cf.atoms(sp.Pow)):
            return True
    return False


KEY_EX = "groebner-ex-domain-irrational-coefficients"


def attribute(diag, fixed_by_algebraic_domain=None, need_bad_vector=False):
    """mechanism key for a wrong / missing invariant, from diagnostic predicates (need_bad_vector: an UNSOUND invariant
       is attributed to the lattice only if a returned lattice vector really violates prod b^v = 1):
       - all exponent bases rational and the rational kernel of the prime-exponent matrix is not integral (Polar truncates
         it with astype(int))                                                      -> KEY_LATTICE
       - the returned lattice is multiplicatively valid, the polynomials given to groebner have irrational coefficients
         (EX domain) and repeating the elimination over QQ<alpha> does not show the defect (or could not be done in the
         budget)                                                                   -> KEY_EX"""
    if diag.get("all_rational") and diag.get("nonintegral") and (diag.get("bad_vectors") or not need_bad_vector):
        return KEY_LATTICE
    if not diag.get("bad_vectors") and diag.get("irrational_coefficients") and fixed_by_algebraic_domain is not False:
        return KEY_EX
    return None


def diagnose_and_key(names, fixed_fn, need_bad_vector=False):
    """-> (key, diag, fixed).  fixed_fn(recomputed_basis) -> bool tells whether the elimination repeated over QQ<alpha>
    is free of the observed defect (only evaluated when the EX-domain predicate applies)."""
    diag = lattice_diagnosis()
    fixed = None
    if attribute(diag) != KEY_LATTICE and diag["irrational_coefficients"] and not diag["bad_vectors"]:
        rec = recompute_with_algebraic_domain(names)
        if rec is not None:
            try:
                fixed = bool(fixed_fn(rec))
            except Exception:
                fixed = None
    return attribute(diag, fixed, need_bad_vector), diag, fixed


def diag_text(diag, fixed):
    return (f"exponent lattice returned for bases {diag['bases']}: {diag['lattice']}, vectors violating prod b^v=1: "
            f"{diag['bad_vectors']}, rational kernel non-integral: {diag['nonintegral']}, irrational coefficients passed to "
            f"groebner (EX domain): {diag['irrational_coefficients']}, defect absent when the same elimination is done over QQ<alpha>: {fixed}")


def run_polar_direct(case):
    """calls the real InvariantIdeal on the case's closed forms -> (basis set, closed form dict)"""
    from .. import polar_api as P
    install_hooks()
    reset_log()
    from invariants import InvariantIdeal
    fld = Fld(case["d"])
    cfs = {g["name"]: build_closed_form(g, fld) for g in case["goals"]}
    ideal = InvariantIdeal(dict(cfs))
    basis = ideal.compute_basis()
    return basis, cfs


# =====================================================================================================
# CLI workload
# =====================================================================================================
def _fmt(x):
    x = F(x)
    return str(x.numerator) if x.denominator == 1 else f"{x.numerator}/{x.denominator}"


def _t_fib(rng):
    a, b = rng.choice([(0, 1), (1, 1), (2, 1), (1, 3), (0, 2)])
    return f"a,b = {a}, {b}\nwhile true:\n    a, b = b, a + b\nend\n", None, ["fibonacci", "field:sqrt(5)"]


def _t_squares(rng):
    c = rng.choice([1, 2, 3])
    return (f"x = 0\ny = 0\nwhile true:\n    y = y + {2*c}*x + {c}\n    x = x + 1\nend\n", None, ["squares", "poly"])


def _t_sums(rng):
    a = rng.choice([1, 2, 3])
    c = rng.choice([1, 1, 2, -1])
    i0 = rng.choice([0, 0, 1, 2])
    return (f"i = {i0}\ns = 0\nq = 0\nwhile true:\n    i = i + {a}\n    s = s + {c}*i\n    q = q + i**2\nend\n", None, ["power-sums", "poly"])


def _t_geo(rng):
    p, q = rng.choice([("2", "4"), ("4", "8"), ("9", "27"), ("2", "1/2"), ("2", "3"), ("4", "2"), ("3", "9"), ("-1", "2"), ("8", "2"), ("1/2", "1/4")])
    x0, y0 = rng.choice([(1, 1), (1, 2), (3, 1)])
    return (f"x = {x0}\ny = {y0}\nwhile true:\n    x = {p}*x\n    y = {q}*y\nend\n", None, ["det-geometric", f"bases:{p},{q}"])


def _t_walks(rng):
    a, b = rng.choice([(1, 1), (2, 1), (1, 2), (3, 1)])
    c, d = rng.choice([(1, 1), (2, 2), (1, 3), (2, 1)])
    p = rng.choice(["1/2", "1/3", "1/4", "2/3"])
    q = rng.choice(["1/2", "1/2", "1/5", "3/4"])
    goals = rng.choice([["E(x)", "E(y)", "c2(x)", "c2(y)"], ["E(x)", "E(y)", "c2(x)", "c2(y)"], ["E(x)", "E(x**2)", "E(y)"],
                        ["E(x)", "c2(x)", "k3(x)"], ["E(x*y)", "E(x)", "E(y)"], ["k2(x)", "k2(y)", "E(x)"],
                        # central moment and cumulant of the same order >= 4 of one monomial (they differ from order 4 on)
                        ["E(x)", "c2(x)", "c4(x)", "k4(x)"], ["c2(x)", "k4(x)", "E(x)"], ["k4(x)", "c4(x)", "c2(y)"]])
    return (f"x = 0\ny = 0\nwhile true:\n    x = x + {a} {{{p}}} x - {b}\n    y = y + {c} {{{q}}} y - {d}\nend\n", goals, ["random-walks"])


def _t_growth(rng):
    k1, p1 = rng.choice([("2", "1/2"), ("3", "1/4"), ("2", "1/4"), ("4", "1/2")])
    k2, p2 = rng.choice([("3", "1/4"), ("2", "1/2"), ("5", "1/8"), ("3", "1/2")])
    goals = rng.choice([["E(x)", "E(y)"], ["E(x)", "E(y)", "E(x**2)"], ["E(x)", "E(x*y)", "E(y)"]])
    return (f"x = 1\ny = 1\nwhile true:\n    x = {k1}*x {{{p1}}} x\n    y = {k2}*y {{{p2}}} y\nend\n", goals, ["random-growth"])


def _t_bern(rng):
    p = rng.choice(["1/2", "1/3", "3/4"])
    m = rng.choice([2, 3])
    goals = rng.choice([["E(s)", "E(t)", "c2(s)", "c2(t)"], ["E(s)", "E(t)", "E(s*t)"], ["E(s)", "c2(s)", "k3(s)"], ["E(s)", "E(s**2)", "c2(t)"],
                        ["E(s)", "c3(s)", "k4(s)"], ["c4(s)", "k4(s)", "c2(s)"]])
    return (f"s = 0\nt = 0\nwhile true:\n    b = Bernoulli({p})\n    s = s + b\n    t = t + {m}*b\nend\n", goals, ["bernoulli-sums"])


def _t_fib_lucas(rng):
    # Fibonacci next to a Lucas-type sequence of every second index (bases phi, psi, phi**2, psi**2; sqrt(5) coefficients)
    c0, c1 = rng.choice([(4, 11), (4, 11), (2, 3), (1, 4)])
    goals = rng.choice([["a", "c"], ["a", "c"], ["b", "c"]])
    return (f"a, b = 0, 1\nc, d = {c0}, {c1}\nwhile true:\n    a, b = b, a + b\n    c, d = d, 3*d - c\nend\n", goals,
            ["fibonacci+lucas2", "field:sqrt(5)"])


def _t_alt(rng):
    z0 = rng.choice([1, 2, -1, 3])
    k = rng.choice([1, 2, 3])
    x0 = rng.choice([0, 1, 5])
    return (f"z = {z0}\nx = {x0}\nwhile true:\n    z = -z\n    x = x + {k}*z\nend\n", None, ["alternating", "base:-1"])


def _t_rot(rng):
    v = rng.choice(["x, y = -y, x", "x, y = x - y, x + y", "x, y = 2*y, -2*x"])
    return (f"x = 1\ny = 0\nwhile true:\n    {v}\nend\n", None, ["rotation", "field:sqrt(-1)"])


def _t_jordan(rng):
    b = rng.choice(["2", "3", "1/2", "-2", "4"])
    x0, y0 = rng.choice([(0, 1), (1, 1), (2, 3), (0, 2)])
    return (f"x = {x0}\ny = {y0}\nwhile true:\n    x = {b}*x + y\n    y = {b}*y\nend\n", None, ["jordan-block", "n*b^n"])


def _t_pell(rng):
    upd, f = rng.choice([("3*x + 4*y, 2*x + 3*y", "sqrt(2)"), ("2*x + 3*y, x + 2*y", "sqrt(3)"), ("x + 2*y, x + y", "sqrt(2)"),
                         ("9*x + 20*y, 4*x + 9*y", "sqrt(5)")])
    x0, y0 = rng.choice([(1, 0), (1, 1), (3, 2), (2, 0)])
    return (f"x = {x0}\ny = {y0}\nwhile true:\n    x, y = {upd}\nend\n", None, ["pell", f"field:{f}"])


def _t_lin(rng):
    a = rng.choice([1, 2, 3, -2])
    b = rng.choice([1, 2, -1, 0])
    m = rng.choice(["2", "3", "1/2", "-1"])
    z0 = rng.choice([1, 2, 5])
    return (f"x = 0\ny = {b}\nz = {z0}\nwhile true:\n    x = x + y\n    y = y + {a}\n    z = {m}*z\nend\n", None, ["poly+exp"])


def _t_normal(rng):
    goals = rng.choice([["E(x)", "c2(x)", "E(y)"], ["E(x**2)", "E(y)", "E(x)"], ["E(x)", "k2(x)", "k3(x)"], ["c2(x)", "c4(x)", "k4(x)", "E(y)"]])
    mu, var, st = rng.choice([1, 2, -1, 0]), rng.choice([1, 2, 4]), rng.choice([1, 3, -2])
    return (f"x = 0\ny = 0\nwhile true:\n    g = Normal({mu}, {var})\n    x = x + g\n    y = y + {st}\nend\n", goals, ["normal-walk"])


TEMPLATES = [_t_fib_lucas, _t_fib, _t_squares, _t_sums, _t_geo, _t_geo, _t_walks, _t_walks, _t_growth, _t_bern, _t_alt, _t_rot, _t_jordan,
             _t_pell, _t_lin, _t_normal]

DOC_GOALS = {
    "random_walk_param.prob": [["E(x)", "c2(x)"], ["E(x)", "E(x**2)"]],
    "geometric.prob": [None, ["E(steps)", "E(stop)", "E(x)"]],
    "loop.prob": [["E(y)", "E(x)"], ["E(y)", "c2(y)"]],
    "fibonacci.prob": [None],
    "fibonacci2.prob": [None],
}
# markov-triples-random.prob is not used: its updates are non-linear (3*a*b - c) and Polar does not return within minutes
DOC_SKIP = {"markov-triples-random.prob"}


def gen_cli(seed_fn, count, tier):
    """count template cases + the documentation loops; seed_fn(i) -> per-case seed"""
    cases = []
    seen = set()
    for i in range(count):
        cs = seed_fn(10_000 + i)
        rng = random.Random(cs)
        for _attempt in range(6):
            tpl = TEMPLATES[i % len(TEMPLATES)] if (i < 2 * len(TEMPLATES) and _attempt == 0) else rng.choice(TEMPLATES)
            text, goals, feats = tpl(rng)
            if (text, str(goals)) not in seen:
                break
        else:
            continue
        seen.add((text, str(goals)))
        cases.append({"id": f"cli-{tpl.__name__[3:]}-{cs}", "kind": "cli", "text": text, "goals": goals, "params": {},
                      "features": ["cli"] + ["cli:" + f for f in feats]})
    # designed: central moment and cumulant of the same order (>= 4) and monomial side by side; they are different quantities
    # from order 4 on, so a mix-up of the two goal kinds (names, keys, closed forms) yields relations that are false
    for j, (text, goals) in enumerate([
            ("z = 0\nwhile true:\n    z = z + 1 {1/3} z - 1\nend\n", ["E(z)", "c2(z)", "c3(z)", "k2(z)", "k4(z)"]),
            ("s = 0\nwhile true:\n    b = Bernoulli(1/3)\n    s = s + b\nend\n", ["c4(s)", "k4(s)", "c2(s)"]),
            ("x = 0\nwhile true:\n    x = x + 2 {1/4} x - 1\nend\n", ["k4(x)", "c4(x)", "E(x)"])][:count]):
        cases.append({"id": f"cli-designed-central-vs-cumulant-{j}", "kind": "cli", "text": text, "goals": goals, "params": {},
                      "features": ["cli", "cli:central-and-cumulant-order4"]})
    for path in sorted(glob.glob(os.path.join(REPO, "documentation", "loops", "*.prob"))):
        name = os.path.basename(path)
        if name in DOC_SKIP:
            continue
        try:
            with open(path) as f:
                text = f.read()
        except OSError:
            continue
        for gi, goals in enumerate(DOC_GOALS.get(name, [None])):
            params = {"p": "1/3"} if "random_walk_param" in name else {}
            cases.append({"id": f"cli-doc-{name}-{gi}", "kind": "cli", "text": text, "goals": goals, "params": params,
                          "features": ["cli", "cli:doc-loop"]})
    return cases


_GOAL_E = re.compile(r"^E\((.*)\)$")
_GOAL_CK = re.compile(r"^([ck])(\d+)\((.*)\)$")
_MONO = re.compile(r"([A-Za-z_]\w*)(?:\*\*(\d+))?")


def parse_monomial(s):
    s = s.strip()
    if not re.fullmatch(r"[A-Za-z_]\w*(\*\*\d+)?(\*[A-Za-z_]\w*(\*\*\d+)?)*", s.replace(" ", "")):
        raise ValueError(f"not a monomial: {s}")
    m = {}
    for v, k in _MONO.findall(s.replace(" ", "")):
        m[v] = m.get(v, 0) + (int(k) if k else 1)
    return m


def parse_goal_id(gid):
    """'E(x**2)' -> ('E', 1, {x:2}); 'c2(x)' -> ('c', 2, {x:1}); 'k3(x)' -> ('k', 3, ..); 'x' -> ('E', 1, {x:1})"""
    m = _GOAL_CK.match(gid)
    if m:
        return (m.group(1), int(m.group(2)), parse_monomial(m.group(3)))
    m = _GOAL_E.match(gid)
    if m:
        return ("E", 1, parse_monomial(m.group(1)))
    return ("E", 1, parse_monomial(gid))


def _binom(n, k):
    return math.comb(n, k)


def goal_value(spec, raw):
    """raw(k) -> E[M**k] (Fraction) ; central moment / cumulant from raw moments by the textbook formulas"""
    kind, K, _ = spec
    if kind == "E":
        return raw(1)
    m = [F(1)] + [raw(i) for i in range(1, K + 1)]
    if kind == "c":
        mu = m[1]
        return sum(_binom(K, i) * m[i] * (-mu) ** (K - i) for i in range(K + 1))
    kap = [F(0)] * (K + 1)
    for r in range(1, K + 1):
        kap[r] = m[r] - sum(_binom(r - 1, i - 1) * kap[i] * m[r - i] for i in range(1, r))
    return kap[K]


class CliSkip(Exception):
    def __init__(self, reason, detail=""):
        super().__init__(reason)
        self.reason = reason
        self.detail = detail


def oracle_goal_table(text, params, specs, N, max_states=40000, min_n=None):
    """exact goal values at n = 0..N from the reference engine: list over goals of lists over n.  When the engine's
    state cap is hit after iteration >= min_n (if given) the table is returned truncated at the last completed n."""
    from ..lang.parser import parse_program
    from ..ref.engine import Engine, Unsupported, CapExceeded, DomainError
    from ..ref import laws
    try:
        prog = parse_program(text)
        eng = Engine(prog, {k: F(v) for k, v in params.items()}, {}, max_states=max_states)
        dists = [eng.initial()]
        try:
            for _ in range(N):
                dists.append(eng.step(dists[-1]))
        except CapExceeded as e:
            if min_n is None or len(dists) - 1 < min_n:
                raise
        table = []
        for spec in specs:
            mono = spec[2]
            row = []
            for dist in dists:
                def raw(k, dist=dist):
                    v = eng.moment(dist, {x: e * k for x, e in mono.items()})
                    if not isinstance(v, F):
                        raise CliSkip("oracle-inexact")
                    return v
                try:
                    row.append(goal_value(spec, raw))
                except CapExceeded:
                    break
            table.append(row)
        m = min(len(r) for r in table) if table else 0
        if m - 1 < (N if min_n is None else min_n):
            raise CliSkip("oracle-cap", "moment evaluation hit the cap")
        return [r[:m] for r in table]
    except Unsupported as e:
        raise CliSkip("oracle-unsupported", str(e)[:80])
    except CapExceeded as e:
        raise CliSkip("oracle-cap", str(e)[:80])
    except DomainError as e:
        raise CliSkip("program-ill-defined", str(e)[:80])
    except laws.Divergent as e:
        raise CliSkip("oracle-divergent", str(e)[:80])


def parse_invariants_section(out, goal_ids):
    """the polynomials printed in the 'Invariants' section of the CLI output -> (list of sympy exprs in
    Symbol(goal id), reported_none flag)"""
    import sympy as sp
    idx = out.find("-   Invariants    -")
    if idx < 0:
        raise CliSkip("no-invariants-section")
    sec = out[idx:]
    none = "There are not polynomial invariants" in sec
    ids = sorted(goal_ids, key=len, reverse=True)
    place = {gid: f"G{goal_ids.index(gid)}QQ" for gid in goal_ids}
    polys = []
    for line in sec.splitlines():
        line = line.strip()
        if not line.endswith("= 0"):
            continue
        lhs = line[:-3].strip()
        for gid in ids:
            lhs = re.sub(r"(?<![\w])" + re.escape(gid) + r"(?![\w(])", place[gid], lhs)
        loc = {place[g]: sp.Symbol(g) for g in goal_ids}
        e = sp.sympify(lhs, locals=loc)
        polys.append(e)
    return polys, none


def run_polar_cli(case):
    """real CLI in-process -> dict(goal_ids, closed_forms (captured at InvariantIdeal.__init__), printed, returned,
    reported_none, stdout)"""
    import tempfile
    from .. import polar_api as P
    install_hooks()
    reset_log()
    with tempfile.NamedTemporaryFile("w", suffix=".prob", delete=False) as f:
        f.write(case["text"])
        path = f.name
    argv = [path]
    if case.get("goals"):
        argv += ["--goals"] + list(case["goals"])
    argv += ["--invariants"]
    try:
        P.reset_settings()
        try:
            out = P.run_cli(argv)
        except SystemExit:
            raise P.CliRefused("SystemExit")
        except Exception as e:
            raise P.CliRefused(P.refusal_key(e))
    finally:
        os.unlink(path)
        P.reset_settings()
    if not LOG["closed_forms"] or not LOG["bases"]:
        raise CliSkip("invariant-hook-not-reached")
    cfs = LOG["closed_forms"][-1]
    goal_ids = list(cfs.keys())
    printed, none = parse_invariants_section(out, goal_ids)
    # what is checked must be exactly what Polar computed and printed: the parsed lines have to reproduce the returned set
    import sympy as sp
    returned = list(LOG["bases"][-1])
    left = list(returned)
    for pz in printed:
        hit = next((r for r in left if sp.expand(pz - r) == 0), None)
        if hit is None:
            raise CliSkip("cli-parse-mismatch", f"printed '{pz}' is not an element of the returned basis")
        left.remove(hit)
    if left or (none and returned):
        raise CliSkip("cli-parse-mismatch", f"{len(left)} returned basis elements were not printed")
    return {"goal_ids": goal_ids, "closed_forms": cfs, "printed": printed, "returned": LOG["bases"][-1], "reported_none": none,
            "stdout": out}
