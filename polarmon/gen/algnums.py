"""Workload and oracle arithmetic for C16 (exponent lattices of lists of non-zero algebraic numbers).

Nothing in this file imports sympy or Polar.  It contains
  * exact integer-lattice tools over Python ints (echelon form by gcd row operations, integer kernel,
    membership in a Z-span),
  * own factorisation of rationals into sign and prime exponents,
  * exact arithmetic in the number fields Q[x_1..x_m]/(x_j^{n_j} - m_j) (full degree by choice of the
    generators: quadratic, biquadratic, pure cubic fields) with Fraction coefficients,
  * for a few fields of class number one a list of "atoms" (torsion generator, fundamental unit, pairwise
    non-associate primes): a base built as  zeta^t * prod atom_j^{a_j}  has a unique such representation,
    so the full relation lattice of a list of such bases is the integer kernel of the exponent matrix
    with a congruence for the torsion exponent,
  * the seeded case generators (rational lists and algebraic lists).
"""
import itertools
import math
import random
from fractions import Fraction


# ------------------------------------------------------------------------------------------------ integer lattices
def echelon(rows, ncols):
    """integer row echelon form (unimodular row operations only) of the given integer rows.
    Returns the non-zero rows; pivot columns strictly increase; the rows are a Z-basis of the Z-span."""
    rows = [list(map(int, r)) for r in rows if any(r)]
    r = 0
    for c in range(ncols):
        if r >= len(rows):
            break
        while True:
            nz = [i for i in range(r, len(rows)) if rows[i][c] != 0]
            if not nz:
                break
            piv = min(nz, key=lambda i: abs(rows[i][c]))
            rows[r], rows[piv] = rows[piv], rows[r]
            clean = True
            for i in range(r + 1, len(rows)):
                if rows[i][c] != 0:
                    q = rows[i][c] // rows[r][c]
                    rows[i] = [a - q * b for a, b in zip(rows[i], rows[r])]
                    if rows[i][c] != 0:
                        clean = False
            if clean:
                if rows[r][c] < 0:
                    rows[r] = [-a for a in rows[r]]
                r += 1
                break
    return [row for row in rows[:r]]


def pivots(ech):
    return [next(j for j, a in enumerate(row) if a != 0) for row in ech]


def in_span(ech, v):
    """is the integer vector v an INTEGER combination of the echelon rows?"""
    v = list(map(int, v))
    for row, p in zip(ech, pivots(ech)):
        if v[p] % row[p] != 0:
            return False
        q = v[p] // row[p]
        if q:
            v = [a - q * b for a, b in zip(v, row)]
    return not any(v)


def int_kernel(mat_rows, k):
    """Z-basis of { e in Z^k : M e = 0 } for the integer matrix M given by its rows (each of length k)."""
    m = len(mat_rows)
    aug = []
    for i in range(k):
        aug.append([int(mat_rows[r][i]) for r in range(m)] + [1 if j == i else 0 for j in range(k)])
    ech = echelon(aug, m + k)
    return [row[m:] for row in ech if not any(row[:m])]


def relation_lattice(exp_rows, tors_row, w, k):
    """{ e in Z^k : A e = 0 and tors_row . e = 0 (mod w) };  exp_rows = rows of A.  Z-basis (echelon)."""
    if w and any(t % w for t in tors_row):
        rows = [list(r) + [0] for r in exp_rows] + [[t % w for t in tors_row] + [w]]
        ker = int_kernel(rows, k + 1)
        proj = [v[:k] for v in ker]
    else:
        proj = int_kernel(exp_rows, k) if exp_rows else [[1 if j == i else 0 for j in range(k)] for i in range(k)]
    return echelon(proj, k)


def rank(rows, ncols):
    return len(echelon(rows, ncols))


def rref_nullspace(rows, ncols):
    """canonical rational nullspace basis (free variable = 1) of a rational matrix: the same object a CAS
    'nullspace()' returns.  Used only by the diagnostic predicate that names the mechanism of a violation."""
    M = [[Fraction(a) for a in r] for r in rows]
    piv = []
    r = 0
    for c in range(ncols):
        p = next((i for i in range(r, len(M)) if M[i][c] != 0), None)
        if p is None:
            continue
        M[r], M[p] = M[p], M[r]
        M[r] = [a / M[r][c] for a in M[r]]
        for i in range(len(M)):
            if i != r and M[i][c] != 0:
                f = M[i][c]
                M[i] = [a - f * b for a, b in zip(M[i], M[r])]
        piv.append(c)
        r += 1
    free = [c for c in range(ncols) if c not in piv]
    out = []
    for f in free:
        v = [Fraction(0)] * ncols
        v[f] = Fraction(1)
        for i, p in enumerate(piv):
            v[p] = -M[i][f]
        out.append(v)
    return out


# ------------------------------------------------------------------------------------------------ rationals
def factor_int(n):
    n = abs(int(n))
    out = {}
    p = 2
    while p * p <= n:
        while n % p == 0:
            out[p] = out.get(p, 0) + 1
            n //= p
        p += 1 if p == 2 else 2
    if n > 1:
        out[n] = out.get(n, 0) + 1
    return out


def factor_rational(q):
    """Fraction -> (is_negative, {prime: exponent})"""
    q = Fraction(q)
    f = dict(factor_int(q.numerator))
    for p, m in factor_int(q.denominator).items():
        f[p] = f.get(p, 0) - m
    return q < 0, f


def rational_lattice(qs):
    """full relation lattice of a list of non-zero rationals: echelon Z-basis, plus the exponent matrix"""
    k = len(qs)
    facs = [factor_rational(q) for q in qs]
    primes = sorted({p for _, f in facs for p in f})
    A = [[f.get(p, 0) for _, f in facs] for p in primes]
    s = [1 if neg else 0 for neg, _ in facs]
    return relation_lattice(A, s, 2, k), primes, A, s


# ------------------------------------------------------------------------------------------------ number fields
class Field:
    """Q[x_1..x_m]/(x_j^{n_j} - m_j); elements are dicts {exponent tuple: Fraction} (zero terms dropped)"""

    def __init__(self, name, gens):
        self.name = name
        self.gens = gens  # list of (n_j, m_j, sympy text, description)
        self.ns = [g[0] for g in gens]
        self.ms = [Fraction(g[1]) for g in gens]
        self.monos = list(itertools.product(*[range(n) for n in self.ns]))
        self.dim = len(self.monos)
        self.zero_exp = tuple(0 for _ in gens)

    def const(self, q):
        q = Fraction(q)
        return {self.zero_exp: q} if q else {}

    def one(self):
        return self.const(1)

    def norm_elem(self, a):
        return {tuple(k): Fraction(v) for k, v in a.items() if v != 0}

    def mul(self, a, b):
        out = {}
        for ea, ca in a.items():
            for eb, cb in b.items():
                c = ca * cb
                e = []
                for j, (x, y) in enumerate(zip(ea, eb)):
                    s = x + y
                    if s >= self.ns[j]:
                        s -= self.ns[j]
                        c *= self.ms[j]
                    e.append(s)
                e = tuple(e)
                v = out.get(e, 0) + c
                if v == 0:
                    out.pop(e, None)
                else:
                    out[e] = v
        return out

    def add(self, a, b):
        out = dict(a)
        for e, c in b.items():
            v = out.get(e, 0) + c
            if v == 0:
                out.pop(e, None)
            else:
                out[e] = v
        return out

    def inv(self, a):
        if not a:
            raise ZeroDivisionError("zero field element")
        # solve a * x = 1 : matrix of multiplication by a on the monomial basis
        idx = {e: i for i, e in enumerate(self.monos)}
        D = self.dim
        cols = []
        for e in self.monos:
            prod = self.mul(a, {e: Fraction(1)})
            col = [Fraction(0)] * D
            for ee, c in prod.items():
                col[idx[ee]] = c
            cols.append(col)
        M = [[cols[j][i] for j in range(D)] + [Fraction(1 if i == 0 else 0)] for i in range(D)]
        for c in range(D):
            p = next((i for i in range(c, D) if M[i][c] != 0), None)
            if p is None:
                raise ArithmeticError("not a field / zero divisor")
            M[c], M[p] = M[p], M[c]
            M[c] = [x / M[c][c] for x in M[c]]
            for i in range(D):
                if i != c and M[i][c] != 0:
                    f = M[i][c]
                    M[i] = [x - f * y for x, y in zip(M[i], M[c])]
        return {e: M[i][D] for i, e in enumerate(self.monos) if M[i][D] != 0}

    def pow(self, a, n):
        n = int(n)
        if n < 0:
            a = self.inv(a)
            n = -n
        res = self.one()
        base = a
        while n:
            if n & 1:
                res = self.mul(res, base)
            n >>= 1
            if n:
                base = self.mul(base, base)
        return res

    def is_one(self, a):
        return a == {self.zero_exp: 1}

    def is_rational(self, a):
        return all(e == self.zero_exp for e in a)

    def product(self, elems, exps):
        res = self.one()
        for b, e in zip(elems, exps):
            if e:
                res = self.mul(res, self.pow(b, e))
        return res

    # JSON
    def enc(self, a):
        return [[list(e), [c.numerator, c.denominator]] for e, c in sorted(a.items())]

    def dec(self, js):
        return {tuple(e): Fraction(c[0], c[1]) for e, c in js}

    def embed(self, a, mp):
        """complex value under the embedding that sends x_j to the principal n_j-th root of m_j"""
        gv = []
        for n, m in zip(self.ns, self.ms):
            mm = mp.mpf(m.numerator) / m.denominator
            gv.append(mp.power(mp.mpc(mm), mp.mpf(1) / n))
        tot = mp.mpc(0)
        for e, c in a.items():
            t = mp.mpc(mp.mpf(c.numerator) / c.denominator)
            for g, x in zip(gv, e):
                if x:
                    t *= g ** x
            tot += t
        return tot


def _el(field, *terms):
    """helper: _el(F, (coef, exps...), ...)"""
    out = {}
    for t in terms:
        c = Fraction(t[0])
        e = tuple(t[1:]) if len(t) > 1 else field.zero_exp
        out[e] = out.get(e, 0) + c
    return field.norm_elem(out)


FIELDS = {}
ATOMS = {}   # field name -> dict(torsion=(element, order), atoms=[(label, element)])


def _deffield(name, gens, torsion=None, atoms=None):
    F = Field(name, gens)
    FIELDS[name] = F
    if torsion is not None:
        ATOMS[name] = {"torsion": (_el(F, *torsion[0]), torsion[1]), "atoms": [(lab, _el(F, *ts)) for lab, ts in atoms]}
    return F


H = Fraction(1, 2)
# Gaussian numbers: Z[i] is a PID, units <i>; 1+i | 2, 2+-i | 5, 3+-2i | 13, 3 and 7 inert
_deffield("QI", [(2, -1, "I")], torsion=([(1, 1)], 4),
          atoms=[("1+i", [(1,), (1, 1)]), ("2+i", [(2,), (1, 1)]), ("2-i", [(2,), (-1, 1)]), ("3", [(3,)]),
                 ("3+2i", [(3,), (2, 1)]), ("3-2i", [(3,), (-2, 1)]), ("7", [(7,)])])
# Eisenstein numbers, r = sqrt(-3): Z[w] is a PID, units <(1+r)/2> of order 6; r | 3, 2 and 5 inert, (5+-r)/2 | 7
_deffield("QW", [(2, -3, "sqrt(3)*I")], torsion=([(H,), (H, 1)], 6),
          atoms=[("sqrt-3", [(1, 1)]), ("2", [(2,)]), ("(5+r)/2", [(5 * H,), (H, 1)]), ("(5-r)/2", [(5 * H,), (-H, 1)]), ("5", [(5,)])])
# Q(sqrt 2): PID, units +-(1+sqrt2)^Z; sqrt2 | 2, 3+-sqrt2 | 7, 3 and 5 inert
_deffield("Q2", [(2, 2, "sqrt(2)")], torsion=([(-1,)], 2),
          atoms=[("1+s2", [(1,), (1, 1)]), ("s2", [(1, 1)]), ("3", [(3,)]), ("3+s2", [(3,), (1, 1)]), ("3-s2", [(3,), (-1, 1)]), ("5", [(5,)])])
# Q(sqrt 3): PID, units +-(2+sqrt3)^Z; sqrt3 | 3, 1+sqrt3 | 2, 4+-sqrt3 | 13, 5 and 7 inert
_deffield("Q3", [(2, 3, "sqrt(3)")], torsion=([(-1,)], 2),
          atoms=[("2+s3", [(2,), (1, 1)]), ("s3", [(1, 1)]), ("1+s3", [(1,), (1, 1)]), ("4+s3", [(4,), (1, 1)]), ("4-s3", [(4,), (-1, 1)]), ("5", [(5,)])])
# Q(sqrt 5): PID, units +-phi^Z, phi=(1+sqrt5)/2; sqrt5 | 5, (7+-sqrt5)/2 | 11, 2 and 3 inert
_deffield("Q5", [(2, 5, "sqrt(5)")], torsion=([(-1,)], 2),
          atoms=[("phi", [(H,), (H, 1)]), ("s5", [(1, 1)]), ("2", [(2,)]), ("3", [(3,)]), ("(7+s5)/2", [(7 * H,), (H, 1)]), ("(7-s5)/2", [(7 * H,), (-H, 1)])])
# Q(2^(1/3)), c^3 = 2: class number 1, units +-(c-1)^Z; c | 2, 1+c | 3, 7 inert
_deffield("QC2", [(3, 2, "2**(1/3)")], torsion=([(-1,)], 2),
          atoms=[("c-1", [(-1,), (1, 1)]), ("c", [(1, 1)]), ("1+c", [(1,), (1, 1)]), ("7", [(7,)])])
# Q(zeta_8) = Q(sqrt2, i): class number 1, units <zeta_8> x (1+sqrt2)^Z; 1+zeta_8 | 2, 1+-sqrt(-2) | 3
_deffield("QZ8", [(2, 2, "sqrt(2)"), (2, -1, "I")], torsion=([(H, 1, 0), (H, 1, 1)], 8),
          atoms=[("1+s2", [(1, 0, 0), (1, 1, 0)]), ("1+z8", [(1, 0, 0), (H, 1, 0), (H, 1, 1)]),
                 ("1+s-2", [(1, 0, 0), (1, 1, 1)]), ("1-s-2", [(1, 0, 0), (-1, 1, 1)])])
# fields used without an atom table (box enumeration only)
_deffield("Q23", [(2, 2, "sqrt(2)"), (2, 3, "sqrt(3)")])
_deffield("QZ12", [(2, 3, "sqrt(3)"), (2, -1, "I")])
_deffield("QM5", [(2, -5, "sqrt(5)*I")])   # class number 2: (1+sqrt-5)(1-sqrt-5) = 2*3
_deffield("Q7", [(2, 7, "sqrt(7)")])
_deffield("QM2", [(2, -2, "sqrt(2)*I")])


def atom_element(fname, t, exps):
    """zeta^t * prod atom_j^{exps_j} as a field element"""
    F = FIELDS[fname]
    info = ATOMS[fname]
    x = F.pow(info["torsion"][0], t)
    for (lab, a), e in zip(info["atoms"], exps):
        if e:
            x = F.mul(x, F.pow(a, e))
    return x


def elem_text(F, a):
    """text of an element that sympy.sympify turns into the exact algebraic number (expanded form)"""
    if not a:
        return "0"
    parts = []
    for e, c in sorted(a.items()):
        fac = []
        for g, x in zip(F.gens, e):
            if x == 1:
                fac.append(f"({g[2]})")
            elif x > 1:
                fac.append(f"({g[2]})**{x}")
        cs = f"({c.numerator})" if c.denominator == 1 else f"(({c.numerator})/{c.denominator})"
        parts.append("*".join([cs] + fac))
    return " + ".join(parts)


# ------------------------------------------------------------------------------------------------ generators
SMALL_PRIMES = [2, 3, 5, 7, 11, 13]


def _rat_str(q):
    q = Fraction(q)
    return f"{q.numerator}/{q.denominator}" if q.denominator != 1 else str(q.numerator)


def gen_rational(rng, profile):
    """list of Fractions + feature list"""
    feats = ["rational", "profile:" + profile]
    if profile == "common-base":       # powers of one base with different multiplicities (4, 8, 1/2; 9, 27, 3)
        k = rng.choice([2, 2, 3, 3, 4])
        base = rng.choice([2, 3, 5, 6, Fraction(2, 3), 10, -2, -3])
        es = [rng.choice([-3, -2, -1, 1, 2, 3, 4, 5, 6]) for _ in range(k)]
        qs = [Fraction(base) ** e for e in es]
        if rng.random() < 0.3:
            i = rng.randrange(k)
            qs[i] = -qs[i]
    elif profile == "shared-primes":   # random exponent vectors over 2-3 primes, more bases than primes
        np_ = rng.choice([1, 2, 2, 3])
        ps = rng.sample(SMALL_PRIMES[:4], np_)
        k = rng.choice([np_ + 1, np_ + 1, np_ + 2, max(2, np_)])
        k = min(k, 5)
        qs = []
        for _ in range(k):
            q = Fraction(1)
            while q == 1:
                q = Fraction(1)
                for p in ps:
                    q *= Fraction(p) ** rng.choice([-2, -1, 0, 0, 1, 1, 2, 3])
            qs.append(q)
        if rng.random() < 0.5:
            for i in range(k):
                if rng.random() < 0.4:
                    qs[i] = -qs[i]
    elif profile == "signs":           # negative bases, +-1, parity constraint
        k = rng.choice([1, 2, 2, 3, 3, 4])
        pool = [-1, 1, -2, 2, -4, 4, -8, Fraction(-1, 2), Fraction(1, 2), -3, 3, -9, 6, -6, Fraction(-2, 3), Fraction(-1, 4)]
        qs = [Fraction(rng.choice(pool)) for _ in range(k)]
    elif profile == "coprime":         # pairwise coprime numerators/denominators: the shortcut path
        k = rng.choice([1, 2, 3, 4])
        ps = rng.sample([2, 3, 5, 7, 11, 13, 17, 19], min(8, 2 * k))
        qs = []
        for i in range(k):
            a = ps[2 * i] ** rng.choice([1, 1, 2, 3])
            b = ps[2 * i + 1] ** rng.choice([1, 2]) if rng.random() < 0.4 else 1
            q = Fraction(a, b)
            if rng.random() < 0.3:
                q = 1 / q
            if rng.random() < 0.25:
                q = -q
            qs.append(q)
        if rng.random() < 0.25:
            qs.insert(rng.randrange(len(qs) + 1), Fraction(rng.choice([1, 1, -1])))
            feats.append("unit-in-coprime-list")
    elif profile == "repeat":          # repetitions and inverses
        k0 = rng.choice([1, 2, 2])
        qs = [Fraction(rng.choice([2, 3, 4, 6, -2, 12, 9, 10]), rng.choice([1, 1, 1, 3, 5, 4])) for _ in range(k0)]
        qs = [q for q in qs if q not in (0, 1)] or [Fraction(2)]
        extra = rng.choice([1, 1, 2])
        for _ in range(extra):
            q = rng.choice(qs)
            qs.append(rng.choice([q, 1 / q, q, -q, q * q]))
        rng.shuffle(qs)
    else:                              # "random": small random fractions
        k = rng.choice([1, 2, 2, 3, 3, 4, 5])
        qs = []
        for _ in range(k):
            n = rng.choice([1, 2, 3, 4, 5, 6, 8, 9, 10, 12, 15, 16, 18, 20, 24, 27, 30, 36])
            d = rng.choice([1, 1, 1, 2, 3, 4, 5, 6, 8, 9])
            q = Fraction(n, d)
            if rng.random() < 0.2:
                q = -q
            qs.append(q)
    for q in qs:
        if q == 1:
            feats.append("has-1")
        if q == -1:
            feats.append("has-minus-1")
        if q < 0:
            feats.append("negative")
        if q.denominator != 1:
            feats.append("fraction")
    if len(set(qs)) < len(qs):
        feats.append("repetition")
    feats.append(f"k={len(qs)}")
    return qs, sorted(set(feats))


RATIONAL_FIXED = [
    [4, 8], [9, 27, 3], [4, 8, Fraction(1, 2)], [4, Fraction(1, 2)], [2, Fraction(1, 2)], [1, -1], [-1], [1], [1, 1], [1, 2],
    [1, 2, 3], [-1, -1], [-2, 4], [4, -2], [-4, -8], [-2, -2], [-2, 2], [2, 3, 6], [6, 10, 15], [-1, 2, -2], [Fraction(2, 3), Fraction(3, 2)],
    [Fraction(4, 9), Fraction(8, 27)], [8, 4], [4, 2], [2, 4], [-8, 4], [-1, 4, 8], [16, 64, 2], [27, 9], [Fraction(1, 4), 8],
    [12, 18], [12, 18, 24], [-1, 1, 1], [2, 3, 5, 7], [Fraction(1, 2), Fraction(1, 3)], [-2, 3], [-1, 3], [Fraction(-1, 2), Fraction(-1, 2)],
    [10, 100, Fraction(1, 1000)], [-27, 9, -3],
]

RATIONAL_PROFILES = ["common-base", "common-base", "shared-primes", "shared-primes", "signs", "signs", "coprime", "repeat", "random", "random"]


def rational_case(cid, qs, feats):
    return {"id": cid, "kind": "rational", "bases": [_rat_str(q) for q in qs], "features": feats}


# fixed algebraic lists: (field, [element specs])  -- element spec = list of (coef, exps...) terms
KNOWN_RELATIONS = {}   # tag of a fixed list -> relation vectors outside the enumeration box (confirmed exactly by the check)


def _fixed_algebraic():
    out = []

    def add(fname, elems, tag, relations=None):
        F = FIELDS[fname]
        out.append((fname, [_el(F, *e) for e in elems], tag))
        if relations:
            KNOWN_RELATIONS[tag] = relations
    add("Q2", [[(1, 1)], [(2,)]], "sqrt2,2")
    add("Q2", [[(1, 1)], [(2, 1)]], "sqrt2,sqrt8")
    add("Q2", [[(1, 1)], [(4,)], [(8,)]], "sqrt2,4,8")
    add("Q2", [[(1,), (1, 1)], [(1,), (-1, 1)]], "1+-sqrt2")
    add("Q2", [[(1,), (1, 1)], [(3,), (2, 1)]], "unit,unit^2")
    add("Q2", [[(1,), (1, 1)], [(1,), (-1, 1)], [(3,)], [(5,)]], "test_basis_6")
    add("Q2", [[(-1, 1)], [(2,)]], "-sqrt2,2")
    add("Q2", [[(1, 1)], [(1,)]], "sqrt2,1")
    add("Q2", [[(1, 1)], [(-1,)]], "sqrt2,-1")
    add("Q5", [[(H,), (H, 1)], [(H,), (-H, 1)]], "phi,phibar")
    add("Q5", [[(H,), (H, 1)], [(3 * H,), (H, 1)]], "phi,phi^2")
    add("QI", [[(1, 1)]], "i")
    add("QI", [[(1, 1)], [(-1, 1)]], "i,-i")
    add("QI", [[(1, 1)], [(-1,)]], "i,-1")
    add("QI", [[(1,), (1, 1)], [(2,)]], "1+i,2")
    add("QI", [[(1,), (1, 1)], [(1,), (-1, 1)]], "1+i,1-i")
    add("QI", [[(1,), (1, 1)], [(1, 1)], [(2,)]], "1+i,i,2")
    add("QI", [[(2,), (1, 1)], [(2,), (-1, 1)], [(5,)]], "2+i,2-i,5")
    add("QI", [[(Fraction(3, 5),), (Fraction(4, 5), 1)]], "(3+4i)/5")
    add("QI", [[(Fraction(3, 5),), (Fraction(4, 5), 1)], [(Fraction(3, 5),), (Fraction(-4, 5), 1)]], "(3+-4i)/5")
    add("QI", [[(1, 1)], [(4,)], [(8,)]], "i,4,8")
    add("QI", [[(1, 1)], [(1,)]], "i,1")
    add("QW", [[(-H,), (H, 1)]], "zeta3")
    add("QW", [[(-H,), (H, 1)], [(-H,), (-H, 1)]], "zeta3,zeta3bar")
    add("QW", [[(H,), (H, 1)]], "zeta6")
    add("QW", [[(H,), (H, 1)], [(-1,)]], "zeta6,-1")
    add("QW", [[(1, 1)], [(3,)]], "sqrt-3,3")
    add("QC2", [[(1, 1)], [(2,)]], "cbrt2,2")
    add("QC2", [[(1, 1)], [(1, 2)]], "cbrt2,cbrt4")
    add("QC2", [[(1, 1)], [(1, 2)], [(4,)]], "cbrt2,cbrt4,4")
    add("Q23", [[(1, 1, 0)], [(1, 0, 1)]], "sqrt2,sqrt3")
    add("Q23", [[(1, 1, 0)], [(1, 0, 1)], [(1, 1, 1)]], "sqrt2,sqrt3,sqrt6")
    add("Q23", [[(1, 1, 0)], [(1, 0, 1)], [(6,)]], "sqrt2,sqrt3,6")
    add("QM5", [[(1,), (1, 1)], [(1,), (-1, 1)], [(2,)], [(3,)]], "1+-sqrt-5,2,3")
    add("QM5", [[(1,), (1, 1)], [(1,), (-1, 1)], [(6,)]], "1+-sqrt-5,6")
    add("QZ12", [[(H, 1, 0), (H, 0, 1)]], "zeta12")
    add("QZ12", [[(H, 1, 0), (H, 0, 1)], [(1, 0, 1)]], "zeta12,i")
    add("QZ8", [[(H, 1, 0), (H, 1, 1)]], "zeta8")
    add("QZ8", [[(1, 0, 0), (1, 0, 1)], [(1, 1, 0)]], "1+i,sqrt2")
    add("QM2", [[(1, 1)], [(2,)]], "sqrt-2,2")
    add("Q3", [[(2,), (1, 1)], [(2,), (-1, 1)]], "2+-sqrt3")
    add("Q3", [[(1,), (1, 1)], [(2,), (1, 1)], [(2,)]], "1+sqrt3,2+sqrt3,2")
    add("Q7", [[(8,), (3, 1)], [(8,), (-3, 1)]], "8+-3sqrt7")
    # an irrational base next to a rational one that is far from an algebraic integer (huge denominator): the generating relation
    # has a long exponent vector, and the height of the list is dominated by the fraction
    add("Q2", [[(1, 1)], [(Fraction(1, 2 ** 100),)]], "height:sqrt2,2^-100", relations=[[200, 1]])
    add("Q3", [[(Fraction(1, 3 ** 70),)], [(1, 1)]], "height:3^-70,sqrt3", relations=[[1, 140]])
    add("QI", [[(1,), (1, 1)], [(Fraction(1, 2 ** 60),)]], "height:1+i,2^-60", relations=[[480, 4]])
    add("Q2", [[(1, 1)], [(2 ** 100,)]], "height:sqrt2,2^100", relations=[[200, -1]])
    return out


ALGEBRAIC_FIXED = _fixed_algebraic()


def gen_atoms(rng, fname, kmax=3):
    """random list of bases built from the atoms of a field: returns (elements, torsion exps, atom exponent rows)"""
    F = FIELDS[fname]
    info = ATOMS[fname]
    w = info["torsion"][1]
    na = len(info["atoms"])
    k = rng.choice([1, 2, 2, 3, 3, 3]) if kmax < 4 else rng.choice([2, 2, 3, 3, 3, 4])
    k = min(k, kmax)
    # number of atoms in play: fewer atoms than bases plants relations
    nuse = rng.choice([1, 1, 2, 2, 3]) if k > 1 else rng.choice([0, 1, 1])
    nuse = min(nuse, na)
    used = rng.sample(range(na), nuse)
    elems, ts, rows = [], [], []
    tries = 0
    while len(elems) < k and tries < 50:
        tries += 1
        mode = rng.random()
        if elems and mode < 0.2:     # a power / inverse / conjugate-by-torsion of an earlier base
            j = rng.randrange(len(elems))
            p = rng.choice([-1, 2, -2, 3, 1])
            t = (ts[j] * p + rng.choice([0, 0, 1, w // 2])) % w
            ex = [a * p for a in rows[j]]
        else:
            ex = [0] * na
            for a in used:
                ex[a] = rng.choice([-1, 0, 1, 1, 2, 0, -2, 3][: 6 + (2 if nuse <= 2 else 0)])
            t = rng.choice([0, 0, 1, rng.randrange(w)])
        if sum(abs(a) for a in ex) > 6:
            continue
        x = atom_element(fname, t, ex)
        if max(max(abs(c.numerator), c.denominator) for c in x.values()) > 5000:
            continue
        elems.append(x)
        ts.append(t % w)
        rows.append(ex)
    return elems, ts, rows


def gen_large_power(rng, fname):
    """an atom next to a LARGE power of it (exponent 14..200, positive or negative, times a torsion element), optionally with an
    unrelated third atom: the generating relation has a long exponent vector and, for negative powers, the second base is far from an
    algebraic integer (large leading coefficient of its minimal polynomial) - both ends of the height / norm bounds of the general path"""
    info = ATOMS[fname]
    w = info["torsion"][1]
    na = len(info["atoms"])
    a = rng.randrange(na)
    K = rng.choice([14, 20, 40, 56, 100, 200]) * rng.choice([1, -1])
    t1 = rng.choice([0, 0, 1])
    t2 = rng.randrange(w)
    r1 = [0] * na
    r1[a] = 1
    r2 = [0] * na
    r2[a] = K
    elems = [atom_element(fname, t1, r1), atom_element(fname, t2, r2)]
    ts, rows = [t1 % w, t2 % w], [r1, r2]
    if na >= 2 and rng.random() < 0.3:
        b = rng.choice([x for x in range(na) if x != a])
        r3 = [0] * na
        r3[b] = rng.choice([1, 2, -1])
        elems.append(atom_element(fname, 0, r3))
        ts.append(0)
        rows.append(r3)
    if rng.random() < 0.5:
        elems[0], elems[1] = elems[1], elems[0]
        ts[0], ts[1] = ts[1], ts[0]
        rows[0], rows[1] = rows[1], rows[0]
    return elems, ts, rows


def gen_general(rng, fname, kmax=3):
    """random small elements a + b*g (+ ...) of a field: no planted structure except repetitions/inverses"""
    F = FIELDS[fname]
    k = rng.choice([1, 2, 2, 3])
    k = min(k, kmax)
    elems = []
    while len(elems) < k:
        if elems and rng.random() < 0.3:
            b = rng.choice(elems)
            x = rng.choice([F.inv(b), F.mul(b, b), F.mul(b, F.const(-1)), b])
        else:
            x = {}
            for e in F.monos:
                if rng.random() < 0.6:
                    c = Fraction(rng.choice([-3, -2, -1, 1, 1, 2, 3, 4]), rng.choice([1, 1, 1, 2, 3]))
                    x[e] = c
            x = F.norm_elem(x)
        if not x:
            continue
        elems.append(x)
    return elems


def algebraic_case(cid, fname, elems, feats, atoms=None, form="expanded"):
    F = FIELDS[fname]
    case = {"id": cid, "kind": "algebraic", "field": fname, "elems": [F.enc(x) for x in elems],
            "bases": [elem_text(F, x) for x in elems], "form": form, "features": sorted(set(feats + ["algebraic", "field:" + fname, f"k={len(elems)}", "form:" + form]))}
    if atoms is not None:
        case["atoms"] = {"t": atoms[0], "rows": atoms[1]}
    for f in feats:
        if f.startswith("fixed:") and f[6:] in KNOWN_RELATIONS:
            case["known_relations"] = KNOWN_RELATIONS[f[6:]]
    return case


ATOM_FIELDS = ["QI", "QI", "Q2", "Q2", "Q5", "QW", "Q3", "QC2", "QZ8"]
GENERAL_FIELDS = ["Q2", "QI", "Q5", "QW", "Q23", "QM5", "Q7", "QM2", "QZ12", "QC2"]
FORMS = ["expanded", "expanded", "expanded", "factored", "crootof"]


def generate(seed_fn, tier):
    """seed_fn(i) -> per-case seed"""
    nr = {"quick": 200, "thorough": 6000}[tier]
    na = {"quick": 16, "thorough": 330}[tier]
    cases = []
    i = 0
    fixed_r = RATIONAL_FIXED if tier == "thorough" else RATIONAL_FIXED[:24]
    for j, qs in enumerate(fixed_r):
        qs = [Fraction(q) for q in qs]
        feats = ["rational", "profile:fixed", f"k={len(qs)}"]
        cases.append(rational_case(f"rat-fixed-{j}", qs, feats))
    seen = {tuple(c["bases"]) for c in cases}
    while len(cases) < nr:
        cs = seed_fn(i)
        i += 1
        rng = random.Random(cs)
        prof = RATIONAL_PROFILES[i % len(RATIONAL_PROFILES)]
        qs, feats = gen_rational(rng, prof)
        key = tuple(_rat_str(q) for q in qs)
        if key in seen and i < 50 * nr:
            continue
        seen.add(key)
        cases.append(rational_case(f"rat-{cs}", qs, feats))
    # algebraic lists
    alg = []
    if tier == "quick":
        # a seed-dependent selection of the fixed lists + generated atom lists; heavy ones are kept few
        rng = random.Random(seed_fn(10 ** 6))
        pick = rng.sample(range(len(ALGEBRAIC_FIXED)), 8)
        for j in sorted(pick):
            fname, elems, tag = ALGEBRAIC_FIXED[j]
            alg.append(algebraic_case(f"alg-fixed-{j}", fname, elems, ["fixed:" + tag]))
        # roots of unity alone (pure torsion: the relation vector is as long as the order) are always part of the workload
        for j, (fname, elems, tag) in enumerate(ALGEBRAIC_FIXED):
            if (tag in ("zeta3", "zeta6", "i", "zeta12", "zeta8") or tag.startswith("height:")) and j not in pick:
                alg.append(algebraic_case(f"alg-fixed-{j}", fname, elems, ["fixed:" + tag]))
        for j in range(3):
            cs = seed_fn(2 * 10 ** 6 + j)
            rng = random.Random(cs)
            fname = rng.choice(["QI", "Q2", "QW", "Q5", "Q3"])
            elems, ts, rows = gen_large_power(rng, fname)
            alg.append(algebraic_case(f"alg-largepow-{cs}", fname, elems, ["atoms", "large-power"], atoms=(ts, rows)))
        na += len(alg) - 8
        j = 0
        while len(alg) < na:
            cs = seed_fn(10 ** 6 + 1 + j)
            j += 1
            rng = random.Random(cs)
            fname = ATOM_FIELDS[j % len(ATOM_FIELDS)]
            elems, ts, rows = gen_atoms(rng, fname, kmax=3)
            if not elems or all(FIELDS[fname].is_rational(x) for x in elems):
                continue   # all-rational lists belong to the rational workload (they never reach the general path)
            alg.append(algebraic_case(f"alg-atoms-{cs}", fname, elems, ["atoms"], atoms=(ts, rows), form=FORMS[j % len(FORMS)]))
    else:
        for j, (fname, elems, tag) in enumerate(ALGEBRAIC_FIXED):
            alg.append(algebraic_case(f"alg-fixed-{j}", fname, elems, ["fixed:" + tag]))
            if len(elems) <= 3 and FIELDS[fname].dim == 2:
                alg.append(algebraic_case(f"alg-fixed-{j}-crootof", fname, elems, ["fixed:" + tag], form="crootof"))
        j = 0
        while len(alg) < na:
            cs = seed_fn(10 ** 6 + 1 + j)
            j += 1
            rng = random.Random(cs)
            if j % 10 == 9:
                fname = rng.choice(["QI", "Q2", "QW", "Q5", "Q3", "QC2"])
                elems, ts, rows = gen_large_power(rng, fname)
                alg.append(algebraic_case(f"alg-largepow-{cs}", fname, elems, ["atoms", "large-power"], atoms=(ts, rows)))
            elif j % 4 == 3:
                fname = GENERAL_FIELDS[(j // 4) % len(GENERAL_FIELDS)]
                elems = gen_general(rng, fname, kmax=3)
                if all(FIELDS[fname].is_rational(x) for x in elems):
                    continue
                alg.append(algebraic_case(f"alg-general-{cs}", fname, elems, ["general"], form=FORMS[j % len(FORMS)]))
            else:
                fname = ATOM_FIELDS[j % len(ATOM_FIELDS)]
                elems, ts, rows = gen_atoms(rng, fname, kmax=4)
                if not elems or all(FIELDS[fname].is_rational(x) for x in elems):
                    continue
                alg.append(algebraic_case(f"alg-atoms-{cs}", fname, elems, ["atoms"], atoms=(ts, rows), form=FORMS[j % len(FORMS)]))
    # interleave the (slow) algebraic cases so that they start early and run in parallel with the rational ones
    out = []
    step = max(1, len(cases) // max(1, len(alg)))
    ai = 0
    for idx, c in enumerate(cases):
        if idx % step == 0 and ai < len(alg):
            out.append(alg[ai])
            ai += 1
        out.append(c)
    out += alg[ai:]
    return out
