"""Seeded grammar-based generator of loop programs (ASTs) aimed at the mechanisms named in the property
anchors.  Deterministic in the rng.  Returns (Program, features:list[str], meta:dict)."""
from fractions import Fraction as F
import random

from ..lang.ast import Program, num, var, binop

FIN_NAMES = ["c", "d", "f", "s", "t", "b"]
DATA_NAMES = ["x", "y", "z", "w"]
DRAW_NAMES = ["u", "v", "g"]
PARAM_NAMES = ["p", "q", "a"]

SMALL_COEFFS = [F(1), F(2), F(-1), F(1, 2), F(3), F(-2), F(1, 3), F(3, 2), F(-1, 2), F(1, 4), F(31415927, 10**7), F(1, 10**8)]
PROBS = [F(1, 2), F(1, 3), F(1, 4), F(2, 3), F(3, 4), F(1, 5), F(1, 10), F(9, 10), F(3, 10), F(9999, 10000), F(1, 8), F(1, 1000),
         F(1234567, 10**7), F(4, 10**7)]


def add(a, b):
    return binop("+", a, b)


def mul(a, b):
    return binop("*", a, b)


def sum_terms(terms):
    if not terms:
        return num(0)
    e = terms[0]
    for t in terms[1:]:
        if t[0] == "neg":
            e = binop("-", e, t[1])
        elif t[0] == "num" and t[1] < 0:
            e = binop("-", e, num(-t[1]))
        elif t[0] == "bin" and t[1] == "*" and t[2][0] == "num" and t[2][1] < 0:
            e = binop("-", e, mul(num(-t[2][1]), t[3]) if t[2][1] != -1 else t[3])
        else:
            e = add(e, t)
    return e


def scaled(coef, e):
    if coef == 1:
        return e
    if coef == -1:
        return ("neg", e)
    return mul(num(coef), e)


class Gen:
    def __init__(self, rng: random.Random, profile=None):
        self.rng = rng
        self.features = set()
        self.profile = profile or rng.choice(
            ["discrete", "discrete", "mixed", "continuous", "guarded", "guarded", "linear", "nested", "multiassign", "symbolic",
             "delay", "counter", "abstract"]
        )
        self.fin = {}     # name -> set of possible values (Fractions) as designed
        self.data = []    # ordered data variables (level order)
        self.draws = {}   # name -> (family, params) constant continuous draws available in the body
        self.params = {}  # symbolic constants: name -> kind ('prob' | 'real' | 'pos')
        self.typedefs = []
        self.init = []
        self.body = []
        self.noinit = set()
        self.helper_names = set()
        self.data_planned = []
        self.large_discrete = []
        self.linear_only = set()

    def feat(self, f):
        self.features.add(f)

    # ---------------------------------------------------------------- pieces
    def prob_expr(self, allow_symbolic=True):
        r = self.rng
        if allow_symbolic and self.profile == "symbolic" and r.random() < 0.5:
            name = r.choice(PARAM_NAMES[:2])
            self.params[name] = "prob"
            self.feat("symbolic-prob")
            return var(name)
        return num(r.choice(PROBS))

    def fin_cond_atom(self):
        """atom over finite variables"""
        r = self.rng
        names = list(self.fin)
        v = r.choice(names)
        vals = sorted(self.fin[v])
        kind = r.random()
        if kind < 0.55:
            val = r.choice(vals)
            self.feat("cond-eq")
            if val.denominator != 1:
                self.feat("cond-noninteger-value")
            return ("atom", var(v), "==", num(val))
        if kind < 0.8:
            cop = r.choice(["<", "<=", ">", ">="])
            val = r.choice(vals + [vals[-1] + 1, vals[0] - 1]) if all(x.denominator == 1 for x in vals) else r.choice(vals)
            self.feat("cond-ineq")
            return ("atom", var(v), cop, num(val))
        if kind < 0.92 and len(names) >= 2:
            w = r.choice([n for n in names if n != v])
            self.feat("cond-expr-atom")
            if r.random() < 0.5:
                return ("atom", add(var(v), var(w)), r.choice(["<", "<=", "==", ">="]), num(r.choice([1, 2])))
            return ("atom", var(v), r.choice(["==", "<", ">="]), var(w))
        self.feat("cond-trivial")
        return ("true",) if r.random() < 0.5 else ("false",)

    def fin_cond(self, depth=0):
        r = self.rng
        x = r.random()
        if depth == 0 and len(self.fin) >= 2 and r.random() < 0.08:
            # disjunction of equality atoms over two different variables with different constants: not exclusive
            v, w = r.sample(list(self.fin), 2)
            a = r.choice(sorted(self.fin[v]))
            bs = [q for q in sorted(self.fin[w]) if q != a] or sorted(self.fin[w])
            self.feat("cond-or-eq-atoms-different-variables")
            return ("or", ("atom", var(v), "==", num(a)), ("atom", var(w), "==", num(r.choice(bs))))
        if depth >= 2 or x < 0.6:
            return self.fin_cond_atom()
        if x < 0.75:
            self.feat("cond-and")
            return ("and", self.fin_cond(depth + 1), self.fin_cond(depth + 1))
        if x < 0.9:
            self.feat("cond-or")
            return ("or", self.fin_cond(depth + 1), self.fin_cond(depth + 1))
        self.feat("cond-not")
        return ("not", self.fin_cond(depth + 1))

    def new_fin(self):
        r = self.rng
        name = next(n for n in FIN_NAMES if n not in self.fin)
        kind = r.choice(["bern", "bern", "cat", "du", "toggle", "choice", "choice-frac", "counter", "copy", "prod", "draw-then-flip", "sum2"])
        if kind == "sum2" and "da" in self.helper_names:
            kind = "du"
        if self.profile == "guarded" and r.random() < 0.25:
            kind = "draw-then-flip"
        if kind in ("copy", "prod") and not self.fin:
            kind = "bern"
        upd = None
        if kind == "bern":
            vals = {F(0), F(1)}
            upd = ("draw", "Bernoulli", [self.prob_expr()])
            self.feat("fin-bernoulli")
        elif kind == "cat":
            k = r.choice([2, 3, 4])
            ps = self._prob_vector(k)
            if k >= 3 and r.random() < 0.3:
                # an outcome of probability exactly 0 before the last position: the outcomes keep their indices
                ps = self._prob_vector(k - 1)
                ps.insert(r.randrange(0, k - 1), F(0))
                self.feat("fin-categorical-zero-probability-inside")
            vals = {F(i) for i in range(k)}
            upd = ("draw", "Categorical", [num(p) for p in ps])
            self.feat("fin-categorical")
        elif kind == "du":
            lo = r.choice([-1, 0, 1])
            hi = lo + r.choice([1, 2, 3])
            vals = {F(i) for i in range(lo, hi + 1)}
            upd = ("draw", "DiscreteUniform", [num(lo), num(hi)])
            self.feat("fin-discrete-uniform")
        elif kind == "toggle":
            vals = {F(0), F(1)}
            upd = ("poly", binop("-", num(1), var(name)))
            self.feat("fin-toggle")
        elif kind == "choice":
            k = r.choice([2, 3])
            cs = r.sample([F(0), F(1), F(2), F(-1), F(3)], k)
            ps = self._prob_vector(k)
            vals = set(cs)
            upd = ("choice", [(num(c), num(p)) for c, p in zip(cs, ps)])
            self.feat("fin-choice-consts")
            if self.profile == "symbolic" and r.random() < 0.6:
                # numeric and symbolic probabilities mixed in one finite-valued choice: every alternative stays possible
                pn = r.choice(PARAM_NAMES[:2])
                self.params[pn] = "prob"
                half_p = mul(num(F(1, 2)), var(pn))
                if k == 2:
                    upd = ("choice", [(num(cs[0]), half_p), (num(cs[1]), binop("-", num(1), half_p))])
                else:
                    upd = ("choice", [(num(cs[0]), num(F(1, 4))), (num(cs[1]), half_p), (num(cs[2]), binop("-", num(F(3, 4)), half_p))])
                self.feat("fin-choice-symbolic-probability")
        elif kind == "choice-frac":
            cs = r.sample([F(1, 2), F(3, 2), F(0), F(1), F(-1, 2)], 2)
            vals = set(cs)
            upd = ("choice", [(num(cs[0]), self.prob_expr(False)), (num(cs[1]), None)])
            upd = ("choice", self._fix_last(upd[1]))
            self.feat("fin-noninteger-values")
        elif kind == "counter":
            hi = r.choice([2, 3, 4])
            vals = {F(i) for i in range(0, hi + 1)}
            upd = ("counter", hi)
            self.typedefs.append((name, "FiniteRange", [num(0), num(hi)]))
            self.feat("fin-bounded-counter")
        elif kind == "draw-then-flip":
            # drawn from a discrete law and reassigned from its own new value in the same iteration
            a_ = r.choice([1, 2, 3])
            vals = {F(a_), F(a_ - 1)}
            upd = ("drawflip", a_)
            self.feat("fin-draw-then-reassign")
        elif kind == "sum2":
            # a polynomial of two finite helper variables: many combinations (36) but few distinct values (<= 15)
            lo = r.choice([0, 1])
            hi = lo + 5
            op = r.choice(["+", "+", "*", "-"])
            f_ = {"+": lambda a, b: a + b, "*": lambda a, b: a * b, "-": lambda a, b: a - b}[op]
            vals = {F(f_(a, b)) for a in range(lo, hi + 1) for b in range(lo, hi + 1)}
            self.helper_names.update({"da", "db"})
            self.init.append(("assign", "da", ("poly", num(lo))))
            self.init.append(("assign", "db", ("poly", num(lo))))
            upd = ("sum2", lo, hi, op)
            self.feat("fin-polynomial-of-two-finite-variables-36-combinations")
        elif kind == "copy":
            src = r.choice(list(self.fin))
            vals = set(self.fin[src])
            upd = ("poly", var(src))
            self.feat("fin-copy")
        elif kind == "prod":
            src = r.choice(list(self.fin))
            vals = {a * b for a in self.fin[src] for b in (F(0), F(1))}
            upd = ("prodbern", src)
            self.feat("fin-product")
        initv = r.choice(sorted(vals))
        if kind == "copy" or kind == "prod":
            vals = set(vals) | {initv}
        self.fin[name] = set(vals)
        return name, upd, initv

    def _prob_vector(self, k):
        r = self.rng
        den = r.choice([2, 3, 4, 5, 6, 8, 10])
        while den < k:
            den += 1
        cuts = sorted(r.sample(range(1, den), k - 1))
        parts = [cuts[0]] + [cuts[i] - cuts[i - 1] for i in range(1, k - 1)] + [den - cuts[-1]]
        return [F(x, den) for x in parts]

    def _fix_last(self, alts):
        rest = num(1)
        out = []
        for e, p in alts[:-1]:
            out.append((e, p))
            rest = binop("-", rest, p)
        out.append((alts[-1][0], rest))
        from ..lang.ast import fold
        return [(e, fold(p)) for e, p in out]

    def data_update_expr(self, x, level_lower, same_level, allow_self=True, nonlin=True):
        """polynomial update for data variable x"""
        r = self.rng
        terms = []
        if allow_self and r.random() < 0.85:
            coef = r.choice([F(1), F(1), F(1), F(1, 2), F(2), F(-1), F(3, 4), F(0)])
            if self.profile == "symbolic" and r.random() < 0.25:
                self.params["a"] = "real"
                terms.append(mul(var("a"), var(x)))
                self.feat("symbolic-coefficient")
            elif coef != 0:
                terms.append(scaled(coef, var(x)))
        # linear in same-level data vars
        for y in same_level:
            if y != x and r.random() < 0.35:
                terms.append(scaled(r.choice(SMALL_COEFFS), var(y)))
                self.feat("data-linear-cross")
        # finite / draw / lower-level terms
        simple = list(self.fin) + list(self.draws)
        nterms = r.choice([0, 1, 1, 2])
        for _ in range(nterms):
            x2 = r.random()
            if simple and x2 < 0.5:
                s = r.choice(simple)
                e = var(s)
                if s in self.draws and s not in self.linear_only and r.random() < 0.3:
                    e = binop("**", e, num(2))
                    self.feat("draw-squared")
                if r.random() < 0.3 and allow_self and s not in self.linear_only:
                    e = mul(e, var(x))
                    self.feat("data-times-simple")
                terms.append(scaled(r.choice(SMALL_COEFFS), e))
            elif level_lower and nonlin and x2 < 0.8:
                y = r.choice(level_lower)
                e = var(y)
                y2 = r.random()
                if y2 < 0.35:
                    e = binop("**", e, num(2))
                    self.feat("data-nonlinear-square")
                elif y2 < 0.6 and len(level_lower) >= 2:
                    z = r.choice([w for w in level_lower if w != y])
                    e = mul(e, var(z))
                    self.feat("data-nonlinear-product")
                terms.append(scaled(r.choice(SMALL_COEFFS), e))
            else:
                c = r.choice([F(1), F(2), F(-1), F(1, 2), F(5)])
                if self.profile == "symbolic" and r.random() < 0.3:
                    self.params["q"] = "real" if "q" not in self.params else self.params["q"]
                    terms.append(var("q"))
                    self.feat("symbolic-constant-term")
                else:
                    terms.append(num(c))
        if not terms:
            terms = [add(var(x), num(1))] if allow_self else [num(1)]
        return sum_terms(terms)

    def data_update(self, x, level_lower, same_level):
        r = self.rng
        if r.random() < 0.4:
            k = r.choice([2, 2, 3])
            alts = []
            for i in range(k):
                alts.append((self.data_update_expr(x, level_lower, same_level), None))
            ps = self._prob_vector(k)
            if self.profile == "symbolic" and k == 2 and r.random() < 0.6:
                pe = self.prob_expr()
                if pe[0] == "var" and r.random() < 0.5:
                    # compound, unparenthesized probability expressions (valid for every p in (0,1)); the last one stays implicit
                    pe = r.choice([binop("-", num(1), pe), binop("/", pe, num(2)), binop("-", num(F(1, 2)), binop("/", pe, num(4))),
                                   binop("+", binop("/", pe, num(3)), num(F(1, 3))), binop("-", num(1), binop("/", pe, num(2)))])
                    self.feat("symbolic-prob-compound-expression")
                alts = [(alts[0][0], pe), (alts[1][0], binop("-", num(1), pe))]
            elif self.profile == "symbolic" and k == 3 and r.random() < 0.6:
                pe = self.prob_expr()
                if pe[0] == "var":
                    p1, p2 = binop("/", pe, num(2)), binop("-", num(F(1, 2)), binop("/", pe, num(4)))
                    alts = [(alts[0][0], p1), (alts[1][0], p2), (alts[2][0], binop("-", binop("-", num(1), p1), p2))]
                    self.feat("symbolic-prob-compound-expression")
                else:
                    alts = [(e, num(p)) for (e, _), p in zip(alts, ps)]
            else:
                alts = [(e, num(p)) for (e, _), p in zip(alts, ps)]
            self.feat("data-prob-choice")
            return ("choice", alts)
        return ("poly", self.data_update_expr(x, level_lower, same_level))

    def new_draw(self):
        r = self.rng
        name = next(n for n in DRAW_NAMES if n not in self.draws)
        fam = r.choice(["Normal", "Normal", "Uniform", "Uniform", "DistExp", "Laplace", "Gamma", "Beta"])
        loc_pool = list(self.data_planned) + [f for f in self.fin]
        if loc_pool and r.random() < 0.3:
            # location/scale families with a variable-dependent parameter (rewritten by DistTransformer)
            lname = r.choice(loc_pool)
            lv = var(lname)
            fam = r.choice(["Normal", "Uniform", "Laplace"])
            posfin = [f for f in self.fin if self.fin[f] and all(isinstance(x, F) and x >= 0 for x in self.fin[f])]
            if posfin and r.random() < 0.15:
                fam = "DistExp"
            # composite location expressions (sums/differences of several terms, negated variable): the rewriting passes build
            # the new right-hand side from the printed parameters, so every operand position must survive re-parsing
            locs = [lv, lv, add(lv, num(1)), add(lv, num(-1)), add(mul(num(2), lv), num(-1)), add(num(1), mul(num(-1), lv)),
                    add(lv, num(F(-1, 2)))]
            if fam == "Normal":
                ps = [r.choice(locs + [mul(num(2), lv)]), num(r.choice([1, 4, F(9, 4), F(1, 4)]))]
            elif fam == "Uniform":
                w = r.choice([1, 2, F(1, 2)])
                lo = r.choice(locs)
                ps = [lo, add(lo, num(w))]
                if lo is not lv:
                    self.feat("draw-Uniform-composite-lower-bound")
            elif fam == "DistExp":
                fv = var(r.choice(posfin))
                ps = [("bin", "/", num(1), add(fv, num(r.choice([1, 2]))))]
            else:
                ps = [r.choice(locs), num(r.choice([1, 2, F(1, 2)]))]
            self.draws[name] = (fam, ps)
            self.linear_only.add(name)  # its parameters depend on program variables: only used linearly (keeps non-linear dependencies acyclic)
            self.feat("draw-location-scale-" + fam)
            return name, ("draw", fam, ps)
        if r.random() < 0.08:
            # a discrete draw with more values than the type inference accepts (not finitely typed)
            hi = r.choice([26, 27, 30])
            ps = [num(0), num(hi)]
            self.draws[name] = ("DiscreteUniform", ps)
            self.feat("draw-DiscreteUniform-large")
            self.large_discrete.append(name)
            return name, ("draw", "DiscreteUniform", ps)
        if fam == "Normal":
            ps = [num(r.choice([0, 1, -1, F(1, 2), 2])), num(r.choice([1, 2, F(1, 2), F(1, 4), 4]))]
        elif fam == "Uniform":
            a = r.choice([0, -1, 1, F(1, 2)])
            ps = [num(a), num(a + r.choice([1, 2, F(1, 2), 3]))]
        elif fam == "DistExp":
            ps = [num(r.choice([1, 2, F(1, 2), 3]))]
        elif fam == "Laplace":
            ps = [num(r.choice([0, 1, -1])), num(r.choice([1, 2, F(1, 2)]))]
        elif fam == "Gamma":
            ps = [num(r.choice([1, 2, F(3, 2), 3])), num(r.choice([1, 2, F(1, 2)]))]
        else:
            ps = [num(r.choice([1, 2, F(1, 2), 3])), num(r.choice([1, 2, F(3, 2)]))]
        self.draws[name] = (fam, ps)
        self.feat("draw-" + fam)
        return name, ("draw", fam, ps)

    # ---------------------------------------------------------------- assembly
    def build_delay(self):
        """shift registers / delay chains: x accumulates y, y copies z one iteration late, z is (re)drawn or constant;
        exercises solutions that are only valid after a transient (coefficient-0 chains)"""
        r = self.rng
        self.feat("profile-delay")
        depth = r.choice([1, 2, 2, 3])
        chain = ["y", "z", "w"][:depth]
        inits = [num(r.choice([0, 1, 2, -1, 3])) for _ in range(depth + 1)]
        self.init.append(("assign", "x", ("poly", inits[0])))
        for v, iv in zip(chain, inits[1:]):
            self.init.append(("assign", v, ("poly", iv)))
        body = []
        acc = r.choice([F(1), F(1), F(1, 2), F(2)])
        body.append(("assign", "x", ("poly", add(scaled(acc, var("x")), scaled(r.choice(SMALL_COEFFS), var(chain[0]))))))
        for a, b in zip(chain, chain[1:]):
            e = var(b) if r.random() < 0.6 else add(var(b), num(r.choice([1, -1, 2])))
            body.append(("assign", a, ("poly", e)))
        last = chain[-1]
        k = r.random()
        if k < 0.4:
            body.append(("assign", last, ("poly", num(r.choice([5, 2, -3, F(1, 2)])))))
            self.feat("delay-constant-source")
        elif k < 0.7:
            body.append(("assign", last, ("choice", [(num(1), num(F(1, 2))), (num(r.choice([3, -1, 0])), num(F(1, 2)))])))
            self.feat("delay-random-source")
        else:
            body.append(("assign", last, ("draw", "Bernoulli", [self.prob_expr(False)])))
            self.feat("delay-random-source")
        if r.random() < 0.4:
            # a finite control variable and a conditional update on top
            self.fin["c"] = {F(0), F(1)}
            self.init.append(("assign", "c", ("poly", num(0))))
            body.append(("assign", "c", ("draw", "Bernoulli", [num(F(1, 2))])))
            body.append(("if", [(("atom", var("c"), "==", num(1)), [("assign", "x", ("poly", add(var("x"), var(chain[0]))))])], None))
            self.feat("if")
        if r.random() < 0.3:
            r.shuffle(body)
            self.feat("delay-shuffled-order")
        self.data = ["x"] + chain
        return Program([], self.init, ("true",), body)

    def build_counter(self):
        """bounded counter in the guard (declared type): the loop stops after exactly k iterations"""
        r = self.rng
        self.feat("profile-counter")
        k = r.choice([2, 3, 4])
        start = r.choice([0, 0, 1])
        self.typedefs.append(("c", "FiniteRange", [num(0), num(k)]))
        self.fin["c"] = {F(i) for i in range(0, k + 1)}
        self.init.append(("assign", "c", ("poly", num(start))))
        self.init.append(("assign", "x", ("poly", num(r.choice([0, 1, -1])))))
        body = [("assign", "c", ("poly", add(var("c"), num(1))))]
        upd = r.choice(["add", "choice", "mul", "draw"])
        if upd == "add":
            body.append(("assign", "x", ("poly", add(var("x"), num(r.choice([2, 1, -1, F(1, 2)]))))))
        elif upd == "choice":
            body.append(("assign", "x", ("choice", [(add(var("x"), num(1)), num(F(1, 3))), (add(var("x"), var("c")), num(F(2, 3)))])))
        elif upd == "mul":
            body.append(("assign", "x", ("poly", add(mul(num(2), var("x")), var("c")))))
        else:
            body.append(("assign", "u", ("draw", "Normal", [num(1), num(1)])))
            body.append(("assign", "x", ("poly", add(var("x"), var("u")))))
            self.draws["u"] = ("Normal", [])
        if r.random() < 0.5:
            body.reverse() if upd != "draw" else None
        cop, bound = r.choice([("<", k), ("<", k), ("<=", k - 1), ("/=", k)][:3])
        self.feat("guard")
        self.feat("guard-ineq")
        self.data = ["x"]
        return Program(self.typedefs, self.init, ("atom", var("c"), cop, num(bound)), body)

    def build_abstract(self):
        """conditions on fresh continuous draws (Uniform, so that P(cond) is rational): Polar abstracts them as Bernoulli events"""
        r = self.rng
        self.feat("profile-abstract")
        a = r.choice([F(0), F(0), F(-1), F(1)])
        b = a + r.choice([F(1), F(2), F(4)])
        self.draws["u"] = ("Uniform", [num(a), num(b)])
        init = [("assign", "x", ("poly", num(r.choice([0, 1, 2])))), ("assign", "y", ("poly", num(r.choice([0, 1]))))]
        body = [("assign", "u", ("draw", "Uniform", [num(a), num(b)]))]
        t1 = a + (b - a) * r.choice([F(1, 2), F(1, 4), F(3, 4), F(1, 3)])
        cond = ("atom", var("u"), r.choice([">", "<", ">=", "<="]), num(t1))
        two = r.random() < 0.35
        if two:
            self.draws["v"] = ("Uniform", [num(0), num(1)])
            body.append(("assign", "v", ("draw", "Uniform", [num(0), num(1)])))
            cond2 = ("atom", var("v"), r.choice([">", "<"]), num(r.choice([F(1, 2), F(1, 5), F(2, 3)])))
            cond = (r.choice(["and", "or"]), cond, cond2)
            self.feat("abstract-two-draws")
        if r.random() < 0.5:
            self.fin["c"] = {F(0), F(1)}
            init.append(("assign", "c", ("poly", num(0))))
            body.insert(0, ("assign", "c", ("draw", "Bernoulli", [self.prob_expr(False)])))
            cond = ("and", cond, ("atom", var("c"), "==", num(r.choice([0, 1]))))
            self.feat("abstract-with-finite-conjunct")
        dependent = r.random() < 0.35
        if dependent:
            # an indicator of the same draw assigned earlier in the iteration: the abstraction is not independent any more
            self.fin["b"] = {F(0), F(1)}
            init.append(("assign", "b", ("poly", num(0))))
            t0 = a + (b - a) * r.choice([F(1, 2), F(2, 3)])
            body.append(("if", [(("atom", var("u"), ">", num(t0)), [("assign", "b", ("poly", num(1)))])], [("assign", "b", ("poly", num(0)))]))
            cond = ("and", ("atom", var("b"), "==", num(1)), cond)
            self.feat("abstract-dependent-indicator")
        elif r.random() < 0.35:
            # the tested value is computed from the draw and a finite variable (w = u + d); when d is also tested in the same
            # guard the abstracted event is not independent of the finite part (Polar must refuse), otherwise it is
            same = r.random() < 0.5
            dname = "c" if (same and "c" in self.fin) else "d"
            if dname == "d" or "c" not in self.fin:
                dname = "d"
                self.fin["d"] = {F(0), F(1)}
                init.append(("assign", "d", ("poly", num(0))))
                body.insert(0, ("assign", "d", ("draw", "Bernoulli", [num(r.choice([F(1, 2), F(1, 3), F(3, 4)]))])))
            init.append(("assign", "w", ("poly", num(0))))
            body.append(("assign", "w", ("poly", add(var("u"), scaled(b - a, var(dname)) if r.random() < 0.5 else var(dname)))))
            tw = a + (b - a) * r.choice([F(1, 2), F(1), F(5, 4), F(3, 2)])
            wcond = ("atom", var("w"), r.choice([">", "<"]), num(tw))
            if same:
                cond = ("and", ("atom", var(dname), "==", num(r.choice([0, 1]))), wcond)
                self.feat("abstract-derived-value-dependent-on-finite-conjunct")
            else:
                cond = ("and", cond, wcond) if r.random() < 0.3 else (("and", ("atom", var("c"), "==", num(1)), wcond) if "c" in self.fin else wcond)
                self.feat("abstract-derived-value")
        upd1 = ("assign", "x", ("choice", [(add(var("x"), num(1)), num(F(1, 2))), (add(var("x"), num(r.choice([2, 3, -1]))), num(F(1, 2)))])) \
            if r.random() < 0.5 else ("assign", "x", ("poly", add(scaled(r.choice([F(1), F(1, 2), F(2)]), var("x")), num(1))))
        branches = [(cond, [upd1])]
        els = None
        if r.random() < 0.1:  # a second condition on the same draw: Polar refuses (dependency between abstracted variables)
            t2 = a + (b - a) * r.choice([F(1, 8), F(7, 8), F(1, 2)])
            branches.append((("atom", var("u"), r.choice(["<", ">"]), num(t2)), [("assign", "x", ("poly", add(var("x"), num(-1))))]))
            self.feat("abstract-elif")
        if r.random() < 0.1:
            els = [("assign", "y", ("poly", add(var("y"), num(1))))]
        body.append(("if", branches, els))
        if r.random() < 0.25:
            # a second, separate condition on a value computed from the same draw: the two abstracted events are dependent
            # although they share no variable name (Polar must refuse)
            kk = r.choice([F(2), F(1, 2), F(3)])
            init.append(("assign", "w2", ("poly", num(0))))
            body.append(("assign", "w2", ("poly", scaled(kk, var("u")))))
            t2 = kk * (a + (b - a) * r.choice([F(1, 2), F(1, 3), F(3, 4)]))
            body.append(("if", [(("atom", var("w2"), r.choice([">", "<"]), num(t2)), [("assign", "y", ("poly", add(var("y"), num(1))))])], None))
            self.feat("abstract-second-condition-on-derived-value")
        elif r.random() < 0.6:
            body.append(("assign", "y", ("poly", add(var("y"), r.choice([var("x"), var("u"), mul(var("u"), var("u"))])))))
        self.init = init
        self.data = ["x", "y"]
        return Program([], init, ("true",), body)

    def build(self):
        r = self.rng
        prof = self.profile
        if prof == "abstract":
            return self.build_abstract()
        if prof == "delay":
            return self.build_delay()
        if prof == "counter":
            return self.build_counter()
        self.feat("profile-" + prof)
        n_fin = {"discrete": r.choice([1, 2, 3]), "mixed": r.choice([1, 2]), "continuous": r.choice([0, 1]),
                 "guarded": r.choice([1, 2, 3]), "linear": r.choice([0, 0, 1]), "nested": r.choice([2, 3]),
                 "multiassign": r.choice([1, 2]), "symbolic": r.choice([1, 2])}[prof]
        n_draw = {"discrete": 0, "mixed": r.choice([1, 2]), "continuous": r.choice([1, 2, 3]), "guarded": r.choice([0, 0, 1]),
                  "linear": 0, "nested": r.choice([0, 1]), "multiassign": r.choice([0, 1]), "symbolic": r.choice([0, 1])}[prof]
        n_data = r.choice([1, 2, 2, 3]) if prof != "linear" else r.choice([2, 3, 3, 4])

        self.data_planned = DATA_NAMES[:n_data]
        fin_updates = []
        for _ in range(n_fin):
            name, upd, initv = self.new_fin()
            fin_updates.append((name, upd))
            if r.random() < 0.12 and upd[0] == "draw":
                # initialise by the same draw in the init block
                self.init.append(("assign", name, upd))
                self.feat("init-by-draw")
            else:
                self.init.append(("assign", name, ("poly", num(initv))))
                if r.random() < 0.1 and self.fin.get(name):
                    # the init block assigns the variable a second time (reading its first value): what holds at the loop head is
                    # the LAST initial value
                    v2 = r.choice([x for x in sorted(self.fin[name]) if x != initv] or [initv])
                    if r.random() < 0.5:
                        # a value the loop itself never assigns: only the last initial assignment puts it into the variable
                        v2 = max(self.fin[name]) + r.choice([1, 2])
                        self.fin[name] = set(self.fin[name]) | {v2}
                        self.feat("init-assigned-twice-outside-loop-values")
                    rhs2 = r.choice([add(var(name), num(v2 - initv)), num(v2), add(mul(num(-1), var(name)), num(v2 + initv))])
                    self.init.append(("assign", name, ("poly", rhs2)))
                    self.feat("init-assigned-twice")
        draw_stmts = []
        for _ in range(n_draw):
            name, rhs = self.new_draw()
            draw_stmts.append(("assign", name, rhs))

        # data variables in levels
        self.data = DATA_NAMES[:n_data]
        levels = []
        if prof == "linear":
            levels = [self.data]
        else:
            cur = []
            for x in self.data:
                if cur and r.random() < 0.6:
                    levels.append(cur)
                    cur = []
                cur.append(x)
            levels.append(cur)
        initialised = []
        for x in self.data:
            x0 = r.random()
            if prof == "symbolic" and initialised and x0 > 0.7:
                # chained initial assignment: the parameter reaches this variable only through another variable's initial value
                y = r.choice(initialised)
                e = r.choice([binop("**", var(y), num(2)), add(mul(num(2), var(y)), num(1)), mul(var(y), var(y))])
                self.init.append(("assign", x, ("poly", e)))
                self.feat("chained-initial-assignment")
                initialised.append(x)
                continue
            initialised.append(x)
            if x0 < 0.1:
                self.noinit.add(x)
                initialised.pop()
                self.feat("no-initial-value")
            elif x0 < 0.35 and prof == "symbolic":
                self.params["x0init"] = "real"
                self.init.append(("assign", x, ("poly", var("x0init"))))
                self.feat("symbolic-initial-value")
            else:
                self.init.append(("assign", x, ("poly", num(r.choice([0, 1, 2, -1, F(1, 2), 3])))))

        data_stmts = []
        lower = []
        for lvl in levels:
            if prof == "linear" or (len(lvl) >= 2 and r.random() < 0.4):
                # simultaneous linear update of the whole level
                rhss = []
                for x in lvl:
                    terms = [scaled(r.choice(SMALL_COEFFS), var(y)) for y in lvl if r.random() < 0.7]
                    if not terms:
                        terms = [var(r.choice(lvl))]
                    if r.random() < 0.3:
                        terms.append(num(r.choice([1, 2, -1])))
                    rhss.append(("poly", sum_terms(terms)))
                if len(lvl) >= 2 and r.random() < 0.7:
                    if r.random() < 0.3:
                        # a draw / choice as one component, read by a component further to the right
                        j = r.randrange(len(lvl) - 1)
                        rhss[j] = r.choice([("draw", "Bernoulli", [num(F(1, 2))]), ("draw", "DiscreteUniform", [num(0), num(2)]),
                                            ("choice", [(num(1), num(F(1, 4))), (num(3), num(F(3, 4)))])])
                        rhss[j + 1] = ("poly", add(var(lvl[j]), var(lvl[j + 1])))
                        self.feat("simultaneous-assignment-with-draw")
                    elif r.random() < 0.35:
                        # a numeric literal as one component, whose target is READ by another component of the same tuple
                        # (reset-and-remember: the reader must see the value from before the statement)
                        j = r.randrange(len(lvl))
                        k_ = r.choice([i_ for i_ in range(len(lvl)) if i_ != j])
                        rhss[j] = ("poly", num(r.choice([0, 1, 2, -1])))
                        rhss[k_] = ("poly", r.choice([var(lvl[j]), add(var(lvl[j]), var(lvl[k_])), add(mul(num(2), var(lvl[j])), num(1))]))
                        self.feat("simultaneous-assignment-literal-and-reader")
                    data_stmts.append(("simult", list(lvl), rhss))
                    self.feat("simultaneous-assignment")
                else:
                    for x, rh in zip(lvl, rhss):
                        data_stmts.append(("assign", x, rh))
                self.feat("linear-system")
            else:
                for x in lvl:
                    data_stmts.append(("assign", x, self.data_update(x, lower, lvl)))
            lower = lower + lvl

        # finite updates as statements
        fin_stmts = []
        for name, upd in fin_updates:
            if upd[0] == "counter":
                hi = upd[1]
                fin_stmts.append(("if", [(("atom", var(name), "<", num(hi)), [("assign", name, ("poly", add(var(name), num(1))))])], None))
            elif upd[0] == "drawflip":
                fin_stmts.append(("assign", name, ("draw", "Bernoulli", [self.prob_expr()])))
                fin_stmts.append(("assign", name, ("poly", binop("-", num(upd[1]), var(name)))))
                self.feat("multi-assign-same-var")
            elif upd[0] == "sum2":
                fin_stmts.append(("assign", "da", ("draw", "DiscreteUniform", [num(upd[1]), num(upd[2])])))
                fin_stmts.append(("assign", "db", ("draw", "DiscreteUniform", [num(upd[1]), num(upd[2])])))
                fin_stmts.append(("assign", name, ("poly", binop(upd[3], var("da"), var("db")))))
            elif upd[0] == "prodbern":
                tmpn = name
                fin_stmts.append(("assign", tmpn, ("draw", "Bernoulli", [self.prob_expr()])))
                fin_stmts.append(("assign", tmpn, ("poly", mul(var(tmpn), var(upd[1])))))
                self.feat("multi-assign-same-var")
            else:
                fin_stmts.append(("assign", name, upd))

        body = []
        # order: some finite updates first, draws, data under conditions, remaining finite updates
        # keep 'draw; update of the drawn variable' pairs adjacent and in order while shuffling
        groups = []
        i_ = 0
        while i_ < len(fin_stmts):
            st = fin_stmts[i_]
            if i_ + 1 < len(fin_stmts) and st[0] == "assign" and fin_stmts[i_ + 1][0] == "assign" and fin_stmts[i_ + 1][1] == st[1]:
                groups.append([st, fin_stmts[i_ + 1]])
                i_ += 2
            else:
                groups.append([st])
                i_ += 1
        r.shuffle(groups)
        fin_stmts = [st for g_ in groups for st in g_]
        cut = r.randint(0, len(fin_stmts))
        body += fin_stmts[:cut]
        if self.fin and draw_stmts and r.random() < 0.25:
            # a draw (in particular one with variable-dependent parameters) made only in some iterations: under the branch condition
            # the variable is redrawn, otherwise it keeps its value
            k_ = r.randrange(len(draw_stmts))
            dv = draw_stmts[k_][1]
            self.init.append(("assign", dv, ("poly", num(r.choice([0, 1])))))
            draw_stmts[k_] = ("if", [(self.fin_cond_atom(), [draw_stmts[k_]])], None)
            self.feat("draw-inside-branch")
        body += draw_stmts
        body += self.wrap_in_conditions(data_stmts, fin_stmts[cut:])
        if prof == "multiassign" or r.random() < 0.2:
            body = self.add_multi_assign(body)
        if self.data and r.random() < 0.15:
            # a chain of loop constants (never assigned in the body), each defined from the previous one
            depth = r.choice([2, 3, 3, 4])
            names = ["ka", "kb", "kc", "kd"][:depth]
            self.init.append(("assign", names[0], ("poly", num(r.choice([3, 2, F(1, 2)])))))
            for a_, b_ in zip(names, names[1:]):
                self.init.append(("assign", b_, ("poly", r.choice([mul(num(2), var(a_)), add(var(a_), num(-1)), add(mul(num(3), var(a_)), num(1))]))))
            x = r.choice(self.data)
            body.append(("assign", x, ("poly", add(var(x), var(names[-1])))))
            self.feat(f"constant-chain-depth-{depth}")
        if len(self.data) >= 1 and r.random() < 0.1:
            # an init-only variable defined from the INITIAL value of a variable the loop modifies (kv = 2*x before the loop): it keeps
            # that initial value for ever, it is not an alias of the changing variable
            src = r.choice(self.data)
            if any(st[0] == "assign" and st[1] == src for st in self.init):
                self.init.append(("assign", "kv", ("poly", r.choice([var(src), mul(num(2), var(src)), add(var(src), num(1))]))))
                tgt = r.choice(self.data)
                body.append(("assign", tgt, ("poly", add(var(tgt), var("kv")))))
                self.data = self.data + ["kv"]
                self.feat("constant-defined-from-loop-variable")
        if self.data and r.random() < 0.1:
            # a loop constant with a fixed value compared with a literal by an inequality (or ==) in a branch condition: after constant
            # folding the atom reads <number> cop <number> and must be decided the right way round
            kv_, lit = r.choice([(3, 5), (5, 3), (0, 1), (4, -1), (F(1, 2), 1), (2, 2)])
            cop = r.choice(["<", ">", "<=", ">=", "<", ">"] + (["=="] if kv_ == lit else []))
            self.init.append(("assign", "kl", ("poly", num(kv_))))
            zz = r.choice(self.data)
            body.append(("if", [(("atom", var("kl"), cop, num(lit)), [("assign", zz, ("poly", add(var(zz), num(1))))])],
                         [("assign", zz, ("poly", add(var(zz), num(10))))]))
            self.feat("loop-constant-compared-with-literal")
        if self.data and r.random() < 0.12:
            # a loop constant with a RANDOM initial value (choice / draw in the init block, never assigned in the body): it is a
            # random variable, not a number - E(kr**2) != E(kr)**2 and it is correlated with everything computed from it
            kind = r.choice(["choice", "choice", "bernoulli", "duniform", "normal", "derived"])
            if kind == "choice":
                a_, b_ = r.choice([(1, 3), (0, 2), (-1, 1), (2, 5)])
                rhs = ("choice", [(num(a_), num(r.choice([F(1, 4), F(1, 2), F(2, 3)]))), (num(b_), None)])
                pr = rhs[1][0][1][1]
                rhs = ("choice", [(num(a_), num(pr)), (num(b_), num(1 - pr))])
                self.init.append(("assign", "kr", rhs))
            elif kind == "bernoulli":
                self.init.append(("assign", "kr", ("draw", "Bernoulli", [num(r.choice([F(1, 2), F(1, 3), F(3, 4)]))])))
            elif kind == "duniform":
                self.init.append(("assign", "kr", ("draw", "DiscreteUniform", [num(1), num(r.choice([2, 3]))])))
            elif kind == "normal":
                self.init.append(("assign", "kr", ("draw", "Normal", [num(r.choice([0, 1])), num(r.choice([1, 4]))])))
            else:
                self.init.append(("assign", "kq", ("choice", [(num(1), num(F(1, 2))), (num(2), num(F(1, 2)))])))
                self.init.append(("assign", "kr", ("poly", r.choice([mul(num(2), var("kq")), add(var("kq"), num(1)), mul(var("kq"), var("kq"))]))))
            x = r.choice(self.data)
            body.append(("assign", x, ("poly", add(var(x), r.choice([var("kr"), var("kr"), mul(num(2), var("kr")), mul(var("kr"), var("kr"))])))))
            self.data = self.data + ["kr"]
            self.feat("random-loop-constant-" + kind)
        if self.large_discrete:
            # lagged copy placed BEFORE the draw: the copy reads the previous iteration's value of an untypable variable
            u = self.large_discrete[0]
            lag = "k"
            self.init.append(("assign", lag, ("poly", num(0))))
            if u not in [st[1] for st in self.init if st[0] == "assign"]:
                self.init.append(("assign", u, ("poly", num(0))))
            body = [("assign", lag, ("poly", var(u)))] + body
            x = r.choice(self.data)
            body.append(("assign", x, ("poly", add(var(x), binop("**", var(lag), num(2))))))
            self.data = self.data + [lag]
            self.feat("lagged-read-of-untypable-draw")
        if self.fin and prof in ("guarded", "nested", "discrete") and r.random() < 0.2:
            # a variable WITHOUT initial value that is assigned a constant inside a branch
            c = r.choice(list(self.fin))
            val = r.choice(sorted(self.fin[c]))
            body.append(("if", [(("atom", var(c), "==", num(val)), [("assign", "m", ("poly", num(r.choice([3, 2, 5]))))])], None))
            x = r.choice(self.data)
            body.append(("assign", x, ("poly", add(var(x), var("m")))))
            self.noinit.add("m")
            self.data = self.data + ["m"]
            self.feat("uninitialised-constant-assigned-in-branch")
        if self.fin and self.data and prof in ("discrete", "nested", "guarded", "multiassign", "mixed") and r.random() < 0.3:
            body = self.add_alias_reuse(body)
        if self.data and prof in ("discrete", "nested", "guarded", "multiassign", "mixed") and r.random() < 0.25:
            body = self.add_latch(body)
        if self.data and prof in ("discrete", "nested", "guarded", "multiassign", "mixed") and r.random() < 0.2:
            body = self.add_branch_reassigning_own_condition(body)
        guard = ("true",)
        if prof == "guarded" and r.random() < 0.15:
            # guard over a variable that is drawn in the init block and never assigned in the body: the loop is either
            # skipped or never stops; the moments given termination condition on the initial draw
            q = r.choice(PROBS[:9])
            self.init.append(("assign", "g", ("draw", "Bernoulli", [num(q)])))
            self.fin["g"] = {F(0), F(1)}
            guard = ("atom", var("g"), "==", num(r.choice([0, 1])))
            self.feat("guard")
            self.feat("guard-over-initial-draw-only")
        elif prof == "guarded" or (self.fin and r.random() < 0.15):
            guard = self.make_guard()
            if "g" not in self.fin and r.random() < 0.18:
                # ... conjoined with a variable that is drawn once before the loop and never assigned in the body
                q = r.choice(PROBS[:9])
                self.init.append(("assign", "g", ("draw", "Bernoulli", [num(q)])))
                self.fin["g"] = {F(0), F(1)}
                guard = ("and", guard, ("atom", var("g"), "==", num(1))) if r.random() < 0.7 else ("and", ("atom", var("g"), "==", num(1)), guard)
                self.feat("guard-mixes-reassigned-and-initial-only-variable")
        if self.fin and self.data and guard != ("true",) and r.random() < 0.2:
            # the body STARTS with an if / elif whose conditions are conjunctions (no plain assignment before it): the first flattened
            # assignments carry guard && (c1 && c2); the recovered loop guard must still be the guard itself
            zz = r.choice(self.data)
            c1, c2, c3 = self.fin_cond_atom(), self.fin_cond_atom(), self.fin_cond_atom()
            first = ("if", [(("and", c1, c2), [("assign", zz, ("poly", add(var(zz), num(1))))]),
                            (("and", c3, c2), [("assign", zz, ("poly", add(var(zz), num(2))))])], None)
            body = [first] + body
            self.feat("body-starts-with-conjunctive-if")
        if self.fin and guard != ("true",) and r.random() < 0.15:
            # the whole body under one branch condition: states where the guard holds but the condition does not are stuck,
            # the loop has NOT terminated there (LoopGuardTransformer collapses first-level ifs)
            body = [("if", [(self.fin_cond() if r.random() < 0.5 else self.make_guard(), body)], None)]
            self.feat("body-is-single-if")
        cand_ = [c_ for c_ in self.fin if c_ not in {t[0] for t in self.typedefs} and c_ not in ("g", "l", "h", "j")
                 and any(st[0] == "assign" and st[1] == c_ for st in body)]
        if cand_ and self.data and guard == ("true",) and r.random() < 0.08:
            # a finite variable WITHOUT initial value that is tested in a branch condition before its first assignment of the iteration
            # (and only there): in the first iteration it still holds its arbitrary initial value
            c_ = r.choice(cand_)
            self.init = [st for st in self.init if not (st[0] == "assign" and st[1] == c_)]
            zz = r.choice(self.data)
            body = [("if", [(("atom", var(c_), "==", num(r.choice(sorted(self.fin[c_])))), [("assign", zz, ("poly", add(var(zz), num(1))))])], None)] + body
            self.noinit.add(c_)
            self.feat("uninitialised-finite-variable-tested-before-assignment")
        prog = Program(self.typedefs, self.init, guard, body)
        return prog

    def add_alias_reuse(self, body):
        """the same non-reduced comparison atom in two separate if-statements with the last assignment to one of its
        variables in between (alias reuse must be invalidated by the reassignment)"""
        r = self.rng
        self.feat("alias-reuse-across-reassignment")
        names = list(self.fin)
        v = r.choice(names)
        if len(names) >= 2:
            w = r.choice([n for n in names if n != v])
        else:
            w = next(n for n in FIN_NAMES if n not in self.fin)
            self.fin[w] = {F(0), F(1)}
            self.init.append(("assign", w, ("poly", num(r.choice([0, 1])))))
        shape = r.choice(["var-rhs", "sum", "sum-const"])
        if shape == "var-rhs":
            atom = ("atom", var(v), r.choice(["==", "<", ">=", "<="]), var(w))
        elif shape == "sum":
            atom = ("atom", add(var(v), var(w)), r.choice([">", ">=", "==", "<"]), num(r.choice([0, 1, 2])))
        else:
            atom = ("atom", add(var(v), num(1)), r.choice([">", "==", "<="]), var(w))
        re_var = r.choice([v, w])
        vals = sorted(self.fin[re_var])
        if len(vals) >= 2 and r.random() < 0.6:
            cs = r.sample(vals, 2)
            reassign = ("assign", re_var, ("choice", [(num(cs[0]), num(F(1, 2))), (num(cs[1]), num(F(1, 2)))]))
        else:
            reassign = ("assign", re_var, ("poly", num(r.choice(vals))))
        d1 = r.choice(self.data)
        d2 = r.choice(self.data)
        first = ("if", [(atom, [("assign", d1, ("poly", add(var(d1), num(1))))])], None)
        second = ("if", [(atom, [("assign", d2, ("poly", add(var(d2), num(r.choice([1, 2, 3])))))])], None)
        return body + [first, reassign, second]

    def add_branch_reassigning_own_condition(self, body):
        """elif / else-after-elif / && branches whose (second) condition reads a finite variable that the branch itself assigns and
        then uses again, and nested ifs whose outer condition reads a variable assigned twice in the body: normalization must rename the
        variable consistently in EVERY conjunct of the flattened conditions"""
        r = self.rng
        name = "h"
        a, b = r.sample([F(0), F(1), F(2)], 2)
        self.fin[name] = {a, b}
        self.init.append(("assign", name, ("poly", num(r.choice([a, b])))))
        z = r.choice(self.data)
        if "j" not in self.fin:
            self.fin["j"] = {F(0), F(1)}
            self.init.append(("assign", "j", ("poly", num(0))))
            body = [("assign", "j", ("draw", "Bernoulli", [num(r.choice([F(1, 2), F(1, 3), F(3, 4)]))]))] + body
        shape = r.choice(["elif", "and", "nested"])
        inc = lambda k: ("assign", z, ("poly", add(var(z), num(k))))
        if shape == "elif":
            st = [("if", [(("atom", var("j"), "==", num(1)), [inc(1)]),
                          (("atom", var(name), "==", num(a)), [("assign", name, ("poly", num(b))), inc(10)])],
                   [("assign", name, ("poly", num(a))), inc(100)])]
        elif shape == "and":
            st = [("if", [(("and", ("atom", var("j"), "==", num(0)), ("atom", var(name), "==", num(a))),
                           [("assign", name, ("poly", num(b))), inc(10), ("assign", name, ("poly", add(mul(num(-1), var(name)), num(a + b))))])], None)]
        else:
            st = [("assign", name, ("choice", [(num(a), num(F(1, 2))), (num(b), num(F(1, 2)))])),
                  ("if", [(("atom", var(name), "==", num(b)), [("if", [(("atom", var("j"), "==", num(0)), [inc(10)])], None)])], None),
                  ("if", [(("atom", var("j"), "==", num(1)), [("assign", name, ("poly", num(a)))])], None)]
        self.feat("branch-reassigns-own-condition-variable:" + shape)
        pos = r.randint(1, len(body))
        return body[:pos] + st + body[pos:]

    def add_latch(self, body):
        """a variable used only in the condition of an earlier branch and assigned only in a later branch of the same
        if-statement (its old value must still be used by the earlier conditions of that statement)"""
        r = self.rng
        self.feat("latch-assigned-in-later-branch")
        name = "l"
        a, b = r.sample([F(0), F(1), F(2)], 2)
        self.fin[name] = {a, b}
        self.init.append(("assign", name, ("poly", num(b))))
        z = r.choice(self.data)
        if self.fin and len(self.fin) > 1:
            c = r.choice([n for n in self.fin if n != name])
            cond2 = ("atom", var(c), "==", num(r.choice(sorted(self.fin[c]))))
        else:
            cond2 = ("true",)
        st = ("if", [(("atom", var(name), "==", num(a)), [("assign", z, ("poly", add(var(z), num(2))))]),
                     (cond2, [("assign", name, ("poly", num(a))), ("assign", z, ("poly", add(var(z), num(1))))])], None)
        pos = r.randint(0, len(body))
        return body[:pos] + [st] + body[pos:]

    def wrap_in_conditions(self, data_stmts, fin_rest):
        r = self.rng
        stmts = list(data_stmts)
        rest = list(fin_rest)
        if not self.fin:
            return stmts + rest
        pcond = {"nested": 0.9, "discrete": 0.6, "guarded": 0.5}.get(self.profile, 0.4)
        out = []
        pool = stmts + rest
        r.shuffle(rest)
        i = 0
        while i < len(pool):
            if r.random() < pcond:
                k = r.choice([1, 1, 2, 3])
                chunk = pool[i:i + k]
                i += k
                out.append(self.make_if(chunk, depth=0))
            else:
                out.append(pool[i])
                i += 1
        return out

    def make_if(self, chunk, depth):
        r = self.rng
        self.feat("if")
        nb = r.choice([1, 1, 2, 3]) if len(chunk) > 1 else r.choice([1, 1, 2])
        branches = []
        # distribute statements; later branches get variants of the statements (re-generated constants)
        for b in range(nb):
            stm = chunk if b == 0 else [self.variant(s) for s in chunk]
            if depth < 2 and self.profile == "nested" and r.random() < 0.4 and len(stm) >= 1:
                stm = [self.make_if(stm, depth + 1)]
                self.feat("nested-if")
            branches.append((self.fin_cond(), stm))
        els = None
        if r.random() < 0.4:
            els = [self.variant(s) for s in chunk]
            self.feat("else")
        if nb > 1:
            self.feat("elif")
        return ("if", branches, els)

    def variant(self, s):
        """a statement assigning the same variable(s) differently"""
        r = self.rng
        if s[0] == "assign":
            v = s[1]
            if v in self.fin:
                vals = sorted(self.fin[v])
                x = r.random()
                if x < 0.5:
                    return ("assign", v, ("poly", num(r.choice(vals))))
                if x < 0.75 and len(vals) >= 2:
                    cs = r.sample(vals, 2)
                    return ("assign", v, ("choice", [(num(cs[0]), num(F(1, 2))), (num(cs[1]), num(F(1, 2)))]))
                return s
            if v in self.data:
                lower = self.data[: self.data.index(v)]
                return ("assign", v, ("poly", self.data_update_expr(v, [], [v], nonlin=False)))
            return s
        if s[0] == "simult":
            return ("simult", list(s[1]), [("poly", var(x)) for x in reversed(s[1])])
        # if-statements (bounded counters!) are kept as they are: changing their condition could make a
        # declared FiniteRange type false, and programs with false declared types are outside every property
        return s

    def add_multi_assign(self, body):
        """insert a second assignment to a data variable, or an early overwrite of a finite variable"""
        r = self.rng
        if not self.data:
            return body
        x = r.choice(self.data)
        self.feat("multi-assign-same-var")
        extra = ("assign", x, ("poly", add(var(x), num(r.choice([1, 2, -1])))))
        pos = r.randint(0, len(body))
        body = body[:pos] + [extra] + body[pos:]
        if self.fin and r.random() < 0.5:
            c = r.choice(list(self.fin))
            vals = sorted(self.fin[c])
            extra2 = ("assign", c, ("poly", num(r.choice(vals))))
            pos = r.randint(0, len(body))
            body = body[:pos] + [extra2] + body[pos:]
            self.feat("multi-assign-finite")
        return body

    def make_guard(self):
        r = self.rng
        self.feat("guard")
        names = list(self.fin)
        v = r.choice(names)
        vals = sorted(self.fin[v])
        x = r.random()
        if len(names) >= 2 and x < 0.1:
            # a disjunction / conjunction of two atoms over two DIFFERENT variables (both usually reassigned in the body)
            v2 = r.choice([n_ for n_ in names if n_ != v])
            g = (r.choice(["or", "or", "and"]), ("atom", var(v), "==", num(r.choice(vals))), ("atom", var(v2), "==", num(r.choice(sorted(self.fin[v2])))))
            self.feat("guard-two-variables-" + g[0])
        elif x < 0.2 and all(q.denominator == 1 for q in vals):
            # overlapping alternatives over the same variable: v <= a || v == a
            a = r.choice(vals)
            g = ("or", ("atom", var(v), r.choice(["<=", ">="]), num(a)), ("atom", var(v), "==", num(a)))
            self.feat("guard-overlapping-disjunction")
        elif x < 0.5:
            val = r.choice(vals)
            g = ("atom", var(v), "==", num(val))
        elif x < 0.8 and all(q.denominator == 1 for q in vals):
            g = ("atom", var(v), r.choice(["<", "<=", ">", ">="]), num(r.choice(vals)))
            self.feat("guard-ineq")
            # prefer an inequality that at least two values of some variable satisfy and at least one violates (the normalized
            # guard is a disjunction of equalities then)
            import operator
            ops = {"<": operator.lt, "<=": operator.le, ">": operator.gt, ">=": operator.ge}
            cands = []
            for w in names:
                ws = sorted(self.fin[w])
                if len(ws) < 3 or any(q.denominator != 1 for q in ws):
                    continue
                for cop, f in ops.items():
                    for a in ws:
                        sat = sum(1 for q in ws if f(q, a))
                        if sat >= 2 and sat < len(ws):
                            cands.append((w, cop, a))
            if cands and r.random() < 0.75:
                w, cop, a = r.choice(cands)
                g = ("atom", var(w), cop, num(a))
                self.feat("guard-ineq-several-values")
        else:
            g = self.fin_cond()
            self.feat("guard-compound")
        return g


def goal_monomials(rng, prog_vars, max_deg=3, count=3, prefer=None):
    goals = []
    vs = list(prog_vars)
    for _ in range(count * 3):
        if len(goals) >= count:
            break
        k = rng.choice([1, 1, 1, 2, 2, 3][: max(1, max_deg * 2)])
        m = {}
        for _ in range(k):
            v = rng.choice(prefer if prefer and rng.random() < 0.7 else vs)
            m[v] = m.get(v, 0) + 1
        if sum(m.values()) <= max_deg and m not in goals:
            goals.append(m)
    return goals


def generate(seed, profile=None):
    rng = random.Random(seed)
    g = Gen(rng, profile)
    prog = g.build()
    from ..lang.ast import program_variables
    pv = program_variables(prog)
    meta = {
        "profile": g.profile,
        "params": dict(g.params),
        "noinit": sorted(g.noinit),
        "fin": {k: sorted(v) for k, v in g.fin.items()},
        "data": list(g.data),
        "draws": list(g.draws),
    }
    return prog, sorted(g.features), meta


def instantiate_params(rng, meta, prog):
    """random admissible rational values for symbolic constants and for symbolic initial values"""
    from ..lang.ast import program_symbols, program_variables
    vals = {}
    for name in program_symbols(prog):
        kind = meta.get("params", {}).get(name, "real")
        if kind == "prob":
            vals[name] = F(rng.randint(1, 18), 19)
        elif kind == "pos":
            vals[name] = F(rng.randint(1, 30), rng.choice([7, 11, 13]))
        else:
            vals[name] = F(rng.randint(-20, 20), rng.choice([3, 7, 11])) or F(5, 7)
    inits = {}
    declared = declared_values(prog)
    for v in program_variables(prog):
        if v in declared and declared[v]:
            inits[v] = rng.choice(declared[v])
        else:
            # stand-in for the symbolic initial value <v>0: never an integer / half-integer, so that it cannot be
            # confused with a designed program constant
            inits[v] = F(7 * rng.randint(-3, 3) + rng.choice([1, 2, 3, 4, 5, 6]), 7) + F(rng.choice([0, 1, 2]), 11)
    return vals, inits


def declared_values(prog):
    """var -> list of Fractions for user-declared Finite / FiniteRange types with numeric parameters"""
    from ..lang.ast import fold
    out = {}
    for v, tname, args in prog.typedefs:
        vals = [fold(a) for a in args]
        if any(a[0] != "num" for a in vals):
            continue
        nums = [a[1] for a in vals]
        if tname == "FiniteRange" and len(nums) == 2 and all(x.denominator == 1 for x in nums):
            out[v] = [F(i) for i in range(int(nums[0]), int(nums[1]) + 1)]
        elif tname == "Finite":
            out[v] = nums
    return out
