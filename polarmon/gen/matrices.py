"""Seeded generator of linear recurrence systems x(n+1) = A x(n) + b, x(0) = v with a designed Jordan
structure (C04), plus the exact rational linear algebra the check uses as oracle / diagnostics.

Pure Python (fractions only): imported by the master to generate cases and by the workers to iterate the
matrix and to compute the diagnostic predicates (characteristic polynomial, multiplicity / index of the
eigenvalue 0, existence of non-real eigenvalues).  Nothing here calls Polar or sympy.

Entries of A, b, v are *linear forms* in named constants (parameters and symbolic initial values):
a dict  name -> Fraction  with "" for the constant term.  JSON encoding: name -> "p/q".
"""
from fractions import Fraction as F
import random

# ------------------------------------------------------------------------------------------- linear forms


def lf(c=0, **kw):
    d = {}
    if c != 0:
        d[""] = F(c)
    for k, v in kw.items():
        if v != 0:
            d[k] = F(v)
    return d


def lf_add(a, b, sb=1):
    d = dict(a)
    for k, v in b.items():
        nv = d.get(k, 0) + sb * v
        if nv == 0:
            d.pop(k, None)
        else:
            d[k] = nv
    return d


def lf_scale(a, s):
    if s == 0:
        return {}
    return {k: v * s for k, v in a.items()}


def lf_eval(a, values):
    tot = F(0)
    for k, v in a.items():
        tot += v if k == "" else v * values[k]
    return tot


def lf_enc(a):
    return {k: fstr(v) for k, v in sorted(a.items())}


def lf_dec(a):
    return {k: F(v) for k, v in a.items()}


def fstr(x):
    x = F(x)
    return str(x.numerator) if x.denominator == 1 else f"{x.numerator}/{x.denominator}"


def lf_str(a):
    if not a:
        return "0"
    parts = []
    for k, v in sorted(a.items()):
        if k == "":
            parts.append(fstr(v))
        elif v == 1:
            parts.append(k)
        else:
            parts.append(f"({fstr(v)})*{k}")
    return " + ".join(parts)


# ------------------------------------------------------------------------------------------- exact linear algebra


def mat_vec(A, v):
    return [sum((a * x for a, x in zip(row, v) if a != 0), F(0)) for row in A]


def mat_mul(A, B):
    n, m, p = len(A), len(B), len(B[0]) if B else 0
    return [[sum((A[i][k] * B[k][j] for k in range(m) if A[i][k] != 0), F(0)) for j in range(p)] for i in range(n)]


def identity(n):
    return [[F(1) if i == j else F(0) for j in range(n)] for i in range(n)]


def iterate(A, b, v, N):
    """[x(0), ..., x(N)] for x(n+1) = A x(n) + b  (exact)"""
    out = [list(v)]
    x = list(v)
    for _ in range(N):
        y = mat_vec(A, x)
        x = [yi + bi for yi, bi in zip(y, b)]
        out.append(x)
    return out


def augmented(A, b):
    """[[A, b], [0, 1]] when b != 0 (this is the matrix Polar builds), else A"""
    if not any(x != 0 for x in b):
        return [list(r) for r in A]
    d = len(A)
    M = [list(A[i]) + [b[i]] for i in range(d)]
    M.append([F(0)] * d + [F(1)])
    return M


def rank(M):
    M = [list(r) for r in M]
    rk = 0
    rows, cols = len(M), len(M[0]) if M else 0
    for c in range(cols):
        piv = None
        for r in range(rk, rows):
            if M[r][c] != 0:
                piv = r
                break
        if piv is None:
            continue
        M[rk], M[piv] = M[piv], M[rk]
        pv = M[rk][c]
        for r in range(rk + 1, rows):
            if M[r][c] != 0:
                f = M[r][c] / pv
                M[r] = [a - f * b_ for a, b_ in zip(M[r], M[rk])]
        rk += 1
        if rk == rows:
            break
    return rk


def charpoly(M):
    """coefficients [1, c_{d-1}, ..., c_0] (highest first) of det(xI - M), Faddeev-LeVerrier"""
    d = len(M)
    coeffs = [F(1)]
    Mk = identity(d)
    for k in range(1, d + 1):
        AM = mat_mul(M, Mk)
        c = -sum(AM[i][i] for i in range(d)) / k
        coeffs.append(c)
        Mk = [[AM[i][j] + (c if i == j else 0) for j in range(d)] for i in range(d)]
    return coeffs


def zero_multiplicity(cp):
    m = 0
    for c in reversed(cp):
        if c != 0:
            break
        m += 1
    return m


def zero_index(M):
    """size of the largest Jordan block of the eigenvalue 0 (0 if M is regular)"""
    d = len(M)
    P = identity(d)
    prev = d
    for j in range(1, d + 2):
        P = mat_mul(P, M)
        r = rank(P)
        if r == prev:
            return j - 1
        prev = r
    return d


# polynomials: list of Fractions, highest degree first, no leading zeros ([] = zero polynomial)
def p_trim(p):
    i = 0
    while i < len(p) and p[i] == 0:
        i += 1
    return list(p[i:])


def p_divmod(a, b):
    a = p_trim(a)
    b = p_trim(b)
    q = []
    while len(a) >= len(b) and a:
        f = a[0] / b[0]
        q.append(f)
        for i in range(len(b)):
            a[i] -= f * b[i]
        a = a[1:]
    return q, p_trim(a)


def p_gcd(a, b):
    a, b = p_trim(a), p_trim(b)
    while b:
        _, r = p_divmod(a, b)
        a, b = b, r
    return [c / a[0] for c in a] if a else a


def p_deriv(p):
    n = len(p) - 1
    return p_trim([c * (n - i) for i, c in enumerate(p[:-1])])


def p_eval(p, x):
    r = F(0)
    for c in p:
        r = r * x + c
    return r


def p_sub(a, b):
    n = max(len(a), len(b))
    a = [F(0)] * (n - len(a)) + list(a)
    b = [F(0)] * (n - len(b)) + list(b)
    return p_trim([x - y for x, y in zip(a, b)])


def squarefree_factors(p):
    """Yun: [(factor, multiplicity)] with pairwise coprime squarefree monic factors"""
    p = p_trim(p)
    if len(p) <= 1:
        return []
    p = [c / p[0] for c in p]
    out = []
    dp = p_deriv(p)
    g = p_gcd(p, dp)
    w, _ = p_divmod(p, g)
    y, _ = p_divmod(dp, g)
    i = 1
    while len(w) > 1:
        z = p_sub(y, p_deriv(w))
        if z:
            g2 = p_gcd(w, z)
        else:
            g2 = [c / w[0] for c in w]
        if len(g2) > 1:
            out.append((g2, i))
        w, _ = p_divmod(w, g2)
        y, _ = (p_divmod(z, g2) if z else ([], []))
        i += 1
        if i > len(p) + 2:
            break
    return out


def count_distinct_real_roots(p):
    """Sturm's theorem on a squarefree polynomial"""
    p = p_trim(p)
    if len(p) <= 1:
        return 0
    chain = [p, p_deriv(p)]
    while chain[-1]:
        _, r = p_divmod(chain[-2], chain[-1])
        if not r:
            break
        chain.append([-c for c in r])

    def variations(at_plus_inf):
        signs = []
        for q in chain:
            if not q:
                continue
            s = 1 if q[0] > 0 else -1
            if not at_plus_inf and (len(q) - 1) % 2 == 1:
                s = -s
            signs.append(s)
        return sum(1 for a, b in zip(signs, signs[1:]) if a != b)

    return variations(False) - variations(True)


def spectrum_info(M):
    """diagnostic predicates of a rational matrix (exact)"""
    cp = charpoly(M)
    fac = squarefree_factors(cp)
    distinct = sum(len(f) - 1 for f, _ in fac)
    real = sum(count_distinct_real_roots(f) for f, _ in fac)
    m0 = zero_multiplicity(cp)
    rational_roots = 0
    return {
        "dim": len(M),
        "charpoly": [fstr(c) for c in cp],
        "zero_mult": m0,
        "zero_index": zero_index(M) if m0 else 0,
        "distinct_roots": distinct,
        "distinct_real_roots": real,
        "has_complex": real < distinct,
        "max_mult": max([m for _, m in fac], default=0),
        "one_mult": sum(m for f, m in fac if p_eval(f, F(1)) == 0),
    }


# ------------------------------------------------------------------------------------------- building blocks

EIGS = [F(1), F(1), F(2), F(-1), F(1, 2), F(3), F(-2), F(1, 3), F(-1, 2), F(3, 2)]
# monic polynomials as the last row of the companion matrix  (x^k = r0 + r1 x + ...):
COMPANIONS = {
    "fib": [1, 1],               # x^2 - x - 1      (irrational real)
    "i": [-1, 0],                # x^2 + 1          (complex, |r| = 1)
    "1+i": [-2, 2],              # x^2 - 2x + 2     (complex)
    "cbrt2": [2, 0, 0],          # x^3 - 2          (one real, two complex)
    "sqrt2": [2, 0],             # x^2 - 2
    "w3": [-1, -1],              # x^2 + x + 1      (periodic)
    "3x": [-1, 3],               # x^2 - 3x + 1
    "half": [F(-1, 2), 1],       # x^2 - x + 1/2    (complex, |r| < 1)
    "plastic": [1, 1, 0],        # x^3 - x - 1      (CRootOf in sympy)
    "sqrt2i": [-2, 0],           # x^2 + 2
    "3real": [-1, 3, 0],         # x^3 - 3x + 1     (casus irreducibilis: three real roots, all CRootOf; real roots sort BEFORE rational/radical ones only by value)
}
CROOT_COMPANIONS = ("plastic", "3real")
COMPLEX_COMPANIONS = ["i", "1+i", "cbrt2", "w3", "half", "plastic", "sqrt2i"]
REAL_COMPANIONS = ["fib", "sqrt2", "3x", "3real"]
HARD_COMPANIONS = {
    "quintic": [1, 1, 0, 0, 0],    # x^5 - x - 1  (not solvable: CRootOf)
    "x4+1": [-1, 0, 0, 0],         # x^4 + 1
    "quartic": [1, 0, 0, 1],       # x^4 - x^3 - 1
}


def jordan_block(lam, k, link=1):
    B = [[F(0)] * k for _ in range(k)]
    for i in range(k):
        B[i][i] = F(lam)
        if i + 1 < k:
            B[i][i + 1] = F(link)
    return B


def companion(last_row, transpose=False, scale=1):
    k = len(last_row)
    B = [[F(0)] * k for _ in range(k)]
    for i in range(k - 1):
        B[i][i + 1] = F(1)
    B[k - 1] = [F(c) for c in last_row]
    if transpose:
        B = [[B[j][i] for j in range(k)] for i in range(k)]
    if scale != 1:
        B = [[c * scale for c in r] for r in B]
    return B


def block_sum(blocks):
    d = sum(len(b) for b in blocks)
    M = [[F(0)] * d for _ in range(d)]
    o = 0
    spans = []
    for b in blocks:
        k = len(b)
        for i in range(k):
            for j in range(k):
                M[o + i][o + j] = b[i][j]
        spans.append((o, o + k))
        o += k
    return M, spans


def unimodular(rng, d, ops):
    """P and P^-1 as products of elementary integer row operations"""
    P = identity(d)
    Pinv = identity(d)
    for _ in range(ops):
        i, j = rng.sample(range(d), 2)
        c = rng.choice([1, -1, 1, -1, 2, -2])
        # E = I + c e_i e_j^T ;  P <- E P ; Pinv <- Pinv E^-1
        P[i] = [a + c * b for a, b in zip(P[i], P[j])]
        for r in range(d):
            Pinv[r][j] -= c * Pinv[r][i]
    return P, Pinv


PARAM_NAMES = ["a", "b", "c"]
GENERIC_VALUES = [F(7, 3), F(-5, 3), F(11, 4), F(13, 5), F(-7, 2), F(9, 7), F(17, 6), F(-11, 5), F(19, 8), F(23, 9),
                  F(-13, 6), F(29, 10), F(31, 12), F(-17, 7), F(37, 11), F(-19, 9), F(41, 13), F(-23, 10), F(43, 14), F(47, 15)]

PROFILES_QUICK = ["nilchain", "nilchain", "jordan", "jordan", "companion", "companion", "scrambled", "scrambled",
                  "scrambled_nil", "parametric", "parametric", "syminit", "options", "options", "options"]
PROFILES_THOROUGH = PROFILES_QUICK + ["hard", "repeated_companion", "scrambled", "jordan"]


def _pick_dim_blocks(rng, profile, maxdim):
    """list of (kind, spec) blocks whose sizes sum to <= maxdim"""
    blocks = []
    size = 0

    def room():
        return maxdim - size

    def add(kind, spec, k):
        nonlocal size
        blocks.append((kind, spec))
        size += k

    if profile in ("nilchain", "scrambled_nil"):
        k = rng.choice([1, 2, 2, 3, 3, 4])
        k = min(k, maxdim - 1)
        add("J", (F(0), k, rng.choice([1, 1, 1, 2, -1])), k)
        if room() >= 2 and rng.random() < 0.3:
            k2 = rng.choice([1, 2])
            add("J", (F(0), k2, 1), k2)
        # the components that are fed by the chain
        while room() > 0 and (len(blocks) < 2 or rng.random() < 0.6):
            lam = rng.choice([F(1), F(1), F(2), F(1, 2), F(-1), F(3)])
            k3 = min(room(), rng.choice([1, 1, 2]))
            add("J", (lam, k3, 1), k3)
        if room() >= 2 and rng.random() < 0.2:
            name = rng.choice(["fib", "i", "1+i"])
            add("C", (name, False, 1), 2)
    elif profile in ("jordan", "syminit"):
        target = rng.randint(2, maxdim)
        while room() > 0 and size < target:
            lam = rng.choice(EIGS + [F(0), F(0)])
            k = min(room(), rng.choice([1, 1, 1, 2, 2, 3, 4]))
            add("J", (lam, k, rng.choice([1, 1, 1, 2, -1, F(1, 2)])), k)
        if rng.random() < 0.4 and blocks:
            # repeat an eigenvalue in a second block (geometric multiplicity > 1)
            lam = blocks[0][1][0]
            if room() > 0:
                add("J", (lam, 1, 1), 1)
    elif profile in ("companion", "scrambled", "options", "repeated_companion", "hard"):
        if profile == "hard":
            name = rng.choice(list(HARD_COMPANIONS))
            add("H", (name, rng.random() < 0.3, 1), len(HARD_COMPANIONS[name]))
        else:
            pool = list(COMPANIONS)
            if profile == "options":
                pool = REAL_COMPANIONS * 2 + COMPLEX_COMPANIONS
            name = rng.choice(pool)
            k = len(COMPANIONS[name])
            if k <= maxdim:
                scale = rng.choice([1, 1, 1, 2, F(1, 2), -1])
                add("C", (name, rng.random() < 0.3, scale), k)
                if profile == "repeated_companion" and room() >= k:
                    add("C", (name, False, scale), k)
        lim = maxdim if profile != "options" else min(maxdim, 4)
        if any(k_ == "C" and sp_[0] in CROOT_COMPANIONS for k_, sp_ in blocks):
            # exact CRootOf arithmetic in Polar's linsolve explodes beyond dimension 3-4: keep those systems small
            lim = min(lim, size + (0 if maxdim <= 5 else 1))
        while size < lim and rng.random() < (0.65 if profile != "options" else 0.5):
            r = rng.random()
            if r < 0.3 and lim - size >= 2:
                name = rng.choice(list(COMPANIONS) if profile != "options" else REAL_COMPANIONS + COMPLEX_COMPANIONS)
                k = len(COMPANIONS[name])
                if k <= lim - size and name not in CROOT_COMPANIONS:
                    add("C", (name, rng.random() < 0.3, 1), k)
            elif r < 0.55:
                k = min(lim - size, rng.choice([1, 1, 2, 3]))
                add("J", (F(0), k, 1), k)
            else:
                lam = rng.choice(EIGS)
                k = min(lim - size, rng.choice([1, 1, 2]))
                add("J", (lam, k, 1), k)
        if not blocks:
            add("J", (F(2), 1, 1), 1)
    elif profile == "parametric":
        target = rng.randint(2, min(maxdim, 4))
        while size < target:
            lam = rng.choice(EIGS + [F(0), F(0), F(0)])
            k = min(target - size, rng.choice([1, 1, 2]))
            add("J", (lam, k, 1), k)
    else:
        raise ValueError(profile)
    return blocks


def _materialise(blocks):
    mats = []
    for kind, spec in blocks:
        if kind == "J":
            mats.append(jordan_block(*spec))
        elif kind == "C":
            name, tr, scale = spec
            mats.append(companion(COMPANIONS[name], tr, scale))
        elif kind == "H":
            name, tr, scale = spec
            mats.append(companion(HARD_COMPANIONS[name], tr, scale))
    return block_sum(mats)


def generate_system(cs, tier="quick", profile=None):
    """returns a self-contained JSON-able dict describing the system and the runs"""
    rng = random.Random(cs)
    profiles = PROFILES_QUICK if tier == "quick" else PROFILES_THOROUGH
    profile = profile or rng.choice(profiles)
    maxdim = 5 if tier == "quick" else 7
    if profile in ("parametric",):
        maxdim = 4
    elif tier != "quick" and profile in ("companion", "scrambled", "repeated_companion"):
        maxdim = 6   # exact irrational roots in dimension 7 only produce solver timeouts
    feats = {"profile:" + profile}
    blocks = _pick_dim_blocks(rng, profile, maxdim)
    rng.shuffle(blocks) if profile not in ("nilchain", "scrambled_nil") or rng.random() < 0.5 else None
    M, spans = _materialise(blocks)
    d = len(M)
    for kind, spec in blocks:
        if kind == "J":
            lam, k, _ = spec
            feats.add("jordan0-size%d" % k if lam == 0 else ("jordan1-size%d" % k if lam == 1 else "jordan-size%d" % k))
        else:
            feats.add("companion:" + spec[0])
    # coupling above the block diagonal (keeps the spectrum, changes the Jordan structure)
    pc = rng.choice([0.0, 0.3, 0.5, 0.8])
    if profile in ("nilchain", "scrambled_nil"):
        pc = rng.choice([0.4, 0.6, 0.9])
    coupled = False
    for bi, (s0, e0) in enumerate(spans):
        for (s1, e1) in spans[bi + 1:]:
            for i in range(s0, e0):
                for j in range(s1, e1):
                    if rng.random() < pc * 0.6:
                        M[i][j] = F(rng.choice([1, 1, -1, 2, 3, -2, F(1, 2)]))
                        coupled = True
    if coupled:
        feats.add("coupled")
    # in nilchain profiles sometimes flip to lower-triangular feeding (chain feeds the later components)
    if profile in ("nilchain", "scrambled_nil") and rng.random() < 0.5:
        M = [[M[j][i] for j in range(d)] for i in range(d)]
        feats.add("transposed")

    A = [[lf(c) for c in row] for row in M]
    params = []
    if profile == "parametric":
        npar = rng.choice([1, 1, 2])
        params = PARAM_NAMES[:npar]
        places = []
        for p in params:
            kind = rng.choice(["diag", "diag", "off", "diagshift"])
            i = rng.randrange(d)
            if kind == "diag":
                A[i][i] = lf(0, **{p: 1})
                feats.add("param-diagonal")
            elif kind == "diagshift":
                A[i][i] = lf_add(A[i][i], lf(0, **{p: rng.choice([1, -1, 2])}))
                feats.add("param-diagonal")
            else:
                j = rng.randrange(d)
                if j == i:
                    j = (i + 1) % d
                if j < i and rng.random() < 0.7:
                    i, j = j, i
                A[i][j] = lf_add(A[i][j], lf(0, **{p: rng.choice([1, 1, -1, 2])}))
                feats.add("param-offdiagonal")
        if rng.random() < 0.25 and d == 2:
            # a genuinely cyclic parametric system with rational roots a +- 1 / a, -a ...
            p = params[0]
            which = rng.choice(["sym", "swap"])
            if which == "sym":
                A = [[lf(0, **{p: 1}), lf(1)], [lf(1), lf(0, **{p: 1})]]
            else:
                A = [[lf(0), lf(0, **{p: 1})], [lf(0, **{p: 1}), lf(0)]]
            feats.add("param-cyclic")

    # inhomogeneous part
    b = [lf(0) for _ in range(d)]
    if rng.random() < (0.45 if profile != "nilchain" else 0.7):
        for i in range(d):
            if rng.random() < 0.5:
                b[i] = lf(rng.choice([1, 2, 5, -1, 3, F(1, 2), -3]))
        if profile == "parametric" and rng.random() < 0.4:
            p = rng.choice(params)
            i = rng.randrange(d)
            b[i] = lf_add(b[i], lf(0, **{p: 1}))
            feats.add("param-inhomogeneous")
        if any(b):
            feats.add("inhomogeneous")

    # initial vector
    init_syms = []
    kind = rng.choice(["rand", "rand", "rand", "unit", "rational", "zero", "mixed"])
    if profile == "syminit":
        kind = rng.choice(["symbolic", "symbolic", "mixed"])
    elif profile == "parametric" and rng.random() < 0.3:
        kind = "mixed"
    elif profile == "options":
        kind = rng.choice(["rand", "rand", "unit", "rational"])
    if kind == "zero" and not any(b):
        kind = "rand"
    if kind == "mixed" and d > 3 and any(kd != "J" for kd, _ in blocks):
        kind = "rand"   # symbolic initial values x irrational roots x dimension > 3 only produces solver timeouts
    v = []
    for i in range(d):
        if kind == "rand":
            v.append(lf(rng.choice([0, 1, 1, 2, -1, 3, -2, 5])))
        elif kind == "unit":
            v.append(lf(0))
        elif kind == "rational":
            v.append(lf(rng.choice([F(1, 2), F(-1, 3), F(3, 2), 1, 0, F(2, 5), -2])))
        elif kind == "zero":
            v.append(lf(0))
        elif kind == "symbolic" or (kind == "mixed" and rng.random() < 0.5):
            nm = f"i{i}"
            init_syms.append(nm)
            v.append(lf(0, **{nm: 1}))
        else:
            v.append(lf(rng.choice([0, 1, 2, -1, 3])))
    if kind == "unit":
        v[rng.randrange(d)] = lf(1)
        if rng.random() < 0.3:
            v[rng.randrange(d)] = lf(rng.choice([1, -1, 2]))
    if kind in ("rand", "rational") and not any(v):
        v[rng.randrange(d)] = lf(1)
    feats.add("init:" + kind)

    # similarity scrambling (unimodular integer change of basis)
    scramble = profile in ("scrambled", "scrambled_nil") or (profile in ("companion", "options", "hard", "repeated_companion", "parametric", "syminit") and rng.random() < 0.3) \
        or (profile in ("jordan", "nilchain") and rng.random() < 0.15)
    if scramble and d >= 2:
        ops = rng.choice([1, 2, 2, 3, 4]) if profile != "parametric" else rng.choice([1, 2])
        P, Pinv = unimodular(rng, d, ops)
        A = lf_mat_mul(lf_mat_mul_left(P, A), Pinv)
        b = lf_mat_vec(P, b)
        v = lf_mat_vec(P, v)
        feats.add("scrambled")
    # random order of the variables (Polar's acyclicity test must not depend on the order)
    perm = list(range(d))
    if rng.random() < 0.6:
        rng.shuffle(perm)
        feats.add("permuted")
    A = [[A[perm[i]][perm[j]] for j in range(d)] for i in range(d)]
    b = [b[perm[i]] for i in range(d)]
    v = [v[perm[i]] for i in range(d)]

    names = sorted(set(params) | set(init_syms))
    instances = []
    if names:
        pool = list(GENERIC_VALUES)
        rng.shuffle(pool)
        for t in range(2):   # two disjoint generic instantiations
            vals = pool[t * len(names):(t + 1) * len(names)]
            instances.append({nm: fstr(x) for nm, x in zip(names, vals)})
    else:
        instances.append({})

    # runs
    runs = [{"force_cyclic": False}, {"force_cyclic": True}]
    if profile == "options":
        combos = [(nr, nc, eps) for nr in (False, True) for nc in (False, True) for eps in ("1e-6", "1e-10", "1e-20")]
        k = 4 if tier == "quick" else 6
        start = rng.randrange(len(combos))
        chosen = [combos[(start + 5 * t) % len(combos)] for t in range(k)]
        # make sure both numeric_roots=True and a numeric_croots=True run are present
        if not any(c[0] for c in chosen):
            chosen[0] = (True, False, rng.choice(["1e-6", "1e-10", "1e-20"]))
        if not any(c[1] and not c[0] for c in chosen):
            chosen[-1] = (False, True, "1e-10")
        runs = [{"force_cyclic": True, "numeric_roots": nr, "numeric_croots": nc, "numeric_eps": eps} for nr, nc, eps in chosen]
        feats.add("root-options")
    elif profile == "hard":
        runs = [{"force_cyclic": False, "numeric_croots": True, "numeric_eps": "1e-10"},
                {"force_cyclic": True, "numeric_roots": True, "numeric_eps": rng.choice(["1e-10", "1e-20"])}]
        if rng.random() < 0.3 and not any(k_ == "H" and sp_[0] == "quintic" for k_, sp_ in blocks):
            runs.append({"force_cyclic": True})
        feats.add("root-options")

    return {
        "vars": [f"u{i}" for i in range(d)],
        "A": [[lf_enc(e) for e in row] for row in A],
        "b": [lf_enc(e) for e in b],
        "v": [lf_enc(e) for e in v],
        "consts": names,
        "instances": instances,
        "runs": runs,
        "features": sorted(feats),
        "profile": profile,
    }


def lf_mat_mul_left(P, A):
    """P (Fractions) * A (linear forms)"""
    d = len(A)
    out = []
    for i in range(len(P)):
        row = []
        for j in range(d):
            acc = {}
            for k in range(d):
                if P[i][k] != 0 and A[k][j]:
                    acc = lf_add(acc, lf_scale(A[k][j], P[i][k]))
            row.append(acc)
        out.append(row)
    return out


def lf_mat_mul(A, Q):
    """A (linear forms) * Q (Fractions)"""
    d = len(A)
    out = []
    for i in range(d):
        row = []
        for j in range(len(Q[0])):
            acc = {}
            for k in range(d):
                if Q[k][j] != 0 and A[i][k]:
                    acc = lf_add(acc, lf_scale(A[i][k], Q[k][j]))
            row.append(acc)
        out.append(row)
    return out


def lf_mat_vec(P, v):
    out = []
    for i in range(len(P)):
        acc = {}
        for k in range(len(v)):
            if P[i][k] != 0 and v[k]:
                acc = lf_add(acc, lf_scale(v[k], P[i][k]))
        out.append(acc)
    return out


# a few fixed witnesses that must always be part of the workload (pre-observed mechanisms)
def fixed_cases(tier="quick"):
    def sysd(vars_, A, b, v, runs, feats, profile="fixed"):
        return {"vars": vars_, "A": [[lf_enc(lf(c)) for c in r] for r in A], "b": [lf_enc(lf(c)) for c in b],
                "v": [lf_enc(lf(c)) for c in v], "consts": [], "instances": [{}], "runs": runs,
                "features": sorted(feats), "profile": profile}
    both = [{"force_cyclic": False}, {"force_cyclic": True}]
    out = []
    # x' = x + y, y' = z, z' = 5 ; x=0,y=0,z=1
    out.append(("fixed-chain", sysd(["u0", "u1", "u2"], [[1, 1, 0], [0, 0, 1], [0, 0, 0]], [0, 0, 5], [0, 0, 1], both,
                                    {"profile:fixed", "jordan0-size2", "inhomogeneous"})))
    # rotation x' = x - y, y' = x + y with numeric roots
    out.append(("fixed-rotation", sysd(["u0", "u1"], [[1, -1], [1, 1]], [0, 0], [1, 0],
                                       [{"force_cyclic": False}, {"force_cyclic": True, "numeric_roots": True, "numeric_eps": "1e-10"},
                                        {"force_cyclic": True, "numeric_croots": True, "numeric_eps": "1e-10"}],
                                       {"profile:fixed", "companion:1+i", "root-options"})))
    # bounded counter: c' = c+1 until 3 encoded as the indicator chain  (P2 from C01):  e0->e1->e2->e3(absorbing), x += 2*(1-e3)
    out.append(("fixed-counter", sysd(["u0", "u1", "u2", "u3", "u4"],
                                      [[0, 0, 0, 0, 0], [1, 0, 0, 0, 0], [0, 1, 0, 0, 0], [0, 0, 1, 1, 0], [2, 2, 2, 0, 1]],
                                      [0, 0, 0, 0, 0], [1, 0, 0, 0, 0], both, {"profile:fixed", "jordan0-size3", "jordan1-size1"})))
    # fibonacci with all root options
    out.append(("fixed-fib-options", sysd(["u0", "u1"], [[0, 1], [1, 1]], [0, 0], [0, 1],
                                          [{"force_cyclic": True, "numeric_roots": True, "numeric_eps": e} for e in ("1e-6", "1e-10", "1e-20")]
                                          + [{"force_cyclic": False}], {"profile:fixed", "companion:fib", "root-options"})))
    # plastic number, numeric roots drop the complex pair but the real root is irrational -> flagged rounded
    out.append(("fixed-plastic-options", sysd(["u0", "u1", "u2"], [[0, 1, 0], [0, 0, 1], [1, 1, 0]], [0, 0, 0], [1, 0, 0],
                                              [{"force_cyclic": True, "numeric_roots": True, "numeric_eps": "1e-10"},
                                               {"force_cyclic": True, "numeric_croots": True, "numeric_eps": "1e-10"}],
                                              {"profile:fixed", "companion:plastic", "root-options"})))
    # default dispatch is cyclic and 0 is a double root:  x' = 0, y' = y + z, z' = x + y + z  (truth y = 0,0,1,2,4,8,..)
    out.append(("fixed-cyclic-double-zero", sysd(["u0", "u1", "u2"], [[0, 0, 0], [0, 1, 1], [1, 1, 1]], [0, 0, 0], [1, 0, 0], both,
                                                 {"profile:fixed", "jordan0-size2"})))
    # three real CRootOf roots followed (in all_roots order: reals ascending) by a larger rational root / by the root 1 of the
    # inhomogeneous part: the exactness flag must be accumulated over ALL roots, not taken from the last one
    A3, _ = block_sum([companion(COMPANIONS["3real"]), [[F(2)]]])
    out.append(("fixed-3real-croots-rational-last", sysd(["u0", "u1", "u2", "u3"], A3, [0] * 4, [1, 0, 1, 1],
                                                         [{"force_cyclic": True, "numeric_croots": True, "numeric_eps": "1e-10"},
                                                          {"force_cyclic": False, "numeric_croots": True, "numeric_eps": "1e-10"}],
                                                         {"profile:fixed", "companion:3real", "root-options"})))
    out.append(("fixed-3real-half-inhomogeneous", sysd(["u0", "u1", "u2"], companion(COMPANIONS["3real"], scale=F(1, 2)), [0, 0, 1], [1, 2, 3],
                                                       [{"force_cyclic": True, "numeric_croots": True, "numeric_eps": "1e-10"},
                                                        {"force_cyclic": True, "numeric_roots": True, "numeric_eps": "1e-10"}],
                                                       {"profile:fixed", "companion:3real", "inhomogeneous", "root-options"})))
    if True:
        # (x^2-x-1)(x^3-x-1) with numeric_croots: exact (1+-sqrt5)/2 mixed with 15-digit floats in sympy linsolve (~25 s)
        A, _ = block_sum([companion(COMPANIONS["fib"]), companion(COMPANIONS["plastic"])])
        out.append(("fixed-fib-plastic-croots", sysd(["u0", "u1", "u2", "u3", "u4"], A, [0] * 5, [1, 0, 1, 0, 2],
                                                     [{"force_cyclic": False, "numeric_croots": True, "numeric_eps": "1e-10"}],
                                                     {"profile:fixed", "companion:fib", "companion:plastic", "root-options"})))
        out[-1][1].update(run_budget=100, timeout=230)   # per-case watchdog override understood by the harness
    return out
