"""Workload generator for C08: parameter vectors of the ten built-in distribution families (as the literal
strings the parser would hand to distribution_factory), symbolic-parameter vectors with admissible
instantiations, and tiny programs with variable-dependent location/scale parameters.

Pure Python (random + fractions); nothing here imports Polar or sympy.  Every vector comes with its exact
rational meaning (Fractions encoded [num, den]) computed here from the literal text, so that the oracle never
depends on Polar's float handling.
"""
import math
import random
import re
from fractions import Fraction as F

FAMILIES = ["Normal", "Uniform", "DistExp", "Gamma", "Laplace", "Beta", "TruncNormal", "Bernoulli", "Categorical",
            "DiscreteUniform"]


# ------------------------------------------------------------------ literals
def is_finite_decimal(x: F):
    d = x.denominator
    for p in (2, 5):
        while d % p == 0:
            d //= p
    return d == 1


def dec_str(x: F):
    """exact decimal rendering of a Fraction whose denominator is 2^a 5^b"""
    assert is_finite_decimal(x)
    sign = "-" if x < 0 else ""
    x = abs(x)
    k = 0
    while (x * 10 ** k).denominator != 1:
        k += 1
    n = int(x * 10 ** k)
    s = str(n).rjust(k + 1, "0")
    return sign + (s[:-k] + "." + s[-k:] if k else s + ".0")


def render(x: F, style):
    """literal text for the exact value x; style in int/frac/dec/exp (falls back to frac)"""
    if style == "dec" and is_finite_decimal(x):
        return dec_str(x)
    if style == "exp" and x > 0 and is_finite_decimal(x):
        # d.ddde-k form
        k = 0
        y = x
        while y < 1:
            y *= 10
            k += 1
        if k and is_finite_decimal(y) and len(dec_str(y)) <= 6:
            s = dec_str(y)
            if s.endswith(".0"):
                s = s[:-2]
            return f"{s}e-{k}"
        return dec_str(x)
    if x.denominator == 1:
        return str(x.numerator)
    return f"{x.numerator}/{x.denominator}"


def lit_value(s: str) -> F:
    """exact value of a literal string produced by render()"""
    return F(s)


_DECS = ["0.5", "0.25", "1.5", "0.1", "2.75", "0.3", "0.2", "1.25", "0.75", "3.5", "0.05", "12.5", "0.125", "0.9", "2.0", "0.7"]


def rand_pos(rng, kind=None):
    """positive rational + the style it should be rendered in"""
    kind = kind or rng.choice(["int", "frac", "dec", "frac", "dec", "tiny", "big", "lt1"])
    if kind == "int":
        return F(rng.randint(1, 9) if rng.random() < 0.7 else rng.randint(10, 40)), "int"
    if kind == "frac":
        if rng.random() < 0.7:
            return F(rng.randint(1, 12), rng.randint(1, 9)), "frac"
        return F(rng.randint(1, 60), rng.randint(2, 30)), "frac"
    if kind == "dec":
        if rng.random() < 0.7:
            return F(rng.choice(_DECS)), "dec"
        return F(rng.randint(1, 3000), rng.choice([100, 1000])), "dec"
    if kind == "tiny":
        return rng.choice([F(1, 10 ** 6), F(1, 10 ** 4), F(1, 10 ** 9), F(3, 10 ** 5), F(1, 2 ** 20)]), rng.choice(["frac", "dec", "exp"])
    if kind == "big":
        return rng.choice([F(100), F(1000), F(12345, 7), F(250), F(64)]), rng.choice(["frac", "dec"])
    if kind == "lt1":
        return F(rng.randint(1, 9), 10), rng.choice(["frac", "dec"])
    if kind == "square":
        r = rng.choice([F(1), F(2), F(1, 2), F(3, 2), F(1, 10), F(3), F(1, 4), F(5, 2), F(1, 100)])
        return r * r, rng.choice(["frac", "dec"])
    raise ValueError(kind)


def rand_real(rng, kind=None):
    kind = kind or rng.choice(["int", "frac", "dec", "zero", "neg", "neg", "big"])
    if kind == "zero":
        return F(0), "int"
    if kind == "neg":
        v, st = rand_pos(rng, rng.choice(["int", "frac", "dec"]))
        return -v, st
    if kind == "big":
        v, st = rand_pos(rng, "big")
        return rng.choice([1, -1]) * v, st
    return rand_pos(rng, kind)


def enc(x: F):
    return [x.numerator, x.denominator]


def dec(p):
    return F(p[0], p[1])


def _approx_scale(x):
    """a 'nice' positive rational within a factor 2 of the positive float x"""
    if not (x > 0) or math.isinf(x) or math.isnan(x):
        return F(1)
    e = math.floor(math.log10(x))
    m = x / 10 ** e
    mant = 1 if m < 1.5 else (2 if m < 3.5 else 5)
    return F(mant) * F(10) ** e


# ------------------------------------------------------------------ textbook variance only to pick sensible t values
def _rough_std(fam, ps):
    try:
        if fam == "Normal":
            return math.sqrt(ps[1])
        if fam == "Uniform":
            return float(ps[1] - ps[0]) / 3.5
        if fam == "DistExp":
            return 1 / float(ps[0])
        if fam == "Gamma":
            return math.sqrt(ps[0]) * float(ps[1])
        if fam == "Laplace":
            return 1.4 * float(ps[1])
        if fam == "Beta":
            a, b, sc = map(float, ps)
            return float(sc) * math.sqrt(a * b / ((a + b) ** 2 * (a + b + 1)))
        if fam == "TruncNormal":
            return min(math.sqrt(ps[1]), float(ps[3] - ps[2]) / 3.5)
        if fam == "Bernoulli":
            return 1.0
        if fam == "Categorical":
            return max(1.0, len(ps) / 3.0)
        if fam == "DiscreteUniform":
            return max(1.0, float(ps[1] - ps[0]) / 3.5)
    except Exception:
        pass
    return 1.0


def transform_points(rng, fam, ps):
    """t values (Fractions) for cf, mgf and mgf_exists_at, scaled to the law so that quadrature stays easy"""
    s = _approx_scale(_rough_std(fam, ps))
    u = 1 / s
    # keep |t * location| moderate so that e^{tX} stays representable and quadrature well conditioned
    loc = max([abs(float(p)) for p in ps] + [1.0]) if fam not in ("Categorical", "Bernoulli") else 1.0
    rs = [F(1, 3), F(-1, 2), F(1), F(2), F(-3, 2), F(5, 2), F(1, 7), F(-1, 5)]
    rng.shuffle(rs)
    cf_ts = [F(0)] + [r * u for r in rs[:2]]
    if fam in ("DistExp", "Gamma", "Laplace"):
        bound = ps[0] if fam == "DistExp" else 1 / ps[1]
        fr = [F(1, 3), F(3, 4), F(-1, 2), F(9, 10), F(-2), F(1, 10)]
        rng.shuffle(fr)
        mgf_ts = [F(0)] + [f * bound for f in fr[:2]]
        if fam != "Laplace":
            mgf_ts = [t for t in mgf_ts]
        else:
            mgf_ts = [t for t in mgf_ts if abs(t) < bound]
        ex = [F(0), bound, -bound, bound * F(9, 10), bound * 2, -bound * F(9, 10), -bound * 5, bound * F(101, 100)]
        rng.shuffle(ex)
        exist_ts = ex[:5]
    else:
        mg = [r * u for r in rs[2:5]]
        mgf_ts = [F(0)] + [t for t in mg if abs(float(t)) * loc <= 60][:2]
        exist_ts = [F(0), u, -3 * u, F(7)]
    return cf_ts, mgf_ts, exist_ts


# ------------------------------------------------------------------ numeric parameter vectors per family
def law_vector(rng, fam, extreme=False):
    """returns (param strings, exact params as Fractions, features)"""
    feats = []

    def R(v, st):
        s = render(v, st)
        feats.append("lit-" + ("dec" if "." in s and "e" not in s else "exp" if "e" in s else "frac" if "/" in s else "int"))
        return s

    if fam == "Normal":
        mu, st1 = rand_real(rng)
        s2, st2 = rand_pos(rng, "tiny" if extreme else None)
        if s2 < F(1, 1000):
            feats.append("tiny-variance")
        if mu < 0:
            feats.append("negative-location")
        return [R(mu, st1), R(s2, st2)], [mu, s2], feats
    if fam == "Uniform":
        a, st1 = rand_real(rng)
        w, st2 = rand_pos(rng, "tiny" if extreme else None)
        b = a + w
        if not extreme and rng.random() < 0.25:
            a, b = -rand_pos(rng, rng.choice(["int", "frac", "dec"]))[0], rand_pos(rng, rng.choice(["int", "frac", "dec"]))[0]
            w = b - a
        if a < 0:
            feats.append("negative-location")
        if w < F(1, 1000):
            feats.append("tiny-width")
        if a < 0 < b:
            feats.append("straddles-zero")
        return [R(a, st1), R(b, st2)], [a, b], feats
    if fam == "DistExp":
        lam, st = rand_pos(rng, rng.choice(["tiny", "big"]) if extreme else None)
        return [R(lam, st)], [lam], feats
    if fam == "Gamma":
        sh, st1 = rand_pos(rng, "lt1" if extreme else rng.choice(["int", "frac", "dec", "lt1", "frac"]))
        sc, st2 = rand_pos(rng)
        if sh < 1:
            feats.append("shape<1")
        return [R(sh, st1), R(sc, st2)], [sh, sc], feats
    if fam == "Laplace":
        mu, st1 = rand_real(rng)
        b, st2 = rand_pos(rng, "tiny" if extreme else None)
        if mu < 0:
            feats.append("negative-location")
        return [R(mu, st1), R(b, st2)], [mu, b], feats
    if fam == "Beta":
        if not extreme and rng.random() < 0.45:
            a, st1 = rand_pos(rng, "int")
            b, st2 = rand_pos(rng, "int")
        else:
            a, st1 = rand_pos(rng, "lt1" if extreme else rng.choice(["int", "frac", "dec", "lt1"]))
            b, st2 = rand_pos(rng, rng.choice(["int", "frac", "dec", "lt1"]))
        if a < 1 or b < 1:
            feats.append("shape<1")
        if a.denominator == 1 and b.denominator == 1:
            feats.append("integer-shapes")
        if rng.random() < 0.5 or extreme:
            sc, st3 = rand_pos(rng)
            feats.append("beta-with-scale")
            return [R(a, st1), R(b, st2), R(sc, st3)], [a, b, sc], feats
        return [R(a, st1), R(b, st2)], [a, b, F(1)], feats
    if fam == "TruncNormal":
        mu, st1 = rand_real(rng, rng.choice(["int", "frac", "dec", "zero", "neg"]))
        nonsq = rng.random() < 0.12 and not extreme
        if nonsq:
            s2, st2 = rng.choice([F(2), F(3), F(1, 2), F(5, 3)]), "frac"
            feats.append("non-square-variance")
        else:
            s2, st2 = rand_pos(rng, "square")
        sg = math.sqrt(s2)
        mode = "tail" if extreme else rng.choice(["central", "central", "onesided", "narrow", "tail", "wide"])
        feats.append("window-" + mode)
        q = lambda x: F(x).limit_denominator(20) if x >= 0.5 or x <= -0.5 or x == 0 else F(x).limit_denominator(2000)
        if mode == "central":
            lo = mu - q(sg * rng.choice([0.5, 1, 2, 3]))
            hi = mu + q(sg * rng.choice([0.5, 1, 2, 3]))
        elif mode == "onesided":
            lo = mu + q(sg * rng.choice([-0.5, 0, 0.5, 1]))
            hi = lo + q(sg * rng.choice([1, 2, 4]))
        elif mode == "narrow":
            lo = mu + q(sg * rng.choice([-1, 0, 1]))
            hi = lo + rng.choice([F(1, 100), F(1, 1000), F(1, 20)])
        elif mode == "wide":
            lo = mu - q(sg * rng.choice([6, 9]))
            hi = mu + q(sg * rng.choice([6, 9]))
        else:  # tail window: 4..8.5 standard deviations away from the mean
            d = rng.choice([4, 5, 6, 7, 8, 8.5])
            sgn = rng.choice([1, -1])
            e1 = mu + sgn * q(sg * d)
            e2 = mu + sgn * q(sg * (d + rng.choice([0.5, 1, 2])))
            lo, hi = min(e1, e2), max(e1, e2)
        if lo >= hi:
            hi = lo + 1
        st = rng.choice(["frac", "dec"])
        return [R(mu, st1), R(s2, st2), R(lo, st), R(hi, st)], [mu, s2, lo, hi], feats
    if fam == "Bernoulli":
        kind = rng.choice(["frac", "dec", "edge", "frac", "dec"]) if not extreme else "edge"
        if kind == "edge":
            p = rng.choice([F(0), F(1), F(1, 10 ** 6), 1 - F(1, 10 ** 6)])
            feats.append("edge-probability")
            st = rng.choice(["frac", "dec"])
        elif kind == "frac":
            d = rng.randint(2, 12) if rng.random() < 0.7 else rng.randint(13, 60)
            p, st = F(rng.randint(1, d - 1), d), "frac"
        else:
            p, st = (F(rng.randint(1, 99), 100), "dec") if rng.random() < 0.7 else (F(rng.randint(1, 9999), 10000), "dec")
        return [R(p, st)], [p], feats
    if fam == "Categorical":
        n = rng.choice([1, 2, 3, 3, 4, 5, 6]) if not extreme else rng.choice([1, 7, 9])
        den = rng.choice([2, 3, 4, 5, 6, 8, 10, 12, 20, 100])
        st = "dec" if den in (2, 4, 5, 8, 10, 20, 100) and rng.random() < 0.5 else "frac"
        cuts = sorted(rng.randint(0, den) for _ in range(n - 1))
        parts = [b - a for a, b in zip([0] + cuts, cuts + [den])]
        ps = [F(x, den) for x in parts]
        if any(p == 0 for p in ps):
            feats.append("zero-entry")
        if n == 1:
            feats.append("single-category")
        return [R(p, st) for p in ps], ps, feats
    if fam == "DiscreteUniform":
        a = rng.randint(-6, 6)
        kind = rng.choice(["point", "small", "small", "wide"]) if not extreme else rng.choice(["point", "wide"])
        b = a if kind == "point" else a + (rng.randint(1, 5) if kind == "small" else rng.randint(10, 40))
        if a == b:
            feats.append("single-point")
        if a < 0:
            feats.append("negative-location")
        if a <= 0 <= b:
            feats.append("contains-zero")
        return [str(a), str(b)], [F(a), F(b)], feats
    raise ValueError(fam)


def law_cases(rng, per_family, kmax=8):
    out = []
    for fam in FAMILIES:
        seen = set()
        tries = 0
        while len([c for c in out if c["family"] == fam]) < per_family and tries < per_family * 20:
            tries += 1
            extreme = (tries % 4 == 3)
            ps_str, ps, feats = law_vector(rng, fam, extreme)
            key = tuple(ps_str)
            if key in seen:
                continue
            seen.add(key)
            cf_ts, mgf_ts, exist_ts = transform_points(rng, fam, ps)
            out.append({
                "kind": "law", "family": fam, "params": ps_str, "exact": [enc(p) for p in ps],
                "ks": list(range(0, kmax + 1)), "cf_ts": [enc(t) for t in cf_ts], "mgf_ts": [enc(t) for t in mgf_ts],
                "exist_ts": [enc(t) for t in exist_ts],
                "features": sorted(set([fam] + feats + (["extreme"] if extreme else []))),
            })
    return out


# ------------------------------------------------------------------ symbolic parameter vectors
# (family, parameter expression strings, symbols, constraint name)
_SYM_TEMPLATES = [
    ("Bernoulli", ["p"], ["p"], "prob"),
    ("Bernoulli", ["1-p"], ["p"], "prob"),
    ("Bernoulli", ["p*q"], ["p", "q"], "prob"),
    ("Bernoulli", ["p/2"], ["p"], "prob"),
    ("Bernoulli", ["0.5*p"], ["p"], "prob"),
    ("Categorical", ["p", "1-p"], ["p"], "prob"),
    ("Categorical", ["p/2", "p/2", "1-p"], ["p"], "prob"),
    ("Categorical", ["p*q", "p*(1-q)", "1-p"], ["p", "q"], "prob"),
    ("Categorical", ["0", "p", "0", "1-p"], ["p"], "prob"),
    ("Uniform", ["a", "a+w"], ["a", "w"], "a-real-w-pos"),
    ("Uniform", ["-w", "w"], ["w"], "a-real-w-pos"),
    ("Uniform", ["a", "2*a+w+1"], ["a", "w"], "a-pos-w-pos"),
    ("DistExp", ["l"], ["l"], "pos"),
    ("DistExp", ["1/m"], ["m"], "pos"),
    ("DistExp", ["l*m"], ["l", "m"], "pos"),
    ("Normal", ["mu", "s"], ["mu", "s"], "loc-pos"),
    ("Normal", ["mu", "s**2"], ["mu", "s"], "loc-pos"),
    ("Laplace", ["mu", "s"], ["mu", "s"], "loc-pos"),
    ("Laplace", ["2*mu", "s/3"], ["mu", "s"], "loc-pos"),
    ("Gamma", ["l", "m"], ["l", "m"], "pos"),
    ("Gamma", ["2", "m"], ["m"], "pos"),
    ("Gamma", ["l", "1/2"], ["l"], "pos"),
    ("Beta", ["l", "m"], ["l", "m"], "pos"),
    ("Beta", ["2", "3", "m"], ["m"], "pos"),
    ("TruncNormal", ["mu", "1", "mu-1", "mu+2"], ["mu"], "loc-pos"),
]


def _sym_values(rng, syms, constraint):
    vals = {}
    for s in syms:
        if constraint == "prob":
            d = rng.randint(2, 12)
            vals[s] = F(rng.randint(0, d), d) if rng.random() < 0.15 else F(rng.randint(1, d - 1), d)
        elif constraint == "pos":
            vals[s] = rand_pos(rng, rng.choice(["int", "frac", "dec", "lt1"]))[0]
        elif constraint == "a-real-w-pos":
            vals[s] = rand_pos(rng, rng.choice(["int", "frac", "dec"]))[0] if s == "w" else rand_real(rng, rng.choice(["int", "frac", "neg", "zero"]))[0]
        elif constraint == "a-pos-w-pos":
            vals[s] = rand_pos(rng, rng.choice(["int", "frac", "dec"]))[0]
        elif constraint == "loc-pos":
            vals[s] = rand_pos(rng, rng.choice(["int", "frac", "dec", "lt1"]))[0] if s == "s" else rand_real(rng, rng.choice(["int", "frac", "neg", "zero"]))[0]
        else:
            raise ValueError(constraint)
    return vals


def sym_cases(rng, count, kmax=6):
    out = []
    for i in range(count):
        fam, ps, syms, cons = _SYM_TEMPLATES[i % len(_SYM_TEMPLATES)]
        insts = [_sym_values(rng, syms, cons) for _ in range(3)]
        out.append({
            "kind": "sym", "family": fam, "params": ps, "symbols": syms,
            "instances": [{k: enc(v) for k, v in inst.items()} for inst in insts],
            "ks": list(range(0, kmax + 1)), "round": i // len(_SYM_TEMPLATES),
            "features": sorted({fam, "symbolic-params"}),
        })
    return out


# ------------------------------------------------------------------ location/scale programs
# (family, parameter expression strings over program variables y, z and symbolic constant c, constraint on (y, z, c))
_TR_TEMPLATES = [
    ("Normal", ["y+1", "4"], "any"),
    ("Normal", ["y+1", "y**2+1"], "any"),
    ("Normal", ["0", "y**2"], "ynz"),
    ("Normal", ["2*y-z/3", "0.25*z"], "zpos"),
    ("Normal", ["y*z", "2"], "any"),
    ("Normal", ["x", "z"], "zpos"),
    ("Normal", ["c", "3/2"], "any"),
    ("Normal", ["-y", "z**2+y**2+1/100"], "any"),
    ("Normal", ["y", "(y+z)**2"], "sumnz"),
    ("Normal", ["1.5*y", "0.01"], "any"),
    ("Uniform", ["y", "y+2"], "any"),
    ("Uniform", ["-y**2-1", "z**2"], "any"),
    ("Uniform", ["y-z", "y+z"], "zpos"),
    ("Uniform", ["0", "z"], "zpos"),
    ("Uniform", ["x", "x+1"], "any"),
    ("Uniform", ["c", "c+z"], "zpos"),
    ("Uniform", ["2*y", "2*y+0.5"], "any"),
    ("Uniform", ["-z", "0"], "zpos"),
    ("Laplace", ["y*z", "3/2"], "any"),
    ("Laplace", ["y", "z"], "zpos"),
    ("Laplace", ["x+1", "0.5"], "any"),
    ("Laplace", ["c-y", "2"], "any"),
    ("Laplace", ["y**2-z", "1/1000"], "any"),
    ("DistExp", ["1/(y+1)"], "yposm1"),
    ("DistExp", ["2/(3*z)"], "zpos"),
    ("DistExp", ["0.5/z"], "zpos"),
    ("DistExp", ["1/(y**2+z)"], "zpos"),
    ("DistExp", ["1/z"], "zpos"),
    ("DistExp", ["3/(2*z+y**2)"], "zpos"),
    ("DistExp", ["1/c"], "cpos"),
    ("DistExp", ["1/(z*c)"], "zcpos"),
    ("Normal", ["y", "1/z"], "zpos"),
    ("Normal", ["y/z", "z/4+c**2"], "zpos"),
    ("Normal", ["1", "2"], "any"),
    ("Laplace", ["1", "z"], "zpos"),
    ("Uniform", ["-1/2", "0.75"], "any"),
    ("DistExp", ["z/2"], "zpos"),
    ("DistExp", ["4/(z+3*c)"], "zcpos"),
]


def _tr_values(rng, cons):
    def rr():
        return rand_real(rng, rng.choice(["int", "frac", "neg", "dec"]))[0]

    def rp():
        return rand_pos(rng, rng.choice(["int", "frac", "dec", "lt1"]))[0]

    v = {"x": rr(), "y": rr(), "z": rr(), "c": rr()}
    if cons == "ynz" and v["y"] == 0:
        v["y"] = F(-2, 3)
    if cons in ("zpos", "zcpos"):
        v["z"] = rp()
    if cons in ("cpos", "zcpos"):
        v["c"] = rp()
    if cons == "yposm1":
        v["y"] = rp() - F(1, 2) if rng.random() < 0.5 else rp()
    if cons == "sumnz" and v["y"] + v["z"] == 0:
        v["z"] += 1
    return v


def transform_cases(rng, count, kmax=6):
    out = []
    for i in range(count):
        fam, ps, cons = _TR_TEMPLATES[i % len(_TR_TEMPLATES)]
        where = ["body", "init", "branch", "body"][(i + i // len(_TR_TEMPLATES)) % 4]
        rhs = f"{fam}({', '.join(ps)})"
        if where == "body":
            text = f"x = 0\ny = 1\nz = 2\nwhile true:\n    y = Bernoulli(1/2)\n    x = {rhs}\nend"
        elif where == "init":
            text = f"y = 1\nz = 2\nx = 0\nx = {rhs}\nwhile true:\n    y = Bernoulli(1/2)\nend"
        else:
            text = (f"x = 0\ny = 1\nz = 2\nwhile true:\n    y = Bernoulli(1/2)\n    if y == 1:\n        x = {rhs}\n    else:\n"
                    f"        x = 0\n    end\nend")
        insts = [_tr_values(rng, cons) for _ in range(3)]
        out.append({
            "kind": "transform", "family": fam, "params": ps, "text": text, "where": where,
            "instances": [{k: enc(v) for k, v in inst.items()} for inst in insts],
            "ks": list(range(0, kmax + 1)),
            "features": sorted({fam, "location-scale", "transform-in-" + where}),
        })
    return out


# ------------------------------------------------------------------ independent evaluation of parameter expression strings
_NUM = re.compile(r"(?<![\w.])(\d+\.\d+|\d+)(?![\w.])")


def eval_param(expr: str, values):
    """exact value (Fraction) of an arithmetic parameter string over the given symbol values (Python arithmetic
    on Fractions; decimal literals are read exactly).  Raises ValueError when not a rational (e.g. division by 0)."""
    src = _NUM.sub(lambda m: f'F("{m.group(1)}")', expr)
    env = {"F": F, "__builtins__": {}}
    env.update(values)
    try:
        v = eval(src, env)  # noqa: S307 - generator-owned strings only
    except ZeroDivisionError:
        raise ValueError("division by zero")
    if isinstance(v, int):
        v = F(v)
    if not isinstance(v, F):
        raise ValueError(f"not rational: {v!r}")
    return v
