"""Targeted ill-forming edits of a well-formed program text (C19 negative side).
Every edit type leaves the grammar in inputparser/syntax.lark by construction:
  missing-end          the final 'end' of the loop is removed                     (program: ... loop_body "end")
  missing-colon        ':' after 'while <cond>' or 'if <cond>' removed            ("while" loop_guard ":")
  unbalanced-paren     '(' inserted before an arithmetic right-hand side          (BOPEN arithm BCLOSE)
  dangling-operator    ' +' appended to an assignment                             (arithm op arithm)
  adjacent-atoms       ' q7' appended to a polynomial assignment                  (two ARITHM_ATOMs without operator)
  bad-comparison       a comparison operator replaced by '=<'                     (COP)
  keyword-typo         'while' -> 'whle' / 'else:' -> 'esle:' / 'end' -> 'ned'
  elif-after-else      an 'elif' branch appended after 'else'
  missing-newline      two statements joined on one line
  unclosed-brace       '}' of a probabilistic choice removed
  empty-rhs            right-hand side removed ('x =')
  comparison-statement a statement 'x == 1' inside the body
  if-without-end       'end' of an if-statement removed
Invalid probability vectors (kind prob-*) are syntactically fine but must be rejected as well:
  prob-negative  x = 1 {-1/2} 2 {3/4} 3     prob-sum-gt-1  x = 1 {3/4} 2 {1/2} 3     prob-gt-1  x = 1 {3/2} 2
"""
import re


def _lines(text):
    return text.rstrip("\n").split("\n")


def mutate(rng, text, prog):
    kinds = ["missing-end", "missing-colon", "unbalanced-paren", "dangling-operator", "adjacent-atoms", "bad-comparison",
             "keyword-typo", "elif-after-else", "missing-newline", "unclosed-brace", "empty-rhs", "comparison-statement",
             "if-without-end", "prob-negative", "prob-sum-gt-1", "prob-gt-1", "prob-negative", "prob-sum-gt-1",
             "choice-missing-value", "choice-missing-value"]
    rng.shuffle(kinds)
    for kind in kinds:
        r = _apply(rng, kind, text)
        if r is not None:
            return kind, r[0], r[1]
    return None


def _assign_lines(lines, pred=lambda rhs: True):
    out = []
    for i, l in enumerate(lines):
        m = re.match(r"^(\s*)([a-z_][a-z_0-9]*) = (.*)$", l)
        if m and pred(m.group(3)):
            out.append((i, m))
    return out


def _is_poly(rhs):
    return "{" not in rhs and not re.match(r"[A-Z]", rhs.strip())


def _apply(rng, kind, text):
    lines = _lines(text)
    if kind == "missing-end":
        if lines[-1].strip() != "end":
            return None
        return "\n".join(lines[:-1]) + "\n", "final 'end' removed"
    if kind == "missing-colon":
        idx = [i for i, l in enumerate(lines) if re.match(r"^\s*(while|if|elif) .*:$", l) or re.match(r"^\s*else:$", l)]
        if not idx:
            return None
        i = rng.choice(idx)
        lines[i] = lines[i][:-1]
        return "\n".join(lines) + "\n", f"':' removed from line {i + 1}: {lines[i].strip()}"
    if kind == "unbalanced-paren":
        al = _assign_lines(lines, _is_poly)
        if not al:
            return None
        i, m = rng.choice(al)
        lines[i] = f"{m.group(1)}{m.group(2)} = ({m.group(3)}"
        return "\n".join(lines) + "\n", f"unbalanced '(' on line {i + 1}"
    if kind == "dangling-operator":
        al = _assign_lines(lines, _is_poly)
        if not al:
            return None
        i, m = rng.choice(al)
        lines[i] = lines[i] + " " + rng.choice(["+", "*", "-", "**", "/"])
        return "\n".join(lines) + "\n", f"dangling operator on line {i + 1}"
    if kind == "adjacent-atoms":
        al = _assign_lines(lines, _is_poly)
        if not al:
            return None
        i, m = rng.choice(al)
        lines[i] = lines[i] + " q7"
        return "\n".join(lines) + "\n", f"two adjacent atoms on line {i + 1}"
    if kind == "bad-comparison":
        idx = [i for i, l in enumerate(lines) if re.match(r"^\s*(while|if|elif) ", l) and re.search(r"(==|<=|>=|<|>)", l)]
        if not idx:
            return None
        i = rng.choice(idx)
        lines[i] = re.sub(r"(==|<=|>=|<|>)", rng.choice(["=<", "=>", "<>", "==="]), lines[i], count=1)
        return "\n".join(lines) + "\n", f"unknown comparison operator on line {i + 1}: {lines[i].strip()}"
    if kind == "keyword-typo":
        opts = []
        for i, l in enumerate(lines):
            if re.match(r"^\s*while ", l):
                opts.append((i, l.replace("while", "whle", 1)))
            if re.match(r"^\s*else:$", l):
                opts.append((i, l.replace("else", "esle", 1)))
            if l.strip() == "end":
                opts.append((i, l.replace("end", "ned", 1)))
            if re.match(r"^\s*elif ", l):
                opts.append((i, l.replace("elif", "elsif", 1)))
        if not opts:
            return None
        i, nl = rng.choice(opts)
        lines[i] = nl
        return "\n".join(lines) + "\n", f"keyword typo on line {i + 1}: {nl.strip()}"
    if kind == "elif-after-else":
        idx = [i for i, l in enumerate(lines) if re.match(r"^\s*else:$", l)]
        if not idx:
            return None
        i = rng.choice(idx)
        ind = re.match(r"^(\s*)", lines[i]).group(1)
        # find the matching end: first later line with the same indentation that is 'end'
        for j in range(i + 1, len(lines)):
            if lines[j] == ind + "end":
                body = lines[i + 1:j]
                new = lines[:j] + [ind + "elif 1 == 1:"] + body + lines[j:]
                return "\n".join(new) + "\n", f"'elif' branch after 'else' (line {j + 1})"
        return None
    if kind == "missing-newline":
        al = _assign_lines(lines, _is_poly)
        pairs = [(i, m) for i, m in al if i + 1 < len(lines) and re.match(r"^\s*[a-z_][a-z_0-9]* = ", lines[i + 1])]
        if not pairs:
            return None
        i, m = rng.choice(pairs)
        lines[i] = lines[i] + " " + lines[i + 1].strip()
        del lines[i + 1]
        return "\n".join(lines) + "\n", f"two statements on line {i + 1}"
    if kind == "unclosed-brace":
        idx = [i for i, l in enumerate(lines) if "}" in l]
        if not idx:
            return None
        i = rng.choice(idx)
        lines[i] = lines[i].replace("}", "", 1)
        return "\n".join(lines) + "\n", f"unclosed '{{' on line {i + 1}"
    if kind == "empty-rhs":
        al = _assign_lines(lines)
        if not al:
            return None
        i, m = rng.choice(al)
        lines[i] = f"{m.group(1)}{m.group(2)} ="
        return "\n".join(lines) + "\n", f"empty right-hand side on line {i + 1}"
    if kind == "comparison-statement":
        al = _assign_lines(lines, _is_poly)
        if not al:
            return None
        i, m = rng.choice(al)
        lines[i] = f"{m.group(1)}{m.group(2)} == {m.group(3)}"
        return "\n".join(lines) + "\n", f"comparison used as a statement on line {i + 1}"
    if kind == "if-without-end":
        idx = [i for i, l in enumerate(lines[:-1]) if l.strip() == "end"]
        if not idx:
            return None
        i = rng.choice(idx)
        del lines[i]
        return "\n".join(lines) + "\n", f"'end' of an if-statement removed (line {i + 1})"
    if kind == "choice-missing-value":
        # a probabilistic choice in which a value is missing next to a probability block (one token deleted from a valid choice)
        wl = [i for i, l in enumerate(lines) if re.match(r"^\s*while ", l)]
        if not wl:
            return None
        al = [(i, m) for i, m in _assign_lines(lines, _is_poly) if i > wl[0]]
        if not al:
            return None
        i, m = rng.choice(al)
        v = m.group(2)
        bad = rng.choice([f"{v} + 2 {{1/2}} {{1/2}}", f"{v} {{1/3}} {{1/3}} 0 {{1/3}}", f"{{1/2}} {v} + 1", f"{v} + 1 {{1/2}}",
                          f"{v} + 1 {{1/4}} {v} {{1/4}} {{1/2}}", f"{v} {{1/2}} {{1/4}} 1", f"{v} + 1 {{1/2}} {v} {{1/4}} {{1/4}}"])
        lines[i] = f"{m.group(1)}{v} = {bad}"
        return "\n".join(lines) + "\n", f"choice with a missing value on line {i + 1}: {lines[i].strip()}"
    if kind.startswith("prob-"):
        # replace (or insert) a probabilistic choice with an invalid constant probability vector
        wl = [i for i, l in enumerate(lines) if re.match(r"^\s*while ", l)]
        if not wl:
            return None
        al = [(i, m) for i, m in _assign_lines(lines, _is_poly) if i > wl[0]]
        if not al:
            return None
        i, m = rng.choice(al)
        v = m.group(2)
        vec = {"prob-negative": rng.choice([f"{v} + 1 {{-1/2}} {v} + 2 {{3/4}} {v}", f"1 {{-1/4}} 2", f"{v} {{1/2}} 0 {{-1/4}} 1 {{3/4}}"]),
               "prob-sum-gt-1": rng.choice([f"{v} + 1 {{3/4}} {v} + 2 {{1/2}} {v}", f"1 {{0.6}} 2 {{0.6}} 3", f"{v} {{1/2}} 0 {{1/2}} 1 {{1/2}}"]),
               "prob-gt-1": rng.choice([f"{v} + 1 {{3/2}} {v}", f"1 {{2}} 0", f"{v} {{1.5}} 0"])}[kind]
        lines[i] = f"{m.group(1)}{v} = {vec}"
        return "\n".join(lines) + "\n", f"choice with invalid probabilities on line {i + 1}: {lines[i].strip()}"
    return None
