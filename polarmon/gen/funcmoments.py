"""Generator for C13 (Sin/Cos/Exp moments): direct (family, parameters, powers) requests, Sin/Cos/Exp of constants and
small loop programs (text) with functional assignments.  Cheap, deterministic in the rng, imports nothing heavy.

Law encoding used in the cases: {"fam": name, "ps": ["num/den", ...]} in the *language's* parametrisation (the strings are
handed verbatim to program.distribution.distribution_factory and parsed to Fractions for the oracle's law tuple)."""
from fractions import Fraction as F
import random

CONT = ["Normal", "Uniform", "DistExp", "Gamma", "Laplace", "Beta", "TruncNormal"]
DISC = ["Bernoulli", "DiscreteUniform", "Categorical"]
BOUNDED_MGF = {"DistExp", "Gamma", "Laplace"}   # families whose mgf has a bounded domain


def fs(x):
    x = F(x)
    return str(x.numerator) if x.denominator == 1 else f"{x.numerator}/{x.denominator}"


def pick_params(rng, fam, tier="quick", for_exp=False, program=False):
    """admissible parameter tuple (Fractions) for a family; for_exp keeps magnitudes of exp-moments moderate"""
    r = rng
    if fam == "Normal":
        mu = r.choice([F(0), F(1), F(-1), F(1, 2), F(-2), F(3, 2), F(2), F(-1, 3), F(1, 10)])
        s2 = r.choice([F(1, 100), F(1, 4), F(1), F(1), F(2), F(9, 4), F(4), F(1, 2), F(3, 10)])
        if for_exp and s2 > 2:
            s2 = F(1)
        return (mu, s2)
    if fam == "Uniform":
        return r.choice([(F(0), F(1)), (F(-1), F(1)), (F(2), F(4)), (F(-1), F(3)), (F(49, 50), F(51, 50)), (F(-3), F(-1, 2)),
                         (F(1, 2), F(1)), (F(0), F(3)), (F(-1, 10), F(1, 10)), (F(1), F(3, 2)), (F(-2), F(2)), (F(1, 3), F(7, 2))])
    if fam == "DistExp":
        return (r.choice([F(1, 2), F(1), F(3, 2), F(2), F(3), F(5), F(7, 2), F(5, 2), F(10)]),)
    if fam == "Gamma":
        sh = r.choice([F(1, 2), F(1), F(3, 2), F(2), F(5, 2), F(3), F(1), F(2)])
        sc = r.choice([F(1, 5), F(1, 3), F(1, 2), F(1), F(2), F(2, 5), F(1, 4)])
        return (sh, sc)
    if fam == "Laplace":
        mu = r.choice([F(0), F(1), F(-1), F(1, 2), F(-3, 2), F(2)])
        b = r.choice([F(1, 5), F(1, 3), F(2, 5), F(1, 2), F(1), F(2), F(1, 4), F(3, 10)])
        return (mu, b)
    if fam == "Beta":
        ints = [F(1), F(2), F(3), F(1), F(2), F(4)]
        a, b = r.choice(ints), r.choice(ints)
        if tier == "thorough" and not program and r.random() < 0.12:
            a = r.choice([F(1, 2), F(3, 2), F(5, 2)])       # sympy needs minutes for these: mostly time-outs, kept rare
        k = r.random()
        if k < 0.5:
            return (a, b)
        return (a, b, r.choice([F(1, 10), F(2), F(4), F(1, 2), F(3)]))
    if fam == "TruncNormal":
        return r.choice([(F(0), F(1, 4), F(-1, 2), F(1, 2)), (F(1), F(2), F(0), F(3)), (F(5), F(1), F(4), F(9)), (F(0), F(1, 400), F(-1, 2), F(1, 2)),
                         (F(0), F(1), F(0), F(2)), (F(-1), F(1, 2), F(-3), F(0)), (F(1, 2), F(1), F(-1), F(1)), (F(2), F(9, 4), F(-1), F(3, 2))])
    if fam == "Bernoulli":
        return (r.choice([F(1, 2), F(1, 3), F(9, 10), F(1, 4), F(0), F(1), F(2, 3), F(1, 10)]),)
    if fam == "DiscreteUniform":
        a = r.choice([-3, -2, -1, 0, 0, 1, 1, 2])
        b = a + r.choice([0, 1, 2, 2, 3, 4, 5])
        return (F(a), F(b))
    if fam == "Categorical":
        return r.choice([(F(1, 2), F(1, 4), F(1, 4)), (F(1, 3), F(2, 3)), (F(1, 10), F(2, 10), F(3, 10), F(4, 10))])
    raise ValueError(fam)


def mgf_bound(fam, ps):
    """sup of the open interval of d > 0 where E[e^{dX}] exists (None = everywhere)"""
    if fam == "DistExp":
        return ps[0]
    if fam == "Gamma":
        return 1 / ps[1]
    if fam == "Laplace":
        return 1 / ps[1]
    return None


FAMILY_WEIGHTS_DIRECT = [("Normal", 5), ("Uniform", 4), ("DistExp", 4), ("Gamma", 5), ("Laplace", 4), ("Beta", 3), ("TruncNormal", 3),
                         ("Bernoulli", 3), ("DiscreteUniform", 3), ("Categorical", 1)]


def wchoice(rng, pairs):
    tot = sum(w for _, w in pairs)
    x = rng.random() * tot
    for v, w in pairs:
        x -= w
        if x < 0:
            return v
    return pairs[-1][0]


SLOW = {"Beta", "TruncNormal", "DiscreteUniform"}


def direct_case(rng, tier, idx):
    """one direct request: kind 'trig' | 'exp' | 'exp-boundary' | 'mix' | 'const'"""
    r = rng
    kind = wchoice(r, [("trig", 9), ("exp", 5), ("exp-boundary", 3), ("mix", 2), ("const", 3)])
    exact = bool(idx % 2)
    if kind == "const":
        func = r.choice(["Sin", "Cos", "Exp"])
        style = wchoice(r, [("int", 4), ("frac", 3), ("float", 2)])
        if style == "int":
            arg = str(r.choice([0, 1, 2, 3, 5, -1, -2, 7, 10]))
        elif style == "frac":
            arg = fs(r.choice([F(1, 2), F(3, 2), F(-1, 3), F(7, 5), F(22, 7), F(1, 10), F(-5, 2)]))
        else:
            arg = r.choice(["0.5", "0.25", "1.5", "0.1", "2.75", "0.3", "3.14"])
        k = r.choice([1, 1, 2, 3, 4] if tier == "quick" else [1, 2, 3, 4, 5, 7])
        return {"kind": "const", "func": func, "arg": arg, "arg_style": style, "k": k, "exact": exact,
                "features": ["const", f"const-{style}", f"const-{func}", "exact-mode" if exact else "default-mode"]}
    if kind == "exp-boundary":
        fam = r.choice(sorted(BOUNDED_MGF))
    else:
        fam = wchoice(r, FAMILY_WEIGHTS_DIRECT)
    ps = pick_params(r, fam, tier, for_exp=kind in ("exp", "mix", "exp-boundary"))
    amax = 4 if tier == "quick" else 7
    if fam in SLOW:
        amax = 3 if tier == "quick" else 5
    idmax = 3
    if fam == "TruncNormal":      # sympy needs 20-40 s for derivatives of the erf-based cf
        idmax = 0 if tier == "quick" else 2
        amax = 2 if tier == "quick" else 5
    a = b = c = d = 0
    if kind == "trig":
        while True:
            b, c = r.choice([(1, 0), (0, 1), (1, 1), (2, 0), (0, 2), (2, 1), (1, 2), (3, 0), (0, 3), (2, 2), (3, 1), (1, 3), (4, 0), (0, 4), (3, 2), (5, 0)])
            a = r.choice([0, 0, 1, 1, 2, 3])
            if a + b + c <= amax and a <= idmax:
                break
    elif kind == "exp":
        a = min(idmax, r.choice([0, 0, 1, 2, 3] if fam not in SLOW else [0, 1, 2]))
        d = r.choice([1, 1, 2, 3])
    elif kind == "exp-boundary":
        bound = mgf_bound(fam, ps)
        # d at, just below, or above the boundary of the analytic domain (positive integers only: powers of an Exp variable)
        cands = {int(bound) if bound.denominator == 1 else int(bound) + 1, int(bound) + 1, max(1, int(bound) - (1 if bound.denominator == 1 else 0))}
        d = r.choice(sorted(x for x in cands if x >= 1))
        a = r.choice([0, 0, 1, 2])
    else:  # mix
        b, c = r.choice([(1, 0), (0, 1), (1, 1), (2, 0)])
        d = r.choice([1, 1, 2])
        a = min(idmax, r.choice([0, 0, 1]))
    feats = [f"fam-{fam}", f"req-{kind}", "exact-mode" if exact else "default-mode"]
    if a:
        feats.append("id-power")
    if b and c:
        feats.append("sin-and-cos")
    if (b + c) % 2 == 0 and b + c > 0:
        feats.append("zero-frequency-term")
    case = {"kind": kind, "fam": fam, "ps": [fs(p) for p in ps], "a": a, "b": b, "c": c, "d": d, "exact": exact, "features": feats}
    if fam == "Beta" and any(F(p).denominator != 1 for p in case["ps"][:2]):
        case["timeout"] = 25
        feats.append("beta-noninteger")
    return case


# ------------------------------------------------------------------------------------------------ programs
def dist_text(fam, ps):
    return f"{fam}({', '.join(fs(p) for p in ps)})"


PROGRAM_FAMILIES = [("Normal", 6), ("Uniform", 3), ("DistExp", 4), ("Laplace", 4), ("Gamma", 4), ("Bernoulli", 3), ("Beta", 2),
                    ("DiscreteUniform", 2), ("TruncNormal", 1), ("Categorical", 1)]
COEFS = [F(1), F(1), F(2), F(-1), F(1, 2), F(3), F(1, 10), F(-1, 2), F(1, 20)]


def coef_mul(c, mono):
    if c == 1:
        return mono
    if c == -1:
        return f"-{mono}"
    return f"{fs(c)}*{mono}" if c.denominator == 1 else f"({fs(c)})*{mono}"


def mono_text(m):
    parts = []
    for v, k in m.items():
        if k == 1:
            parts.append(v)
        elif k > 1:
            parts.append(f"{v}**{k}")
    return "*".join(parts) if parts else "1"


def program_case(rng, tier, idx):
    """small `while true` loop with draws, functional assignments and accumulators; returns case dict (text, goals, inits, ...)"""
    r = rng
    exact = (idx % 3 == 1) if tier == "quick" else bool(idx % 2)   # exact mode: sympy simplification of trig closed forms is slow
    feats = set(["exact-mode" if exact else "default-mode"])
    init, body = [], []
    inits = {}
    shape = wchoice(r, [("plain", 8), ("ref", 3), ("cond-keep", 3), ("cond-else", 2), ("init-func", 3), ("pre-use", 3), ("old-use", 3), ("two-draws", 4),
                        ("const", 4), ("mix", 3), ("divergent", 2), ("guarded", 1), ("simult", 1), ("const-init", 1), ("cond-ref", 2)])
    feats.add("shape-" + shape)
    fam = wchoice(r, PROGRAM_FAMILIES)
    want_exp = shape in ("mix", "divergent") or r.random() < 0.4
    if shape == "divergent":
        fam = r.choice(sorted(BOUNDED_MGF))
    ps = pick_params(r, fam, tier, for_exp=True, program=True)
    if shape == "divergent":
        # make E[e^{dX}] non-existent for d = 1 or 2
        ps = {"DistExp": r.choice([(F(1),), (F(1, 2),), (F(2),)]), "Gamma": r.choice([(F(2), F(1)), (F(3, 2), F(2)), (F(1), F(1, 2))]),
              "Laplace": r.choice([(F(0), F(1)), (F(1), F(2)), (F(-1), F(1, 2))])}[fam]
    feats.add("fam-" + fam)
    accs = ["y"]
    init.append(f"y = {r.choice([0, 0, 1, -2])}")
    if r.random() < 0.5:
        accs.append("w")
        init.append(f"w = {r.choice([0, 1, 3])}")

    funcs_x = []       # (var, func) of the main draw x

    def add_funcs(arg, base, lines, allow_exp=True, k=None):
        names = {"Sin": "s" + base, "Cos": "c" + base, "Exp": "g" + base}
        pool = ["Sin", "Cos"] + (["Exp"] if allow_exp else [])
        if k is None:
            k = r.choice([1, 2, 2, 3])
        chosen = r.sample(pool, min(k, len(pool)))
        args = arg if isinstance(arg, list) else [arg]
        out = []
        for f in chosen:
            lines.append(f"{names[f]} = {f}({r.choice(args)})")
            out.append((names[f], f))
        if base == "x" and shape in ("plain", "ref", "two-draws") and r.random() < 0.25:
            # a second variable holding the same function of the same draw (powers must add up)
            f = r.choice(chosen)
            dup = {"Sin": "t", "Cos": "u", "Exp": "v"}[f] + base
            lines.append(f"{dup} = {f}({r.choice(args)})")
            out.append((dup, f))
            feats.add("dup-func")
        return out

    # can the family take Exp safely (moderate magnitudes / existing)?
    bound = mgf_bound(fam, ps)
    exp_ok = bound is None or bound > 2
    if shape == "divergent":
        exp_ok = True
    if fam in ("Normal",) and ps[1] > 2:
        exp_ok = False
    use_exp = exp_ok and want_exp

    pre = []
    if shape == "guarded":
        init.append("t = 0")
    if shape == "const-init":
        init.append(f"k = {r.choice([1, 2, 3])}")
        if r.random() < 0.5:
            init.append("sk = Sin(k)")
        else:
            body.append("sk = Cos(k)")
    if shape in ("cond-keep", "cond-else"):
        body.append(f"b = Bernoulli({fs(r.choice([F(1, 2), F(1, 3), F(3, 4)]))})")
    draw_line = f"x = {dist_text(fam, ps)}"
    init_funcs_pending = False
    if shape == "init-func":
        init.append(draw_line)
        funcs_x = add_funcs("x", "x", init, allow_exp=use_exp)
        # the loop only consumes them (x, sx, ... stay constant random variables)
    else:
        if r.random() < 0.12 and shape in ("plain", "ref", "two-draws", "const"):
            # drawn (with other parameters) and transformed in the initial block as well
            ps0 = pick_params(r, fam, tier, for_exp=True, program=True)
            if mgf_bound(fam, ps0) is None or mgf_bound(fam, ps0) > 2:
                init.append(f"x = {dist_text(fam, ps0)}")
                init_funcs_pending = True
                feats.add("init-and-loop")
        body.append(draw_line)
        arg = "x"
        if shape == "cond-ref":
            # the argument is a copy of the draw made only in some iterations (otherwise it keeps its previous value): it is NOT the
            # draw of this iteration; either refused or analysed with the mixture semantics
            init.append(f"r = {r.choice([0, 0, 1])}")
            body.append(f"b = Bernoulli({fs(r.choice([F(1, 2), F(1, 4), F(3, 4)]))})")
            body.append("if b == 1:\n    r = x\nend")
            arg = "r"
            feats.add("conditional-copy-as-argument")
        elif shape == "ref" or (shape not in ("simult",) and r.random() < 0.15):
            body.append("r = x")
            arg = "r"
            feats.add("ref-arg")
            if r.random() < 0.3:
                body.append("q = r")
                arg = "q"
                feats.add("ref-chain")
            if r.random() < 0.5:
                arg = ["x", arg]      # some functions take the draw, others the reference
                feats.add("ref-and-direct")
        lines = []
        if shape == "mix":
            funcs_x = add_funcs(arg, "x", lines, allow_exp=True, k=3)
        elif shape == "divergent":
            one = (lambda: r.choice(arg)) if isinstance(arg, list) else (lambda: arg)
            lines.append(f"gx = Exp({one()})")
            funcs_x = [("gx", "Exp")]
            if r.random() < 0.5:
                lines.append(f"cx = Cos({one()})")
                funcs_x.append(("cx", "Cos"))
        else:
            funcs_x = add_funcs(arg, "x", lines, allow_exp=use_exp)
        if shape == "cond-keep":
            # first functional assignment is conditioned and keeps its old value otherwise
            v0 = lines[0]
            lines = [f"if b == 1:", f"    {v0}", "end"] + lines[1:]
            inits[funcs_x[0][0]] = r.choice([F(0), F(1, 2), F(-1), F(2)])
        elif shape == "cond-else":
            v0 = lines[0]
            name0 = funcs_x[0][0]
            alt = r.choice([f"{name0} = 2*{name0}", f"{name0} = 1", f"{name0} = {name0} - 1", f"{name0} = Cos(2)"])
            lines = [f"if b == 1:", f"    {v0}", "else:", f"    {alt}", "end"] + lines[1:]
            inits[name0] = r.choice([F(0), F(1, 2), F(1)])
        elif shape == "old-use":
            name0 = funcs_x[0][0]
            use = r.choice([f"y = y + {coef_mul(r.choice(COEFS), 'x*' + name0)}", f"y = y + {coef_mul(r.choice(COEFS), name0)}",
                            f"y = y + x - {name0}"] if not (fam == "TruncNormal" and tier == "quick") else [f"y = y + {name0}"])
            lines = [use] + lines
            inits[name0] = r.choice([F(1, 2), F(1), F(-1), F(2)])
        elif shape == "simult" and len(lines) >= 2:
            vs = [l.split(" = ")[0] for l in lines[:2]]
            rs = [l.split(" = ")[1] for l in lines[:2]]
            lines = [f"{vs[0]}, {vs[1]} = {rs[0]}, {rs[1]}"] + lines[2:]
        body += lines
        if init_funcs_pending:
            for v, f in funcs_x:
                init.append(f"{v} = {f}(x)")
    if shape == "pre-use":
        v = funcs_x[0][0]
        pre.append(f"y = y + {coef_mul(r.choice(COEFS), v)}")
        inits[v] = r.choice([F(0), F(1), F(-1, 2)])
        if r.random() < 0.5 and len(funcs_x) > 1:
            v2 = funcs_x[1][0]
            pre[-1] += f" + {v}*{v2}"
            inits[v2] = r.choice([F(0), F(2), F(1, 3)])

    funcs_z = []
    zname = None
    if shape == "two-draws" or r.random() < 0.2:
        fam2 = wchoice(r, PROGRAM_FAMILIES[:5] + [("Bernoulli", 3)])
        ps2 = pick_params(r, fam2, tier, for_exp=True, program=True)
        b2 = mgf_bound(fam2, ps2)
        body.append(f"z = {dist_text(fam2, ps2)}")
        zname = "z"
        funcs_z = add_funcs("z", "z", body, allow_exp=(b2 is None or b2 > 2) and not (fam2 == "Normal" and ps2[1] > 2), k=r.choice([1, 2]))
        feats.add("two-draws")
        feats.add("fam-" + fam2)
    consts = []
    if shape == "const" or r.random() < 0.2:
        style = wchoice(r, [("int", 3), ("float", 2), ("ref", 3), ("choice", 2)])
        f = r.choice(["Sin", "Cos", "Exp"])
        nm = {"Sin": "sk", "Cos": "ck", "Exp": "gk"}[f]
        if style == "int":
            body.append(f"{nm} = {f}({r.choice([0, 1, 2, 3])})")
        elif style == "float":
            body.append(f"{nm} = {f}({r.choice(['0.5', '0.25', '1.5', '0.1'])})")
        elif style == "choice":
            # the argument holds a probabilistic choice between numbers: not a constant (Polar refuses such arguments;
            # if it answers, the answer must be the mixture)
            a1, a2 = r.sample([F(1), F(2), F(1, 2), F(0), F(3)], 2)
            body.append(f"k = {fs(a1)} {{{fs(r.choice([F(1, 2), F(1, 3), F(3, 4)]))}}} {fs(a2)}")
            body.append(f"{nm} = {f}(k)")
        else:
            body.append(f"k = {fs(r.choice([F(1, 2), F(3, 2), F(2), F(-1, 3), F(1)]))}")
            if r.random() < 0.5:
                body.append("h = k")
                body.append(f"{nm} = {f}(h)")
            else:
                body.append(f"{nm} = {f}(k)")
        consts.append(nm)
        feats.add("const-arg-" + style)

    if shape == "const-init":
        consts.append("sk")
    fx = [v for v, _ in funcs_x]
    trig_x = [v for v, f in funcs_x if f != "Exp"]
    exp_x = [v for v, f in funcs_x if f == "Exp"]
    fz = [v for v, _ in funcs_z]

    # TruncNormal: sympy needs > 40 s for derivatives of the erf-based cf, so no powers of the draw itself in the quick tier
    allow_id = not (fam == "TruncNormal" and tier == "quick")

    def rand_mono(maxdeg, force=None):
        """monomial (dict) over x, its functional variables, z's, constants"""
        m = {}
        pool = list(fx) + (["x"] if allow_id else []) + fz + ([zname] if zname else []) + consts
        if shape == "mix":
            pool = [p for p in pool]
        deg = r.choice(range(1, maxdeg + 1))
        if force:
            for v in force:
                m[v] = m.get(v, 0) + 1
        tries = 0
        while sum(m.values()) < deg and tries < 60:
            tries += 1
            v = r.choice(pool)
            if v in exp_x and m.get(v, 0) >= (1 if shape != "divergent" else 2):
                continue
            if shape != "mix":
                # keep Sin/Cos and Exp of the same draw apart (their product is the separately generated 'mix' shape)
                if (v in exp_x and any(t in m for t in trig_x)) or (v in trig_x and any(t in m for t in exp_x)):
                    continue
            m[v] = m.get(v, 0) + 1
        return m

    maxdeg = 3 if tier == "quick" else 4
    updates = []
    force = None
    if shape == "mix" and trig_x and exp_x:
        force = [r.choice(trig_x), exp_x[0]]
        feats.add("mix-trig-exp")
    if shape == "divergent":
        force = [exp_x[0]] * r.choice([1, 2])
    m1 = rand_mono(maxdeg, force)
    rec = r.choice(["y", "y", "y", "(1/2)*y", "0"])
    if rec == "0":
        updates.append(f"y = {coef_mul(r.choice(COEFS), mono_text(m1))}")
    else:
        updates.append(f"y = {rec} + {coef_mul(r.choice(COEFS), mono_text(m1))}")
    if r.random() < 0.5:
        m2 = rand_mono(2)
        updates[-1] += f" + {coef_mul(r.choice(COEFS), mono_text(m2))}"
    if "w" in accs:
        m3 = rand_mono(2)
        form = r.choice(["w + M", "w + y*V", "(2/3)*w + M", "w + M - 1", "w + M {1/3} w - 1"])
        if "{" in form:
            feats.add("prob-choice")
        if form == "w + y*V":
            v = r.choice(trig_x or fx or ["x"])
            updates.append(f"w = w + {coef_mul(r.choice(COEFS[:5]), 'y*' + v)}")
            feats.add("acc-times-func")
        else:
            updates.append("w = " + form.replace("M", coef_mul(r.choice(COEFS), mono_text(m3))))
    if shape in ("cond-keep", "cond-else") and r.random() < 0.4:
        updates.append(f"if b == 0:\n    y = y + {r.choice(fx)}\nend")
    body_lines = pre + body + updates
    if shape == "guarded":
        body_lines.append("t = t + 1")
        guard = "t < 2"
    else:
        guard = "true"

    # goals
    goals = [{"y": 1}]
    cands = []
    if "w" in accs:
        cands.append({"w": 1})
    cands.append({"y": 2})
    for v in fx[:2]:
        cands.append({v: r.choice([1, 2])})
        if allow_id:
            cands.append({"x": 1, v: 1})
    if len(fx) >= 2 and (shape == "mix" or (fx[0] in exp_x) == (fx[1] in exp_x)):
        cands.append({fx[0]: 1, fx[1]: 1})
    if fz:
        cands.append({fz[0]: 1, fx[0]: 1})
    if consts:
        cands.append({consts[0]: r.choice([1, 2])})
    if force:
        cands.insert(0, {v: force.count(v) for v in force})
    r.shuffle(cands)
    if shape == "old-use":
        cands.insert(0, {"y": 1, fx[0]: 1})
        cands.insert(1, {"y": 2})
    if force:
        fm = {v: force.count(v) for v in force}
        goals.append(fm)
    for cnd in cands:
        if len(goals) >= (3 if tier == "quick" else 4):
            break
        if cnd not in goals:
            goals.append(cnd)

    text = "\n".join(init) + f"\nwhile {guard}:\n" + "\n".join("    " + l.replace("\n", "\n    ") for l in body_lines) + "\nend\n"
    return {"kind": "program", "text": text, "goals": goals, "inits": {k: [v.numerator, v.denominator] for k, v in inits.items()},
            "exact": exact, "N": 3, "features": sorted(feats), "shape": shape}
