"""Master side: case generation, persistent worker subprocesses with a per-case watchdog, aggregation of
monitor observations into verdict / evidence / replay files."""
import hashlib
import json
import os
import queue
import select
import subprocess
import sys
import threading
import time

ROOT = os.path.dirname(os.path.dirname(os.path.abspath(__file__)))
PY = os.environ.get("POLARMON_PYTHON", "/venv/bin/python")


def case_seed(seed, prop, i):
    h = hashlib.sha256(f"{seed}:{prop}:{i}".encode()).digest()
    return int.from_bytes(h[:6], "big")


class Worker:
    def __init__(self, check_id, tier, env_extra=None):
        self.check_id = check_id
        self.tier = tier
        self.env_extra = env_extra or {}
        self.proc = None
        self.start()

    def start(self):
        env = dict(os.environ)
        env.setdefault("PYTHONHASHSEED", "0")
        env["PYTHONDONTWRITEBYTECODE"] = "1"
        env["PYTHONPATH"] = ROOT + os.pathsep + os.path.join(ROOT, ".deps") + os.pathsep + env.get("PYTHONPATH", "")
        env["POLAR_VERIF"] = "1"
        env.update(self.env_extra)
        self.proc = subprocess.Popen(
            [PY, "-m", "polarmon.worker", self.check_id, self.tier],
            stdin=subprocess.PIPE, stdout=subprocess.PIPE, stderr=subprocess.DEVNULL, cwd=ROOT, env=env, bufsize=0,
        )
        self.buf = b""

    def kill(self):
        try:
            self.proc.kill()
            self.proc.wait(timeout=5)
        except Exception:
            pass

    def run(self, case, timeout):
        """returns result dict, or {'verdict':'inconclusive','reason':'timeout'|'worker-died'}"""
        try:
            self.proc.stdin.write((json.dumps(case) + "\n").encode())
            self.proc.stdin.flush()
        except Exception:
            self.kill()
            self.start()
            return {"verdict": "inconclusive", "reason": "worker-died"}
        deadline = time.time() + timeout
        fd = self.proc.stdout.fileno()
        while True:
            nl = self.buf.find(b"\n")
            if nl >= 0:
                line, self.buf = self.buf[:nl], self.buf[nl + 1:]
                try:
                    return json.loads(line.decode())
                except Exception:
                    return {"verdict": "inconclusive", "reason": "bad-worker-output"}
            left = deadline - time.time()
            if left <= 0:
                self.kill()
                self.start()
                return {"verdict": "inconclusive", "reason": "timeout"}
            r, _, _ = select.select([fd], [], [], min(left, 1.0))
            if r:
                chunk = os.read(fd, 1 << 16)
                if not chunk:
                    self.kill()
                    self.start()
                    return {"verdict": "inconclusive", "reason": "worker-died"}
                self.buf += chunk

    def close(self):
        try:
            self.proc.stdin.close()
        except Exception:
            pass
        self.kill()


def load_factor():
    """>= 1: how much slower than on an idle machine cases are expected to run, from the 1-minute load average measured before
    our own workers start (per-case watchdogs and the run deadline are wall-clock; on a machine shared with other jobs they are
    stretched accordingly, so that the same cases are decided).  Capped at 3."""
    try:
        import os
        load1 = os.getloadavg()[0]
        ncpu = os.cpu_count() or 1
        return round(min(3.0, max(1.0, 1.0 + (load1 - 0.25 * ncpu) / ncpu)), 2)
    except Exception:
        return 1.0


def run_cases(check_id, tier, cases, timeout, nworkers=16, deadline_s=None, env_extra=None, progress=False, min_deciding=0, timeout_scale=1.0):
    """run cases over a pool of workers; returns list of (case, result) in case order.  After deadline_s no new case is
    started - unless fewer than min_deciding cases have been decided so far, then up to 3 * deadline_s."""
    q = queue.Queue()
    decided = [0]
    for i, c in enumerate(cases):
        q.put((i, c))
    results = [None] * len(cases)
    t0 = time.time()
    lock = threading.Lock()
    done = [0]

    def loop():
        w = Worker(check_id, tier, env_extra)
        try:
            while True:
                try:
                    i, c = q.get_nowait()
                except queue.Empty:
                    return
                if deadline_s is not None and time.time() - t0 > deadline_s and \
                        (decided[0] >= min_deciding or time.time() - t0 > 3 * deadline_s):
                    results[i] = {"verdict": "inconclusive", "reason": "skipped-deadline"}
                    continue
                to = c["timeout"] * timeout_scale if "timeout" in c else timeout
                res = w.run(c, to)
                results[i] = res
                with lock:
                    done[0] += 1
                    if res.get("verdict") in ("held", "violated"):
                        decided[0] += 1
                    if progress and done[0] % 25 == 0:
                        print(f"  .. {done[0]}/{len(cases)} cases, {time.time()-t0:.0f}s", file=sys.stderr, flush=True)
        finally:
            w.close()

    n = max(1, min(nworkers, len(cases)))
    threads = [threading.Thread(target=loop, daemon=True) for _ in range(n)]
    for t in threads:
        t.start()
    for t in threads:
        t.join()
    return list(zip(cases, results))
