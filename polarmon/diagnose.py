"""Diagnostic predicates that attribute a violation to a mechanism (used as known-finding keys).
A key names a mechanism, never a case hash or random values.  Anything that cannot be attributed
returns None and is therefore reported as a new violation."""


K_ABSTRACT = "abstracted-condition-loses-correlation-with-its-own-variables"
K_FLOAT_PARAM = "float-literal-inside-distribution-parameter-expression-kept-as-double"


def abstracted_condition_vars(program):
    """names of the variables occurring in conditions Polar abstracted as Bernoulli events, plus the variables
    that are assigned from them (one level)"""
    names = set()
    for cond in getattr(program, "abstracted_const_store", {}).values():
        names |= {str(s) for s in cond.get_free_symbols()}
    return names


def classify_moment_violation(case, violation, recs, program):
    """K_ABSTRACT: the goal monomial contains a variable of a condition that Polar replaced by an independent Bernoulli
    event, so the correlation between that variable and the assignments under the condition is lost by design.
    K_UNINIT (see classify_type_violation): decided by re-running the C05 oracle on the same program is not done here."""
    if program is None:
        return None
    av = abstracted_condition_vars(program)
    if av:
        # the abstracted event is a function of everything its variables are computed from (w = u + d -> u, d) ...
        try:
            pv = {str(v) for v in program.variables}
            changed = True
            while changed:
                changed = False
                for a in program.loop_body:
                    if str(a.variable) in av:
                        anc = {str(x) for x in a.get_free_symbols(with_condition=False)} & pv
                        if not anc <= av:
                            av |= anc
                            changed = True
        except Exception:
            pass
        goal = violation.get("goal", "")
        import re
        gv = set(re.findall(r"[A-Za-z_][A-Za-z_0-9]*", goal))
        if gv & av:
            return K_ABSTRACT
        # variables computed from an abstracted-condition variable in the loop body (y = y + u)
        try:
            for a in program.loop_body:
                if str(a.variable) in gv and {str(x) for x in a.get_free_symbols(with_condition=False)} & av:
                    return K_ABSTRACT
        except Exception:
            pass
    return None


def classify_stage_violation(case, violation, stage, stages, abstraction_explains=True):
    """K_ABSTRACT: the first pass after which the law differs is the one that replaced a condition over a continuous
    draw by an independent Bernoulli event (the joint law of the draw and the variables assigned under the condition
    changes by design)"""
    import re
    text = case.get("text", "")
    # a decimal literal multiplied with / added to an identifier inside the parameter list of a draw
    in_param = re.search(r"[A-Z][A-Za-z]*\([^()\n]*?(\d+\.\d+\s*[*+-]\s*[a-z_]|[a-z_]\w*\s*[*+-]\s*\d+\.\d+)", text)
    m = re.search(r"source ([-0-9.e]+) vs stage ([-0-9.e]+)", violation.get("detail", ""))
    if in_param and m:
        try:
            a, b = float(m.group(1)), float(m.group(2))
            if abs(a - b) <= 1e-13 * max(1.0, abs(a)):
                return K_FLOAT_PARAM
        except ValueError:
            pass
    if abstraction_explains and stage.extra.get("abstracted") and stage.name in ("ConditionsNormalizer", "ConditionsToArithm"):
        prev = [s for s in stages if s.index == stage.index - 1]
        if stage.name == "ConditionsNormalizer" or (prev and prev[0].extra.get("abstracted")):
            return K_ABSTRACT
    return None


def uninitialised_source_vars(case):
    """source variables without an assignment in the init block"""
    from .lang.ast import Program, program_variables, assigned_vars
    prog = Program.from_json(case["ast"])
    init_assigned = set(assigned_vars(prog.init))
    declared = {v for v, _, _ in prog.typedefs}
    return [v for v in program_variables(prog) if v not in init_assigned]


K_UNINIT = "uninitialised-variable-initial-value-missing-from-type"


def guard_level_assigned(prog):
    """variables assigned at the level that Polar treats as 'under the loop guard': top-level statements of the body,
    looking through a chain of single-branch else-less ifs that LoopGuardTransformer collapses into the guard"""
    from .lang.ast import assigned_vars
    stmts = prog.body
    while len(stmts) == 1 and stmts[0][0] == "if" and len(stmts[0][1]) == 1 and stmts[0][2] is None:
        stmts = stmts[0][1][0][1]
    top, nested = set(), set()
    for s in stmts:
        if s[0] == "assign":
            top.add(s[1])
        elif s[0] == "simult":
            top.update(s[1])
        elif s[0] == "if":
            for _, br in s[1]:
                nested.update(assigned_vars(br))
            if s[2] is not None:
                nested.update(assigned_vars(s[2]))
    return top, nested


def classify_type_violation(case, violation, stage, inits):
    """K_UNINIT: every offending value is the (symbolic) initial value of a source variable that has no initial
    assignment and is assigned ONLY directly under the loop guard (not inside a nested branch) of a guarded loop -
    the one situation in which Polar's typer deliberately ignores the initial value.  An uninitialised variable
    that is assigned inside a nested if is not explained by that mechanism."""
    from .lang.ast import Program
    prog = Program.from_json(case["ast"])
    un = uninitialised_source_vars(case)
    top, nested = guard_level_assigned(prog)
    collapsed = len(prog.body) == 1 and prog.body[0][0] == "if" and len(prog.body[0][1]) == 1 and prog.body[0][2] is None
    guarded = prog.guard != ("true",) or collapsed
    explained = [v for v in un if v in top and v not in nested and guarded]
    standins = {str(inits[v]) for v in explained if v in inits}
    bad = set(violation.get("bad_values", []))
    if bad and bad <= standins:
        return K_UNINIT
    return None


def classify_recurrence_violation(case, violation, recs, program, stage, inits):
    return None


K_SHIFT = "termination-sequence-shifted-when-guard-variable-reassigned"


def classify_termination_violation(bad, seq, ref, values, N, guard_reassigned):
    """K_SHIFT: the guard variable is assigned in the body, so Polar's recovered guard is over the _old copy taken at the
    start of the iteration: its sequence equals the true conditional sequence delayed by one iteration
    (and has the uninitialised _old..0 symbol at n=0)."""
    from . import polar_api as P
    if not guard_reassigned:
        return None
    if bad["kind"] == "leftover-symbol-in-conditional-sequence":
        if bad.get("n") == 0 and all(s.startswith("_old") and s.endswith("0") for s in bad.get("symbols", [])):
            return K_SHIFT
        return None
    if bad["kind"] != "wrong-conditional-moment":
        return None
    pts = 0
    for n in range(1, N + 1):
        if ref[n - 1] is None:
            continue
        try:
            pv = P.eval_at(seq, n, values)
        except Exception:
            return None
        if not P.values_equal(pv, ref[n - 1]):
            return None
        pts += 1
    return K_SHIFT if pts >= 2 else None


def classify_refusal(case, refusal_key, message):
    return None


K_TYPER_BLIND = "type-inference-ignores-branch-conditions-and-guard"
K_LINSOLVE = "cyclic-solver-linsolve-gives-up-on-algebraic-roots"


def blind_unbounded_vars(prog, params, inits, rounds=12, cap=25, atoms=None):
    """Condition-blind value-set analysis (what a typer that ignores guards and branch conditions can know):
    every assignment in the body is considered executable in every iteration.  Returns the set of variables
    whose value set exceeds `cap` values or becomes continuous."""
    import itertools
    from fractions import Fraction
    from .lang.ast import walk_stmts, expr_vars, program_variables
    from .ref.engine import Engine, eval_expr, AP, Unsupported, DomainError, CapExceeded
    from .ref import laws
    eng = Engine(prog, params, inits, max_states=5000)
    try:
        d0 = eng.initial()
    except (Unsupported, DomainError, CapExceeded):
        return None
    sets = {v: set() for v in eng.vars}
    bad = set()
    for st in d0:
        for v, i in eng.index.items():
            if isinstance(st[i], AP):
                bad.add(v)
            else:
                sets[v].add(st[i])
    assigns = []
    for s in walk_stmts(prog.body):
        if s[0] == "assign":
            assigns.append((s[1], s[2]))
        elif s[0] == "simult":
            for v, r in zip(s[1], s[2]):
                assigns.append((v, r))

    def expr_values(e):
        vs = sorted(expr_vars(e) & set(sets))
        if any(v in bad for v in vs):
            return None
        combos = 1
        for v in vs:
            combos *= max(1, len(sets[v]))
        if combos > 4000:
            return None
        out = set()
        for tup in itertools.product(*[sorted(sets[v]) for v in vs]):
            env = dict(params)
            env.update(zip(vs, tup))
            try:
                x = eval_expr(e, env)
            except (Unsupported, DomainError):
                return None
            if isinstance(x, AP):
                return None
            out.add(x)
        return out

    for rnd in range(rounds):
        grew = set()
        for v, r in assigns:
            if v in bad:
                continue
            new = None
            if r[0] == "poly":
                new = expr_values(r[1])
            elif r[0] == "choice":
                new = set()
                for e, _p in r[1]:
                    x = expr_values(e)
                    if x is None:
                        new = None
                        break
                    new |= x
            elif r[0] == "draw" and r[1] in ("Bernoulli", "Categorical", "DiscreteUniform"):
                try:
                    ps = [eval_expr(p, dict(params)) for p in r[2]]
                    new = {x for x, _ in laws.pmf((r[1],) + tuple(ps))}
                except Exception:
                    new = None
            if new is None:
                bad.add(v)
                continue
            if not new <= sets[v]:
                grew.add(v)
            sets[v] |= new
            if len(sets[v]) > cap:
                bad.add(v)
        if not grew:
            break
    else:
        # value sets that still grow after the last round have no condition-blind bound
        bad |= grew
    if atoms is not None:
        # non-reduced comparison atoms (d >= f): normalization tests the alias lhs - rhs, whose condition-blind value set can exceed the
        # cap although every variable in it stays below it
        for (lhs, rhs) in atoms:
            from .lang.ast import binop
            vals = expr_values(binop("-", lhs, rhs))
            if vals is None or len(vals) > cap:
                bad.add("<atom>")
                break
    return bad


def classify_refusal(case, refusal_key, message):
    """K_TYPER_BLIND: normalization refuses because a condition variable could not be typed, and a condition-blind
    value analysis (ignoring guards/branch conditions, like Polar's typer) indeed cannot bound one of the variables
    occurring in conditions although its reachable value set is finite."""
    from .lang.ast import Program, walk_stmts, cond_vars
    from .checks.common import frac_dec
    if refusal_key.startswith("HeuristicGCDFailed@utils/expressions.py:solve_linear"):
        # sympy's linsolve gives up ("no luck") inside CyclicSolver._solve_for_unknowns when the characteristic
        # roots are algebraic numbers of degree >= 3: exception type + raising function identify the mechanism
        return K_LINSOLVE
    if not refusal_key.startswith("NormalizingException@"):
        return None
    prog = Program.from_json(case["ast"])
    cvars = set(cond_vars(prog.guard))
    for blk in (prog.init, prog.body):
        for s in walk_stmts(blk):
            if s[0] == "if":
                for c, _ in s[1]:
                    cond_vars(c, cvars)
    atoms = []

    def collect(c):
        if c[0] == "atom":
            if not (c[1][0] == "var" and c[3][0] == "num"):
                atoms.append((c[1], c[3]))
        elif c[0] == "not":
            collect(c[1])
        elif c[0] in ("and", "or"):
            collect(c[1])
            collect(c[2])
    collect(prog.guard)
    for blk in (prog.init, prog.body):
        for s in walk_stmts(blk):
            if s[0] == "if":
                for c, _ in s[1]:
                    collect(c)
    bad = blind_unbounded_vars(prog, frac_dec(case["params"]), frac_dec(case["inits"]), atoms=atoms)
    if bad is None:
        return None
    if (cvars | {"<atom>"}) & bad:
        return K_TYPER_BLIND
    return None


def uninit_explained_vars(case):
    """source variables without initial assignment that are assigned ONLY directly under the loop guard of a guarded loop"""
    from .lang.ast import Program
    prog = Program.from_json(case["ast"])
    un = uninitialised_source_vars(case)
    top, nested = guard_level_assigned(prog)
    collapsed = len(prog.body) == 1 and prog.body[0][0] == "if" and len(prog.body[0][1]) == 1 and prog.body[0][2] is None
    guarded = prog.guard != ("true",) or collapsed
    return [v for v in un if v in top and v not in nested and guarded]


def attribute_uninit(mod, case, res, tier):
    """Counterfactual diagnosis of K_UNINIT for value-level violations (wrong moments, recurrences, conditional moments): the same
    case is re-run with the stand-in initial values of the variables of uninit_explained_vars written as explicit initial assignments
    (the source semantics is unchanged: the oracle uses those stand-ins anyway).  A violation whose goal is no longer violated in
    the counterfactual run is explained by the one mechanism 'the initial value of an uninitialised guarded variable is missing from
    its type'; everything else keeps key None.  If the counterfactual run does not finish in its time box, the static form of the
    predicate (the goal mentions such a variable) is used."""
    import re
    from fractions import Fraction
    from .lang.ast import Program, num
    from .lang.printer import program_str
    from .checks import common as K
    unkeyed = [v for v in res.get("violations", []) if v.get("key") is None]
    if not unkeyed or case.get("_cf") or "ast" not in case or "inits" not in case:
        return
    ex = uninit_explained_vars(case)
    if not ex:
        return
    inits = K.frac_dec(case["inits"])
    if not all(isinstance(inits.get(v), Fraction) for v in ex):
        return
    prog = Program.from_json(case["ast"])
    prog2 = Program(prog.typedefs, [("assign", v, ("poly", num(inits[v]))) for v in ex] + list(prog.init), prog.guard, prog.body)
    case2 = dict(case, text=program_str(prog2), ast=prog2.to_json(), id=str(case.get("id")) + "-explicit-init", _cf=True)
    case2.pop("cli", None)
    bad_goals, ran = set(), False
    try:
        with K.soft_timeout(getattr(mod, "TIMEOUT", {}).get(tier, 30) * 0.35):
            r2 = mod.run_case(case2, tier)
        if r2.get("verdict") in ("held", "violated"):
            ran = True
            bad_goals = {str(v.get("goal")) for v in r2.get("violations", [])}
    except BaseException as e:
        if isinstance(e, (KeyboardInterrupt, SystemExit)):
            raise
    n = 0
    for v in unkeyed:
        g = str(v.get("goal"))
        mentions = bool(set(re.findall(r"[A-Za-z_][A-Za-z_0-9]*", g)) & set(ex))
        if mentions and (not ran or g not in bad_goals):
            v["key"] = K_UNINIT
            v["attribution"] = ("counterfactual: not violated once " + ", ".join(ex) + " have explicit initial assignments") if ran \
                else "static: the goal mentions an uninitialised variable assigned only under the guard (counterfactual run did not finish)"
            n += 1
    if n:
        res.setdefault("events", {})["uninit-counterfactual-attributions"] = n


K_SENS_ABS = "sensitivity-ignores-parameter-inside-abstracted-condition"


def param_reaches_abstracted_condition(program, param):
    """the probability of a condition that Polar abstracted as an opaque symbol depends on the parameter: the parameter occurs in the
    condition itself or in an assignment (parameters of a draw, probabilities, coefficients) of a variable in the dependency closure
    of the condition's variables"""
    if program is None or not getattr(program, "abstracted_const_store", {}):
        return False
    av = set()
    for cond in program.abstracted_const_store.values():
        syms = {str(x) for x in cond.get_free_symbols()}
        if param in syms:
            return True
        av |= syms
    try:
        pv = {str(v) for v in program.variables}
        changed = True
        while changed:
            changed = False
            for a in list(program.initial) + list(program.loop_body):
                if str(a.variable) in av:
                    fs = {str(x) for x in a.get_free_symbols()}
                    if param in fs:
                        return True
                    anc = (fs & pv) - av
                    if anc:
                        av |= anc
                        changed = True
    except Exception:
        return False
    return False
