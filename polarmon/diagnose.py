"""Diagnostic predicates that attribute a violation to a mechanism (used as known-finding keys).
A key names a mechanism, never a case hash or random values.  Anything that cannot be attributed
returns None and is therefore reported as a new violation."""


def classify_moment_violation(case, violation, recs, program):
    return None


def classify_stage_violation(case, violation, stage, stages):
    return None


def uninitialised_source_vars(case):
    """source variables without an assignment in the init block"""
    from .lang.ast import Program, program_variables, assigned_vars
    prog = Program.from_json(case["ast"])
    init_assigned = set(assigned_vars(prog.init))
    declared = {v for v, _, _ in prog.typedefs}
    return [v for v in program_variables(prog) if v not in init_assigned]


K_UNINIT = "uninitialised-variable-initial-value-missing-from-type"


def classify_type_violation(case, violation, stage, inits):
    """K_UNINIT: every offending value is the (symbolic) initial value of a source variable that has no
    initial assignment - Polar's typer deliberately ignores it when the first assignment is under the loop guard"""
    un = uninitialised_source_vars(case)
    standins = {str(inits[v]) for v in un if v in inits}
    bad = set(violation.get("bad_values", []))
    if bad and bad <= standins:
        return K_UNINIT
    return None


def classify_recurrence_violation(case, violation, recs, program, stage, inits):
    return None


K_SHIFT = "termination-sequence-shifted-when-guard-variable-reassigned"


def classify_termination_violation(bad, seq, ref, values, N, guard_reassigned):
    """K_SHIFT: the guard variable is assigned in the body, so Polar's recovered guard is over the _old copy taken at the
    start of the iteration: its sequence equals the true conditional sequence delayed by one iteration
    (and has the uninitialised _old..0 symbol at n=0)."""
    from . import polar_api as P
    if not guard_reassigned:
        return None
    if bad["kind"] == "leftover-symbol-in-conditional-sequence":
        if bad.get("n") == 0 and all(s.startswith("_old") and s.endswith("0") for s in bad.get("symbols", [])):
            return K_SHIFT
        return None
    if bad["kind"] != "wrong-conditional-moment":
        return None
    pts = 0
    for n in range(1, N + 1):
        if ref[n - 1] is None:
            continue
        try:
            pv = P.eval_at(seq, n, values)
        except Exception:
            return None
        if not P.values_equal(pv, ref[n - 1]):
            return None
        pts += 1
    return K_SHIFT if pts >= 2 else None


def classify_refusal(case, refusal_key, message):
    return None
