"""Diagnostic predicates that attribute a violation to a mechanism (used as known-finding keys).
A key names a mechanism, never a case hash or random values.  Anything that cannot be attributed
returns None and is therefore reported as a new violation."""


def classify_moment_violation(case, violation, recs, program):
    return None


def classify_stage_violation(case, violation, stage, stages):
    return None


def uninitialised_source_vars(case):
    """source variables without an assignment in the init block"""
    from .lang.ast import Program, program_variables, assigned_vars
    prog = Program.from_json(case["ast"])
    init_assigned = set(assigned_vars(prog.init))
    declared = {v for v, _, _ in prog.typedefs}
    return [v for v in program_variables(prog) if v not in init_assigned]


K_UNINIT = "uninitialised-variable-initial-value-missing-from-type"


def classify_type_violation(case, violation, stage, inits):
    """K_UNINIT: every offending value is the (symbolic) initial value of a source variable that has no
    initial assignment - Polar's typer deliberately ignores it when the first assignment is under the loop guard"""
    un = uninitialised_source_vars(case)
    standins = {str(inits[v]) for v in un if v in inits}
    bad = set(violation.get("bad_values", []))
    if bad and bad <= standins:
        return K_UNINIT
    return None


def classify_recurrence_violation(case, violation, recs, program, stage, inits):
    return None
