"""Diagnostic predicates that attribute a violation to a mechanism (used as known-finding keys).
A key names a mechanism, never a case hash or random values.  Anything that cannot be attributed
returns None and is therefore reported as a new violation."""


def classify_moment_violation(case, violation, recs, program):
    return None
