"""in-process runner for development: python -m polarmon.debug C01 quick 0 40 [filter-substring]"""
import importlib, sys, json, os
sys.path.insert(0, os.path.join(os.path.dirname(os.path.dirname(os.path.abspath(__file__))), ".deps"))
def main():
    cid, tier, seed, n = sys.argv[1], sys.argv[2], int(sys.argv[3]), int(sys.argv[4])
    flt = sys.argv[5] if len(sys.argv) > 5 else None
    mod = importlib.import_module(f"polarmon.checks.{cid.lower()}")
    if hasattr(mod, "worker_init"): mod.worker_init(tier)
    cases = mod.generate(seed, tier)[:n]
    import io, contextlib
    for c in cases:
        buf = io.StringIO()
        try:
            with contextlib.redirect_stdout(buf):
                r = mod.run_case(c, tier)
        except Exception as e:
            import traceback; traceback.print_exc(); print(c.get('text')); continue
        line = f"{c['id']} {r.get('verdict')} {r.get('reason','')} {r.get('refusal','')} {r.get('refusals','')} cmp={r.get('comparisons')}"
        if flt is None or flt in line:
            print(line)
            if flt:
                print(c.get('text', '')[:3000]); print(r.get('detail', '')); 
                for v in r.get('violations', []): print('  VIOL', v.get('kind'), v.get('key'), v.get('detail'))
main()
